#!/venv/bin/python
"""confirm_seeded.py <ID> <k> : confirm a sub-agent's change in a scratch worktree (tests still pass, demo fails with the
change and passes without), run ./check <ID> against it on /repo (apply, check, undo) and store it under seeded/<ID>-<k>/."""
import json, os, shutil, subprocess, sys, time
pid, k = sys.argv[1], sys.argv[2]
prop_for_check = sys.argv[3] if len(sys.argv) > 3 else pid
src = '/tmp/mut/%s/out/%s' % (pid, k)
wt = '/tmp/mut/%s/wt' % pid
def sh(cmd, **kw):
    return subprocess.run(cmd, shell=True, stdout=subprocess.PIPE, stderr=subprocess.STDOUT, text=True, **kw)
assert sh('git -C %s status --porcelain' % wt).stdout.strip() == '', 'worktree not clean'
env = 'cd %s && PYTHONPATH=%s PYTHONHASHSEED=0 /venv/bin/python' % (wt, wt)
d0 = sh('%s %s/demo.py' % (env, src))
assert sh('git -C %s apply %s/patch.diff' % (wt, src)).returncode == 0, 'patch does not apply'
old_meta = '/verif/seeded/%s-%s/meta.json' % (pid, k)
if os.environ.get('SEEDED_RERUN') and os.path.exists(old_meta) and '36 failed, 363 passed' in json.load(open(old_meta))['confirmed']['tests_with_change']:
    # re-run of an already confirmed change against newer machinery: the suite result was established at confirmation
    class t: stdout = json.load(open(old_meta))['confirmed']['tests_with_change']
else:
    t = sh('cd %s && /venv/bin/python -m pytest -q -p no:cacheprovider --timeout=900 --continue-on-collection-errors 2>&1 | tail -1' % wt)
d1 = sh('%s %s/demo.py' % (env, src))
t0 = time.time()
# run the check against the changed tree (VERIF_REPO = the scratch worktree, so /repo itself is never disturbed
# while other work is running; on a quiet system `git -C /repo apply` + ./check + checkout gives the same result)
c = sh('cd /verif && VERIF_REPO=%s ./check %s --tier quick 2>/dev/null' % (wt, prop_for_check))
sh('git -C %s checkout -- . && git -C %s clean -fdq' % (wt, wt))
tests_ok = '36 failed, 363 passed' in t.stdout
print('tests:', t.stdout.strip()[-60:], '| demo clean exit', d0.returncode, '| demo mutated exit', d1.returncode)
confirmed = tests_ok and d0.returncode == 0 and d1.returncode != 0
lines = [l for l in c.stdout.splitlines() if l.startswith(('VIOLATION', 'KNOWN', prop_for_check))]
caught = c.returncode == 1 and any(l.startswith('VIOLATION') for l in lines)
with_witness = any(l.startswith('VIOLATION') and 'no-failing-input-found' not in l for l in lines)
print('check:', 'CAUGHT' if caught else 'MISSED', '(with witness)' if with_witness else '', lines[-1] if lines else c.stdout[-300:])
if confirmed:
    dst = '/verif/seeded/%s-%s' % (pid, k)
    os.makedirs(dst, exist_ok=True)
    for f in ('patch.diff', 'demo.py', 'notes.md'):
        if os.path.exists(os.path.join(src, f)):
            shutil.copy(os.path.join(src, f), dst)
    meta = {'property': pid, 'needs_to_manifest': 'see notes.md', 'confirmed': {
                'tests_with_change': t.stdout.strip()[-60:], 'demo_exit_unchanged_tree': d0.returncode, 'demo_exit_with_change': d1.returncode,
                'commands': ['git apply patch.diff (scratch worktree)', 'pytest baseline command', 'python demo.py', 'git checkout -- .']},
            'check_run': {'cmd': 'VERIF_REPO=<tree with the change> ./check %s --tier quick' % prop_for_check, 'caught': caught, 'with_concrete_witness': with_witness,
                          'summary': lines[-1] if lines else '', 'wall_s': round(time.time() - t0, 1)}}
    json.dump(meta, open(os.path.join(dst, 'meta.json'), 'w'), indent=1)
    print('stored', dst)
else:
    print('NOT CONFIRMED - not stored')
