#!/venv/bin/python
"""Regenerate MANIFEST.json from the property modules present under harness/props/ (run from /verif)."""
import importlib, json, os, sys
sys.path.insert(0, '/repo'); sys.path.insert(0, os.path.dirname(os.path.dirname(os.path.abspath(__file__))))
ALL = ['C%02d' % i for i in range(1, 21)]
PENDING_REASON = ('not claimed yet: the Coq model/theorems and the tie to the source for this property are still being built '
                  '(DESIGN.md section 3 gives the plan); nothing about it is asserted by this manifest')
checks, na = [], []
READY = json.load(open('tools/ready.json'))   # ids reviewed and released by the integrator
for pid in ALL:
    path = os.path.join('harness', 'props', pid.lower() + '.py')
    if not os.path.exists(path) or pid not in READY:
        na.append({'property_id': pid, 'reason': PENDING_REASON})
        continue
    mod = importlib.import_module('harness.props.' + pid.lower())
    if getattr(mod, 'NOT_READY', False):
        na.append({'property_id': pid, 'reason': PENDING_REASON})
        continue
    checks.append({
        'property_id': pid,
        'quick_cmd': './check %s --tier quick' % pid,
        'thorough_cmd': './check %s --tier thorough' % pid,
        'evidence_file': 'evidence/%s.json' % pid,
        'replay_cmd_template': './check %s --replay {path}' % pid,
        'engine': 'coq-proof+tie',
        'level_claimed': {'category': 'proof', 'text': mod.LEVEL_TEXT, 'design_ref': getattr(mod, 'DESIGN_REF', 'DESIGN.md section 3, ' + pid)},
        'level_note': mod.LEVEL_NOTE,
        'technique': getattr(mod, 'TECHNIQUE', 'machine-checked proof in Coq 8.16.1 about a model tied to the source by translator and/or differential correspondence'),
    })
man = {
    'version': 1,
    'setup_cmd': './check --setup',
    'hooks': {'guard': 'MITXGRADERS_VERIF', 'enable': 'no hooks in /repo: the harness wraps methods at run time (export MITXGRADERS_VERIF=1 is set by ./check for uniformity)',
              'baseline_off_cmd': 'mkdir -p /verif/_build && cd /repo && env -u MITXGRADERS_VERIF /venv/bin/python -m pytest -ra -q -p no:cacheprovider --timeout=900 --continue-on-collection-errors --junitxml=/verif/_build/baseline.junit.xml',
              'source_commits': [], 'add_only': True},
    'engines': [{'name': 'coq-proof+tie', 'path': 'check', 'serves_properties': [c['property_id'] for c in checks],
                 'kind_free_text': 'Coq 8.16.1 development under coq/ (Lib, Gen regenerated from /repo, Model, Bridge, Proofs, Props) built by make; '
                                   'harness/ runs the implementation, evaluates the model with coqc/vm_compute on the same inputs, runs a property oracle to find replayable witnesses'}],
    'checks': checks,
    'not_applicable': na,
    'notes': 'See DESIGN.md. known_findings.json lists recorded findings; fixed defects are "fix:" commits in /repo.',
}
json.dump(man, open('MANIFEST.json', 'w'), indent=1)
open('MANIFEST.json', 'a').write('\n')
print('checks:', [c['property_id'] for c in checks])
