You are one of several engineers building, in parallel, a machine-checked verification framework (Coq 8.16.1 + Python harness) in /verif for the Python library in /repo (mitodl/mitx-grading-library). You own property C05 and nothing else. Another engineer integrates and commits; you do NOT run git commit, and you do NOT edit /repo.

READ FIRST (in this order):
 1. /verif/harness/README.md  — how a property check is built here (file layout, harness API, quality bar).
 2. /verif/DESIGN.md — §2 (architecture, numeric policy, check protocol), the "### C05" subsection of §3 (the plan for your property), the rows of §5 mentioning C05 (candidate defects seen while reading the code), and the appendices if referenced by your subsection.
 3. The worked example, end to end: /verif/harness/props/c17.py, /verif/translate/credit.py, /verif/translate/pyq.py, /verif/coq/Model/Credit.v, /verif/coq/Bridge/Credit.v, /verif/coq/Proofs/Credit.v, /verif/coq/Proofs/CreditGen.v, /verif/coq/Props/C17.v, /verif/harness/core.py, /verif/harness/main.py.
 4. The code your property is anchored in (paths below), under /repo.

YOUR PROPERTY (fixed text, do not reword it anywhere):
-----
C05 — ListGrader gives the best consistent assignment and reports it per input box

Statement: For an ordered ListGrader the i-th result is exactly what the i-th subgrader returns for the i-th answer and the i-th input. For an unordered ListGrader the results are those of a one-to-one assignment of inputs to answers whose total credit is maximal over all assignments, and when several alternative answer lists are given the reported list is one with maximal total credit; every result is reported at the position of the input it grades, also when inputs are grouped for nested graders. With partial_credit=False every entry is zeroed unless every entry is fully correct.

Quantified over: All answer lists (each answer with alternatives, partial credits and messages), all input lists and all permutations of them for n <= 6 (oracle: exhaustive search over n! assignments), 1-3 alternative answer lists, ordered and unordered, partial_credit on and off, every valid grouping of up to 8 inputs (equal-size groups when unordered, nested List/SingleList subgraders), and arbitrary credit matrices realised through an author-defined table-driven ItemGrader.

Code anchors (files / mechanisms):
- find_optimal_order builds the credit matrix and maps Munkres indexes back to rows (inputs) (mitxgraders/listgrader.py:27-60)
- get_ordered_input_list pairs grader/answer/input positionally and passes siblings (mitxgraders/listgrader.py:479-498)
- perform_check + groupify_list/ungroupify_list restore input order (mitxgraders/listgrader.py:400-463,500-530)
- create_grouping_map / validate_grouping (mitxgraders/listgrader.py:304-359)
- get_best_result picks the answer list with the highest total (mitxgraders/listgrader.py:532-595)
- partial_credit=False zeroing (mitxgraders/listgrader.py:390-396)

Files: mitxgraders/listgrader.py, mitxgraders/helpers/munkres.py
Observe at: grader(None, [inputs...])['input_list'] compared entry-by-entry with subgrader calls and an exhaustive-search oracle

-----

DELIVERABLES (all under /verif; choose file names that contain your model's name so they cannot collide with other engineers' files):
 - coq/Model/<Name>.v : executable Gallina model of the code (total functions; fuel where needed; oracles as function arguments / Section variables, never Axioms).
 - coq/Proofs/<Name>.v : lemmas. coq/Props/C05.v : ONLY `Theorem C05_<name> : <statement>. Proof. exact <lemma>. Qed.` plus `Example`s (non-vacuity; `…_refuted` witnesses by vm_compute when the faithful model violates the full statement). Theorems must be universally quantified (all inputs / lists of any length / histories of any length), proved by induction/invariants — never a finite sample presented as the general claim. State the full-strength property; if you can only prove part, keep the full statement in a comment, name what you proved `…_partial`, and say what is missing.
 - where the source is declarative/straight-line: a fail-closed translator translate/<name>.py regenerating coq/Gen/<Name>.v from /repo on every run + coq/Bridge/<Name>.v (tie A). Otherwise (or additionally) the differential correspondence (tie B) in the harness module.
 - harness/props/c05.py implementing the API of README (TRANSLATORS, MIRRORED, run, replay, classify_known if needed, LEVEL_TEXT, LEVEL_NOTE, TECHNIQUE, DESIGN_REF, TRUSTED, ASSUMPTIONS, REFUTED). `run` = correspondence (model evaluated INSIDE Coq on the very inputs the implementation ran, implementation outputs embedded in the case terms) + an independent property oracle on the implementation that yields replayable witnesses.
 - `cd /verif && ./check C05 --tier quick` must exit 0 on the unchanged /repo with discharged == obligations, in ≤ ~90 s; `--tier thorough` ≤ 15 min.

RULES
 - No Admitted/admit/Axiom/Parameter/Conjecture/section-less Variable or Hypothesis; no disabling of kernel checks. stdlib + lia/nia/lra/nra (+ what DESIGN allows for your property). Every coqc under `timeout`. No CoqHammer tactics in saved files.
 - Do not edit shared files (harness/core.py, harness/main.py, coq/Lib/QRound.v, coq/Lib/PyNum.v, coq/Model/Result.v, coq/Proofs/Credit.v, other engineers' files, MANIFEST.json, DESIGN.md, properties.jsonl, fingerprints.json, known_findings.json). If you need a helper, put it in your own files. You may import the shared ones.
 - Compile while developing with plain coqc on your own files:  cd /verif/coq && timeout 600 coqc -Q . Verif -w -all <Dir>/<File>.v   (in dependency order). `./check C05` builds through make under a lock.
 - MUTATION TESTING must not touch /repo: make a scratch copy  `git -C /repo worktree add --detach /tmp/wt_C05 HEAD`, edit files there, run  `cd /verif && VERIF_REPO=/tmp/wt_C05 ./check C05` , and at the end `git -C /repo worktree remove --force /tmp/wt_C05`. Try at least four hand-made semantic mutations of the anchored code that the existing tests would not catch (think: boundary `<`/`<=`, wrong operand, dropped reset, swapped order, loosened check); each should produce a VIOLATION with a concrete impl-level witness. Strengthen generators/oracles when one is missed. Also confirm the check is green again on the clean tree afterwards.
 - FALSE ALARMS ARE FATAL: on the unchanged tree the check must never print VIOLATION. The oracle must demand exactly what the property text states. Make every random choice derive from ctx['seed']; run the quick check with VERIF_SEED=0,1,2,3 and make sure all are green.
 - If the faithful model or the real code VIOLATES the property on the unchanged tree (see DESIGN §5 for candidates), do not hide it and do not weaken the oracle: keep the witness in the oracle's corpus so it is found on every run, implement `classify_known` so that exactly that defect (characterised as narrowly as possible by the input/call site) maps to a finding id string, prove a `C05_…_refuted` Example with the witness in Props/C05.v where the model can express it, and REPORT it to me (witness, why it violates the property text, and a minimal patch to /repo that a maintainer would accept, as a unified diff in your final message — do not apply it). Until I record it in known_findings.json the check will show it as a VIOLATION; that is expected — tell me.
 - Disk/time: remove scratch files you create under /tmp when done. Keep going until the deliverables are complete and robust; depth of the theorems matters more than breadth of prose.

FINAL REPORT (your last message, concise): files created; list of theorems in Props/C05.v with one line each (full / partial / refuted); what ties the model to the code and the measured volumes/timings; mutations tried and which were caught (and how); findings on the unchanged tree with witnesses and proposed patches; anything in DESIGN.md's C05 section that turned out wrong or infeasible.

NOTE ON THE ASSIGNMENT SOLVER (applies to the unordered case). The solver is already modelled: coq/Model/Munkres.v is a generic, executable transcription of munkres.py (`compute K zero add sub ltb eqb maxsize`), instantiated at Z (`computeZ`) and PrimFloat; its correctness statement is `munkres_partial_correct_statement` in coq/Proofs/MunkresSpec.v (a complete minimum-cost matching whenever it returns) and is being proved by another engineer in coq/Proofs/MunkresCorrect.v (not yet available; do not wait for it and do not edit those files). For your model: instantiate the generic `compute` at Q yourself (costs `1 - grade`, `Qeq_bool`/`Qlt`-based comparisons, maxsize 9223372036854775807) so that your model is executable, and state your optimality theorems inside a `Section` with an explicit hypothesis saying that the solver you call returns a complete maximum-total-credit (= minimum-total-cost) one-to-one assignment — phrased over your own Q cost matrix — so that the theorems come out as explicit implications `forall solve, solver_optimal solve -> …`; name that hypothesis in TRUSTED/ASSUMPTIONS as "discharged for integer costs by C06's munkres_partial_correct; the transfer to rational costs (scale invariance of the solver) is validated by correspondence, not proved". Everything else (padding, surplus penalty, consolidation, positions, zeroing, best list) must be proved outright.
