You are one of several engineers building, in parallel, a machine-checked verification framework (Coq 8.16.1 + Python harness) in /verif for the Python library in /repo (mitodl/mitx-grading-library). You own property C10 and nothing else. Another engineer integrates and commits; you do NOT run git commit, and you do NOT edit /repo.

READ FIRST (in this order):
 1. /verif/harness/README.md  — how a property check is built here (file layout, harness API, quality bar).
 2. /verif/DESIGN.md — §2 (architecture, numeric policy, check protocol), the "### C10" subsection of §3 (the plan for your property), the rows of §5 mentioning C10 (candidate defects seen while reading the code), and the appendices if referenced by your subsection.
 3. The worked example, end to end: /verif/harness/props/c17.py, /verif/translate/credit.py, /verif/translate/pyq.py, /verif/coq/Model/Credit.v, /verif/coq/Bridge/Credit.v, /verif/coq/Proofs/Credit.v, /verif/coq/Proofs/CreditGen.v, /verif/coq/Props/C17.v, /verif/harness/core.py, /verif/harness/main.py.
 4. The code your property is anchored in (paths below), under /repo.

YOUR PROPERTY (fixed text, do not reword it anywhere):
-----
C10 — Reported name usage is exact and parsing is independent of parse history

Statement: Parsing an expression reports exactly the sets of variable names, function names and number suffixes that occur in it: none missing, none spurious, functions and variables never confused, for every expression the grammar accepts. The outcome for a string (reported names, value when evaluated, or the error raised) is the same whether or not that string or any other string, valid or invalid, was parsed or evaluated before.

Quantified over: All generated expression derivations with known name sets (names that are prefixes or suffixes of one another, variables named like functions, primes, underscores, tensor indices, suffix letters next to 'e'-exponents, names only inside array literals or exponents) and all interleavings of parse/evaluate calls on the shared parser: exhaustively for call sequences of length <= 4 over an alphabet of about a dozen strings that includes malformed ones, randomly for longer sequences, each compared with a freshly constructed parser.

Code anchors (files / mechanisms):
- parse actions add to variables_used/functions_used/suffixes_used; reset_storage replaces the sets in a finally block (mitxgraders/helpers/calc/expressions.py:322-343,494-511)
- MathParser.parse caches by whitespace-stripped string; module-level PARSER shared by parse() and evaluator() (mitxgraders/helpers/calc/expressions.py:513-530,1168-1175)
- MathExpression keeps the sets and returns them as EvalMetaData (mitxgraders/helpers/calc/expressions.py:563-568,700-704)
- consumers: get_used_vars, DependentSampler dependency inference, function restrictions (mitxgraders/helpers/math_helpers.py:502-519; mitxgraders/sampling.py:412-422)

Files: mitxgraders/helpers/calc/expressions.py, mitxgraders/helpers/math_helpers.py, mitxgraders/sampling.py
Observe at: parse(s).variables_used/functions_used/suffixes_used; evaluator(s, ...)[1]; exceptions from parse/evaluator across call sequences

-----

DELIVERABLES (all under /verif; choose file names that contain your model's name so they cannot collide with other engineers' files):
 - coq/Model/<Name>.v : executable Gallina model of the code (total functions; fuel where needed; oracles as function arguments / Section variables, never Axioms).
 - coq/Proofs/<Name>.v : lemmas. coq/Props/C10.v : ONLY `Theorem C10_<name> : <statement>. Proof. exact <lemma>. Qed.` plus `Example`s (non-vacuity; `…_refuted` witnesses by vm_compute when the faithful model violates the full statement). Theorems must be universally quantified (all inputs / lists of any length / histories of any length), proved by induction/invariants — never a finite sample presented as the general claim. State the full-strength property; if you can only prove part, keep the full statement in a comment, name what you proved `…_partial`, and say what is missing.
 - where the source is declarative/straight-line: a fail-closed translator translate/<name>.py regenerating coq/Gen/<Name>.v from /repo on every run + coq/Bridge/<Name>.v (tie A). Otherwise (or additionally) the differential correspondence (tie B) in the harness module.
 - harness/props/c10.py implementing the API of README (TRANSLATORS, MIRRORED, run, replay, classify_known if needed, LEVEL_TEXT, LEVEL_NOTE, TECHNIQUE, DESIGN_REF, TRUSTED, ASSUMPTIONS, REFUTED). `run` = correspondence (model evaluated INSIDE Coq on the very inputs the implementation ran, implementation outputs embedded in the case terms) + an independent property oracle on the implementation that yields replayable witnesses.
 - `cd /verif && ./check C10 --tier quick` must exit 0 on the unchanged /repo with discharged == obligations, in ≤ ~90 s; `--tier thorough` ≤ 15 min.

RULES
 - No Admitted/admit/Axiom/Parameter/Conjecture/section-less Variable or Hypothesis; no disabling of kernel checks. stdlib + lia/nia/lra/nra (+ what DESIGN allows for your property). Every coqc under `timeout`. No CoqHammer tactics in saved files.
 - Do not edit shared files (harness/core.py, harness/main.py, coq/Lib/QRound.v, coq/Lib/PyNum.v, coq/Model/Result.v, coq/Proofs/Credit.v, other engineers' files, MANIFEST.json, DESIGN.md, properties.jsonl, fingerprints.json, known_findings.json). If you need a helper, put it in your own files. You may import the shared ones.
 - Compile while developing with plain coqc on your own files:  cd /verif/coq && timeout 600 coqc -Q . Verif -w -all <Dir>/<File>.v   (in dependency order). `./check C10` builds through make under a lock.
 - MUTATION TESTING must not touch /repo: make a scratch copy  `git -C /repo worktree add --detach /tmp/wt_C10 HEAD`, edit files there, run  `cd /verif && VERIF_REPO=/tmp/wt_C10 ./check C10` , and at the end `git -C /repo worktree remove --force /tmp/wt_C10`. Try at least four hand-made semantic mutations of the anchored code that the existing tests would not catch (think: boundary `<`/`<=`, wrong operand, dropped reset, swapped order, loosened check); each should produce a VIOLATION with a concrete impl-level witness. Strengthen generators/oracles when one is missed. Also confirm the check is green again on the clean tree afterwards.
 - FALSE ALARMS ARE FATAL: on the unchanged tree the check must never print VIOLATION. The oracle must demand exactly what the property text states. Make every random choice derive from ctx['seed']; run the quick check with VERIF_SEED=0,1,2,3 and make sure all are green.
 - If the faithful model or the real code VIOLATES the property on the unchanged tree (see DESIGN §5 for candidates), do not hide it and do not weaken the oracle: keep the witness in the oracle's corpus so it is found on every run, implement `classify_known` so that exactly that defect (characterised as narrowly as possible by the input/call site) maps to a finding id string, prove a `C10_…_refuted` Example with the witness in Props/C10.v where the model can express it, and REPORT it to me (witness, why it violates the property text, and a minimal patch to /repo that a maintainer would accept, as a unified diff in your final message — do not apply it). Until I record it in known_findings.json the check will show it as a VIOLATION; that is expected — tell me.
 - Disk/time: remove scratch files you create under /tmp when done. Keep going until the deliverables are complete and robust; depth of the theorems matters more than breadth of prose.

FINAL REPORT (your last message, concise): files created; list of theorems in Props/C10.v with one line each (full / partial / refuted); what ties the model to the code and the measured volumes/timings; mutations tried and which were caught (and how); findings on the unchanged tree with witnesses and proposed patches; anything in DESIGN.md's C10 section that turned out wrong or infeasible.

NOTE FOR C10: the lexer/parser/evaluator model already exists (engineer of C03 owns it, read-only for you, it may still receive small additions): coq/Model/Lexer.v, coq/Model/Parser.v, coq/Model/ParserGrammar.v, coq/Model/Eval.v and the C03 proofs under coq/Proofs/ (look for Parser*/Lexer*/Eval* files) and coq/Props/C03.v, harness/props/c03.py (shows how real `ParseResults` trees are rendered and compared with the model). Build C10 ON TOP of that model: the name-collection functions on trees, `names_exact` for rendered derivations, and the parser state machine (cache + scratch sets + reset in all exits) in your own file coq/Model/ParserState.v. If you need a lemma about the parser that C03 does not provide, prove it in your own files.
