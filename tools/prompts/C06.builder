You are one of several engineers building, in parallel, a machine-checked verification framework (Coq 8.16.1 + Python harness) in /verif for the Python library in /repo (mitodl/mitx-grading-library). You own property C06 and nothing else. Another engineer integrates and commits; you do NOT run git commit, and you do NOT edit /repo.

READ FIRST (in this order):
 1. /verif/harness/README.md  — how a property check is built here (file layout, harness API, quality bar).
 2. /verif/DESIGN.md — §2 (architecture, numeric policy, check protocol), the "### C06" subsection of §3 (the plan for your property), the rows of §5 mentioning C06 (candidate defects seen while reading the code), and the appendices if referenced by your subsection.
 3. The worked example, end to end: /verif/harness/props/c17.py, /verif/translate/credit.py, /verif/translate/pyq.py, /verif/coq/Model/Credit.v, /verif/coq/Bridge/Credit.v, /verif/coq/Proofs/Credit.v, /verif/coq/Proofs/CreditGen.v, /verif/coq/Props/C17.v, /verif/harness/core.py, /verif/harness/main.py.
 4. The code your property is anchored in (paths below), under /repo.

YOUR PROPERTY (fixed text, do not reword it anywhere):
-----
C06 — The assignment solver returns a complete minimum-cost matching for any matrix

Statement: Given any rectangular matrix of finite non-negative costs (integers or floats, ties allowed), the assignment solver terminates and returns min(rows, columns) index pairs that use each row and each column at most once and whose total cost equals the minimum over all such matchings, up to rounding. It leaves the caller's matrix unmodified and gives the same guarantee when the same solver object is reused for further matrices.

Quantified over: Exhaustively: every r x c matrix with r, c <= 3 over {0,1,2} and every 4 x 4 matrix over {0,1}. Randomly: integer, uniform-float, tie-heavy and grade-like (1 - g for g in a credit palette such as 0.1, 1/3, 0.7) matrices up to 10 x 10, square and rectangular, checked against an exact subset-DP oracle; sequences of solves of different shapes on one solver instance.

Code anchors (files / mechanisms):
- Munkres.compute drives steps 1-6 and reads the starred zeros inside the original rows/columns (mitxgraders/helpers/munkres.py:404-460)
- steps 1-6 of the Hungarian method with equality-to-zero tests on (possibly float) reduced costs (mitxgraders/helpers/munkres.py:473-629)
- pad_matrix squares rectangular input on a copy (mitxgraders/helpers/munkres.py:368-402)
- make_cost_matrix converts profits to costs (mitxgraders/helpers/munkres.py:731-770)

Files: mitxgraders/helpers/munkres.py
Observe at: Munkres().compute(cost_matrix) return value and cost_matrix afterwards

-----

DELIVERABLES (all under /verif; choose file names that contain your model's name so they cannot collide with other engineers' files):
 - coq/Model/<Name>.v : executable Gallina model of the code (total functions; fuel where needed; oracles as function arguments / Section variables, never Axioms).
 - coq/Proofs/<Name>.v : lemmas. coq/Props/C06.v : ONLY `Theorem C06_<name> : <statement>. Proof. exact <lemma>. Qed.` plus `Example`s (non-vacuity; `…_refuted` witnesses by vm_compute when the faithful model violates the full statement). Theorems must be universally quantified (all inputs / lists of any length / histories of any length), proved by induction/invariants — never a finite sample presented as the general claim. State the full-strength property; if you can only prove part, keep the full statement in a comment, name what you proved `…_partial`, and say what is missing.
 - where the source is declarative/straight-line: a fail-closed translator translate/<name>.py regenerating coq/Gen/<Name>.v from /repo on every run + coq/Bridge/<Name>.v (tie A). Otherwise (or additionally) the differential correspondence (tie B) in the harness module.
 - harness/props/c06.py implementing the API of README (TRANSLATORS, MIRRORED, run, replay, classify_known if needed, LEVEL_TEXT, LEVEL_NOTE, TECHNIQUE, DESIGN_REF, TRUSTED, ASSUMPTIONS, REFUTED). `run` = correspondence (model evaluated INSIDE Coq on the very inputs the implementation ran, implementation outputs embedded in the case terms) + an independent property oracle on the implementation that yields replayable witnesses.
 - `cd /verif && ./check C06 --tier quick` must exit 0 on the unchanged /repo with discharged == obligations, in ≤ ~90 s; `--tier thorough` ≤ 15 min.

RULES
 - No Admitted/admit/Axiom/Parameter/Conjecture/section-less Variable or Hypothesis; no disabling of kernel checks. stdlib + lia/nia/lra/nra (+ what DESIGN allows for your property). Every coqc under `timeout`. No CoqHammer tactics in saved files.
 - Do not edit shared files (harness/core.py, harness/main.py, coq/Lib/QRound.v, coq/Lib/PyNum.v, coq/Model/Result.v, coq/Proofs/Credit.v, other engineers' files, MANIFEST.json, DESIGN.md, properties.jsonl, fingerprints.json, known_findings.json). If you need a helper, put it in your own files. You may import the shared ones.
 - Compile while developing with plain coqc on your own files:  cd /verif/coq && timeout 600 coqc -Q . Verif -w -all <Dir>/<File>.v   (in dependency order). `./check C06` builds through make under a lock.
 - MUTATION TESTING must not touch /repo: make a scratch copy  `git -C /repo worktree add --detach /tmp/wt_C06 HEAD`, edit files there, run  `cd /verif && VERIF_REPO=/tmp/wt_C06 ./check C06` , and at the end `git -C /repo worktree remove --force /tmp/wt_C06`. Try at least four hand-made semantic mutations of the anchored code that the existing tests would not catch (think: boundary `<`/`<=`, wrong operand, dropped reset, swapped order, loosened check); each should produce a VIOLATION with a concrete impl-level witness. Strengthen generators/oracles when one is missed. Also confirm the check is green again on the clean tree afterwards.
 - FALSE ALARMS ARE FATAL: on the unchanged tree the check must never print VIOLATION. The oracle must demand exactly what the property text states. Make every random choice derive from ctx['seed']; run the quick check with VERIF_SEED=0,1,2,3 and make sure all are green.
 - If the faithful model or the real code VIOLATES the property on the unchanged tree (see DESIGN §5 for candidates), do not hide it and do not weaken the oracle: keep the witness in the oracle's corpus so it is found on every run, implement `classify_known` so that exactly that defect (characterised as narrowly as possible by the input/call site) maps to a finding id string, prove a `C06_…_refuted` Example with the witness in Props/C06.v where the model can express it, and REPORT it to me (witness, why it violates the property text, and a minimal patch to /repo that a maintainer would accept, as a unified diff in your final message — do not apply it). Until I record it in known_findings.json the check will show it as a VIOLATION; that is expected — tell me.
 - Disk/time: remove scratch files you create under /tmp when done. Keep going until the deliverables are complete and robust; depth of the theorems matters more than breadth of prose.

FINAL REPORT (your last message, concise): files created; list of theorems in Props/C06.v with one line each (full / partial / refuted); what ties the model to the code and the measured volumes/timings; mutations tried and which were caught (and how); findings on the unchanged tree with witnesses and proposed patches; anything in DESIGN.md's C06 section that turned out wrong or infeasible.
