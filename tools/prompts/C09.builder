You are one of several engineers building, in parallel, a machine-checked verification framework (Coq 8.16.1 + Python harness) in /verif for the Python library in /repo (mitodl/mitx-grading-library). You own property C09 and nothing else. Another engineer integrates and commits; you do NOT run git commit, and you do NOT edit /repo.

READ FIRST (in this order):
 1. /verif/harness/README.md  — how a property check is built here (file layout, harness API, quality bar).
 2. /verif/DESIGN.md — §2 (architecture, numeric policy, check protocol), the "### C09" subsection of §3 (the plan for your property), the rows of §5 mentioning C09 (candidate defects seen while reading the code), and the appendices if referenced by your subsection.
 3. The worked example, end to end: /verif/harness/props/c17.py, /verif/translate/credit.py, /verif/translate/pyq.py, /verif/coq/Model/Credit.v, /verif/coq/Bridge/Credit.v, /verif/coq/Proofs/Credit.v, /verif/coq/Proofs/CreditGen.v, /verif/coq/Props/C17.v, /verif/harness/core.py, /verif/harness/main.py.
 4. The code your property is anchored in (paths below), under /repo.

YOUR PROPERTY (fixed text, do not reword it anywhere):
-----
C09 — Restrictions on student formulas cannot be bypassed to obtain credit

Statement: A student formula that would otherwise earn credit is refused with a student-facing error, never graded correct or partially correct, if it calls a function outside the permitted set (blacklisted, or absent from a whitelist), contains a forbidden string (compared ignoring spaces), or omits a required function. A formula that mentions an instructor-only variable, a sibling variable, or any name that is not an allowed variable, constant, numbered-variable instance, suffix or function is rejected as undefined, whether or not the name's value would cancel out. The author's own answers remain free to use all of these.

Quantified over: All combinations of blacklist / whitelist / whitelist=[None] / required_functions / forbidden_strings / instructor_vars / user functions and constants / numbered variables / metric suffixes, x 'cheating' formulas built as a correct answer combined with a neutral term that uses the restricted construct (f(0)*0, +z-z, z^0, nested inside function arguments, array entries, exponents, primed and case-variant names), for Formula, Numerical, Matrix and Sum graders and for ordered lists whose answers reference sibling inputs.

Code anchors (files / mechanisms):
- check_math_response runs post_eval_validation whenever the raw verdict is True or 'partial' (mitxgraders/helpers/math_helpers.py:484-500)
- validate_forbidden_strings_not_used / validate_required_functions_used / validate_only_permitted_functions_used (mitxgraders/helpers/math_helpers.py:60-144,222-244)
- get_permitted_functions builds the permitted set from defaults, whitelist, blacklist, user functions (mitxgraders/helpers/math_helpers.py:146-220)
- gen_evaluations deletes instructor and sibling variables from scope before evaluating student input (mitxgraders/formulagrader/formulagrader.py:283-313; mitxgraders/formulagrader/integralgrader.py:694-722)
- MathExpression.check_scope rejects names missing from the scope; parse actions record functions used (mitxgraders/helpers/calc/expressions.py:327-343,598-660)

Files: mitxgraders/helpers/math_helpers.py, mitxgraders/formulagrader/formulagrader.py, mitxgraders/formulagrader/integralgrader.py, mitxgraders/helpers/calc/expressions.py
Observe at: grader(None, cheating_formula): must raise InvalidInput/UndefinedVariable/UndefinedFunction and never return grade_decimal > 0

-----

DELIVERABLES (all under /verif; choose file names that contain your model's name so they cannot collide with other engineers' files):
 - coq/Model/<Name>.v : executable Gallina model of the code (total functions; fuel where needed; oracles as function arguments / Section variables, never Axioms).
 - coq/Proofs/<Name>.v : lemmas. coq/Props/C09.v : ONLY `Theorem C09_<name> : <statement>. Proof. exact <lemma>. Qed.` plus `Example`s (non-vacuity; `…_refuted` witnesses by vm_compute when the faithful model violates the full statement). Theorems must be universally quantified (all inputs / lists of any length / histories of any length), proved by induction/invariants — never a finite sample presented as the general claim. State the full-strength property; if you can only prove part, keep the full statement in a comment, name what you proved `…_partial`, and say what is missing.
 - where the source is declarative/straight-line: a fail-closed translator translate/<name>.py regenerating coq/Gen/<Name>.v from /repo on every run + coq/Bridge/<Name>.v (tie A). Otherwise (or additionally) the differential correspondence (tie B) in the harness module.
 - harness/props/c09.py implementing the API of README (TRANSLATORS, MIRRORED, run, replay, classify_known if needed, LEVEL_TEXT, LEVEL_NOTE, TECHNIQUE, DESIGN_REF, TRUSTED, ASSUMPTIONS, REFUTED). `run` = correspondence (model evaluated INSIDE Coq on the very inputs the implementation ran, implementation outputs embedded in the case terms) + an independent property oracle on the implementation that yields replayable witnesses.
 - `cd /verif && ./check C09 --tier quick` must exit 0 on the unchanged /repo with discharged == obligations, in ≤ ~90 s; `--tier thorough` ≤ 15 min.

RULES
 - No Admitted/admit/Axiom/Parameter/Conjecture/section-less Variable or Hypothesis; no disabling of kernel checks. stdlib + lia/nia/lra/nra (+ what DESIGN allows for your property). Every coqc under `timeout`. No CoqHammer tactics in saved files.
 - Do not edit shared files (harness/core.py, harness/main.py, coq/Lib/QRound.v, coq/Lib/PyNum.v, coq/Model/Result.v, coq/Proofs/Credit.v, other engineers' files, MANIFEST.json, DESIGN.md, properties.jsonl, fingerprints.json, known_findings.json). If you need a helper, put it in your own files. You may import the shared ones.
 - Compile while developing with plain coqc on your own files:  cd /verif/coq && timeout 600 coqc -Q . Verif -w -all <Dir>/<File>.v   (in dependency order). `./check C09` builds through make under a lock.
 - MUTATION TESTING must not touch /repo: make a scratch copy  `git -C /repo worktree add --detach /tmp/wt_C09 HEAD`, edit files there, run  `cd /verif && VERIF_REPO=/tmp/wt_C09 ./check C09` , and at the end `git -C /repo worktree remove --force /tmp/wt_C09`. Try at least four hand-made semantic mutations of the anchored code that the existing tests would not catch (think: boundary `<`/`<=`, wrong operand, dropped reset, swapped order, loosened check); each should produce a VIOLATION with a concrete impl-level witness. Strengthen generators/oracles when one is missed. Also confirm the check is green again on the clean tree afterwards.
 - FALSE ALARMS ARE FATAL: on the unchanged tree the check must never print VIOLATION. The oracle must demand exactly what the property text states. Make every random choice derive from ctx['seed']; run the quick check with VERIF_SEED=0,1,2,3 and make sure all are green.
 - If the faithful model or the real code VIOLATES the property on the unchanged tree (see DESIGN §5 for candidates), do not hide it and do not weaken the oracle: keep the witness in the oracle's corpus so it is found on every run, implement `classify_known` so that exactly that defect (characterised as narrowly as possible by the input/call site) maps to a finding id string, prove a `C09_…_refuted` Example with the witness in Props/C09.v where the model can express it, and REPORT it to me (witness, why it violates the property text, and a minimal patch to /repo that a maintainer would accept, as a unified diff in your final message — do not apply it). Until I record it in known_findings.json the check will show it as a VIOLATION; that is expected — tell me.
 - Disk/time: remove scratch files you create under /tmp when done. Keep going until the deliverables are complete and robust; depth of the theorems matters more than breadth of prose.

FINAL REPORT (your last message, concise): files created; list of theorems in Props/C09.v with one line each (full / partial / refuted); what ties the model to the code and the measured volumes/timings; mutations tried and which were caught (and how); findings on the unchanged tree with witnesses and proposed patches; anything in DESIGN.md's C09 section that turned out wrong or infeasible.

NOTE FOR C09: the lexer/parser/evaluator model already exists (engineer of C03 owns it, read-only for you, it may still receive small additions): coq/Model/Lexer.v, coq/Model/Parser.v, coq/Model/ParserGrammar.v, coq/Model/Eval.v, coq/Props/C03.v, harness/props/c03.py. Another engineer is building C10 (name usage: vars_of/funcs_of/suffixes_of on trees and `names_exact`) in parallel in files named coq/Model/ParserState.v / coq/Proofs/ParserState*.v / coq/Proofs/Names*.v — do not wait for it: define what you need about "the names occurring in a tree" in your own files (reuse C03's functions if they already exist there) and state `undefined_name_rejected` over trees of the C03 model. Your own model files: coq/Model/Restrict.v (+ Gen/Restrict.v by translator, Bridge/Restrict.v).
