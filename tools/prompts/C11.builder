You are one of several engineers building, in parallel, a machine-checked verification framework (Coq 8.16.1 + Python harness) in /verif for the Python library in /repo (mitodl/mitx-grading-library). You own property C11 and nothing else. Another engineer integrates and commits; you do NOT run git commit, and you do NOT edit /repo.

READ FIRST (in this order):
 1. /verif/harness/README.md  — how a property check is built here (file layout, harness API, quality bar).
 2. /verif/DESIGN.md — §2 (architecture, numeric policy, check protocol), the "### C11" subsection of §3 (the plan for your property), the rows of §5 mentioning C11 (candidate defects seen while reading the code), and the appendices if referenced by your subsection.
 3. The worked example, end to end: /verif/harness/props/c17.py, /verif/translate/credit.py, /verif/translate/pyq.py, /verif/coq/Model/Credit.v, /verif/coq/Bridge/Credit.v, /verif/coq/Proofs/Credit.v, /verif/coq/Proofs/CreditGen.v, /verif/coq/Props/C17.v, /verif/harness/core.py, /verif/harness/main.py.
 4. The code your property is anchored in (paths below), under /repo.

YOUR PROPERTY (fixed text, do not reword it anywhere):
-----
C11 — A grader's verdict depends only on its configuration and the current call

Statement: Calling a grader any number of times, in any order, with any mix of inputs (including calls that raise) never changes what a later call returns: each call grades as a freshly constructed grader with the same configuration would, where a grader without configured answers uses the expect value of the current call (or the last successfully supplied one when none is given) and a grader with configured answers ignores expect. Grading and construction never alter the author's configuration objects, the variable and function scopes handed to the evaluator, other grader instances, or process-wide settings (default constants and functions, the matrix negative-power switch, floating-point error handling, registered class defaults).

Quantified over: Exhaustively: all call sequences up to length 4 over an event alphabet of (expect in {absent, valid, a different valid one, invalid}) x (input in {right, wrong, malformed}) for each item-grader class with and without configured answers and with debug on/off, compared with a small reference state machine and with fresh instances. Randomly: longer sequences over mixed graders that share subgraders, matrix graders with negative powers disabled, and reuse of one configuration dictionary for several graders.

Code anchors (files / mechanisms):
- ItemGrader.__call__ infers answers from expect, stores them in config['answers'] and sets inferring_answers (mitxgraders/baseclasses.py:718-751)
- create_debuglog / log_created flag reset at the start of each grading (mitxgraders/baseclasses.py:212-241,275-280)
- ObjectWithSchema.__init__ copies the author's config via coerce2unicode before validating (mitxgraders/baseclasses.py:63-108)
- DefaultValuesMeta gives each class its own default_values; register/clear_registered_defaults (mitxgraders/baseclasses.py:22-61,110-142)
- MathArray.enable_negative_powers restores the class flag in a finally block; used by MatrixGrader.check_response (mitxgraders/helpers/calc/math_array.py:338-375; mitxgraders/formulagrader/matrixgrader.py:118-121)
- eval_variable copies values so scopes are not mutated (mitxgraders/helpers/calc/expressions.py:777-794)
- validate_math_config copies default_variables before deleting constants (mitxgraders/helpers/math_helpers.py:442-450)
- IntervalGrader.__init__ supplies a default subgrader (mitxgraders/formulagrader/intervalgrader.py:87-97)

Files: mitxgraders/baseclasses.py, mitxgraders/helpers/calc/math_array.py, mitxgraders/formulagrader/matrixgrader.py, mitxgraders/helpers/calc/expressions.py, mitxgraders/formulagrader/intervalgrader.py, mitxgraders/helpers/math_helpers.py, mitxgraders/listgrader.py
Observe at: results/exceptions of the n-th call in a sequence versus a fresh grader; snapshots of config dicts, scopes and process-wide settings before and after

-----

DELIVERABLES (all under /verif; choose file names that contain your model's name so they cannot collide with other engineers' files):
 - coq/Model/<Name>.v : executable Gallina model of the code (total functions; fuel where needed; oracles as function arguments / Section variables, never Axioms).
 - coq/Proofs/<Name>.v : lemmas. coq/Props/C11.v : ONLY `Theorem C11_<name> : <statement>. Proof. exact <lemma>. Qed.` plus `Example`s (non-vacuity; `…_refuted` witnesses by vm_compute when the faithful model violates the full statement). Theorems must be universally quantified (all inputs / lists of any length / histories of any length), proved by induction/invariants — never a finite sample presented as the general claim. State the full-strength property; if you can only prove part, keep the full statement in a comment, name what you proved `…_partial`, and say what is missing.
 - where the source is declarative/straight-line: a fail-closed translator translate/<name>.py regenerating coq/Gen/<Name>.v from /repo on every run + coq/Bridge/<Name>.v (tie A). Otherwise (or additionally) the differential correspondence (tie B) in the harness module.
 - harness/props/c11.py implementing the API of README (TRANSLATORS, MIRRORED, run, replay, classify_known if needed, LEVEL_TEXT, LEVEL_NOTE, TECHNIQUE, DESIGN_REF, TRUSTED, ASSUMPTIONS, REFUTED). `run` = correspondence (model evaluated INSIDE Coq on the very inputs the implementation ran, implementation outputs embedded in the case terms) + an independent property oracle on the implementation that yields replayable witnesses.
 - `cd /verif && ./check C11 --tier quick` must exit 0 on the unchanged /repo with discharged == obligations, in ≤ ~90 s; `--tier thorough` ≤ 15 min.

RULES
 - No Admitted/admit/Axiom/Parameter/Conjecture/section-less Variable or Hypothesis; no disabling of kernel checks. stdlib + lia/nia/lra/nra (+ what DESIGN allows for your property). Every coqc under `timeout`. No CoqHammer tactics in saved files.
 - Do not edit shared files (harness/core.py, harness/main.py, coq/Lib/QRound.v, coq/Lib/PyNum.v, coq/Model/Result.v, coq/Proofs/Credit.v, other engineers' files, MANIFEST.json, DESIGN.md, properties.jsonl, fingerprints.json, known_findings.json). If you need a helper, put it in your own files. You may import the shared ones.
 - Compile while developing with plain coqc on your own files:  cd /verif/coq && timeout 600 coqc -Q . Verif -w -all <Dir>/<File>.v   (in dependency order). `./check C11` builds through make under a lock.
 - MUTATION TESTING must not touch /repo: make a scratch copy  `git -C /repo worktree add --detach /tmp/wt_C11 HEAD`, edit files there, run  `cd /verif && VERIF_REPO=/tmp/wt_C11 ./check C11` , and at the end `git -C /repo worktree remove --force /tmp/wt_C11`. Try at least four hand-made semantic mutations of the anchored code that the existing tests would not catch (think: boundary `<`/`<=`, wrong operand, dropped reset, swapped order, loosened check); each should produce a VIOLATION with a concrete impl-level witness. Strengthen generators/oracles when one is missed. Also confirm the check is green again on the clean tree afterwards.
 - FALSE ALARMS ARE FATAL: on the unchanged tree the check must never print VIOLATION. The oracle must demand exactly what the property text states. Make every random choice derive from ctx['seed']; run the quick check with VERIF_SEED=0,1,2,3 and make sure all are green.
 - If the faithful model or the real code VIOLATES the property on the unchanged tree (see DESIGN §5 for candidates), do not hide it and do not weaken the oracle: keep the witness in the oracle's corpus so it is found on every run, implement `classify_known` so that exactly that defect (characterised as narrowly as possible by the input/call site) maps to a finding id string, prove a `C11_…_refuted` Example with the witness in Props/C11.v where the model can express it, and REPORT it to me (witness, why it violates the property text, and a minimal patch to /repo that a maintainer would accept, as a unified diff in your final message — do not apply it). Until I record it in known_findings.json the check will show it as a VIOLATION; that is expected — tell me.
 - Disk/time: remove scratch files you create under /tmp when done. Keep going until the deliverables are complete and robust; depth of the theorems matters more than breadth of prose.

FINAL REPORT (your last message, concise): files created; list of theorems in Props/C11.v with one line each (full / partial / refuted); what ties the model to the code and the measured volumes/timings; mutations tried and which were caught (and how); findings on the unchanged tree with witnesses and proposed patches; anything in DESIGN.md's C11 section that turned out wrong or infeasible.
