#!/venv/bin/python
"""Regenerate the seeded-changes table of DESIGN.md (between the SEEDED-TABLE markers) from seeded/*/meta.json and notes.md,
and fill meta.json's 'breaks' / 'needs_to_manifest' from the notes."""
import glob, json, os, re
rows = []
for d in sorted(glob.glob('seeded/C*-*')):
    meta = json.load(open(os.path.join(d, 'meta.json')))
    notes = open(os.path.join(d, 'notes.md')).read() if os.path.exists(os.path.join(d, 'notes.md')) else ''
    title = ''
    for ln in notes.splitlines():
        if ln.strip():
            title = re.sub(r'^#+\s*', '', ln.strip())
            title = re.sub(r'^(C\d+\s*)?(mutant|change|Change|Mutant)\s*\d+\s*[-—–:]*\s*', '', title)
            break
    def bullet(key):
        m = re.search(r'(?im)^[-*]\s*\**%s[^:\n]*:\**\s*(.+?)(?=\n[-*]\s|\n\n|\Z)' % key, notes, re.S)
        return re.sub(r'\s+', ' ', m.group(1)).strip() if m else ''
    needs = bullet('Need') or bullet('What it takes') or bullet('To manifest')
    breaks = bullet('Clause broken') or bullet('Breaks') or bullet('Property clause')
    meta['change'] = title
    if needs:
        meta['needs_to_manifest'] = needs[:600]
    if breaks:
        meta['breaks'] = breaks[:600]
    json.dump(meta, open(os.path.join(d, 'meta.json'), 'w'), indent=1)
    cr = meta.get('check_run', {})
    by = re.search(r'check (C\d+)', cr.get('cmd', ''))
    rows.append((os.path.basename(d), title[:110], by.group(1) if by else meta['property'],
                 'witness' if cr.get('with_concrete_witness') else ('no-failing-input-found' if cr.get('caught') else 'MISSED')))
table = ['| Seeded change | What it does | Checked by | Result |', '|---|---|---|---|']
table += ['| `%s` | %s | %s | %s |' % r for r in rows]
n = len(rows); w = sum(1 for r in rows if r[3] == 'witness'); nf = sum(1 for r in rows if r[3].startswith('no-')); ms = n - w - nf
summary = '%d seeded changes stored; %d caught with a concrete replayable witness, %d caught as a broken obligation/correspondence only (`no-failing-input-found`), %d missed.' % (n, w, nf, ms)
text = open('DESIGN.md').read()
block = '<!-- SEEDED-TABLE-BEGIN -->\n' + summary + '\n\n' + '\n'.join(table) + '\n<!-- SEEDED-TABLE-END -->'
if '<!-- SEEDED-TABLE-BEGIN -->' in text:
    text = re.sub(r'<!-- SEEDED-TABLE-BEGIN -->.*?<!-- SEEDED-TABLE-END -->', lambda m: block, text, flags=re.S)
    open('DESIGN.md', 'w').write(text)
print(summary)
