#!/bin/bash
# run every released check (tools/ready.json) on the unchanged tree; usage: tools/run_all.sh [tier] [seed]
cd "$(dirname "$0")/.." || exit 2
tier=${1:-quick}; seed=${2:-0}
for id in $(python3 -c "import json;print(' '.join(json.load(open('tools/ready.json'))))"); do
  VERIF_SEED=$seed ./check $id --tier $tier 2>/dev/null | grep -E "^(VIOLATION|KNOWN|$id:)"
done
