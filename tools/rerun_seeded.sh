#!/bin/bash
# Re-run every stored seeded change against the current machinery (5 lanes; one property is never run twice at once).
# usage: tools/rerun_seeded.sh   (needs the scratch worktrees /tmp/mut/<ID>/wt at /repo's HEAD)
cd "$(dirname "$0")/.." || exit 2
lane() {
  for id in "$@"; do
    for d in seeded/$id-*; do
      [ -d "$d" ] || continue
      k=${d##*-}
      mkdir -p /tmp/mut/$id/out/$k
      cp $d/patch.diff $d/demo.py /tmp/mut/$id/out/$k/ 2>/dev/null
      [ -f $d/notes.md ] && cp $d/notes.md /tmp/mut/$id/out/$k/
      by=$(python3 -c "import json,re;m=json.load(open('$d/meta.json'));r=re.search(r'check (C\d+)',m.get('check_run',{}).get('cmd',''));print(r.group(1) if r else '$id')")
      echo "== $id $k (by $by): $(SEEDED_RERUN=1 /venv/bin/python tools/confirm_seeded.py $id $k $by 2>&1 | grep -E '^check:|NOT CONFIRMED' | cut -c1-60 | tr '\n' ' ')"
    done
  done
}
lane C01 C06 C11 C16 > /tmp/rerun_lane1.log 2>&1 &
lane C02 C07 C12 C17 > /tmp/rerun_lane2.log 2>&1 &
lane C03 C08 C13 C18 > /tmp/rerun_lane3.log 2>&1 &
lane C04 C09 C14 C19 > /tmp/rerun_lane4.log 2>&1 &
lane C05 C10 C15 C20 > /tmp/rerun_lane5.log 2>&1 &
wait
cat /tmp/rerun_lane?.log
