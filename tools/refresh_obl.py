#!/usr/bin/env python3
"""Refresh the Obl. column of the DESIGN.md section 7.2 table from evidence/<id>.json."""
import json, re
s = open('/verif/DESIGN.md').read().split('\n')
for i, line in enumerate(s):
    m = re.match(r'\| (C\d\d) \| `', line)
    if not m:
        continue
    cells = line.split(' | ')
    if len(cells) < 7:
        continue
    n = json.load(open('/verif/evidence/%s.json' % m.group(1)))['coverage']['obligations']
    if cells[3].strip().isdigit() and cells[3].strip() != str(n):
        print(m.group(1), cells[3], '->', n)
        cells[3] = str(n)
        s[i] = ' | '.join(cells)
open('/verif/DESIGN.md', 'w').write('\n'.join(s))
