"""resolve.py -- regenerate coq/Gen/Resolve.v (translator A for C13) from the three straight-line helpers that
dependency resolution relies on:

  mitxgraders/helpers/math_helpers.py  numbered_vars_regexp   -> the pieces of the regular expression (text)
  mitxgraders/sampling.py              is_subset              -> gen_is_subset   (a forallb)
  mitxgraders/sampling.py              construct_constants    -> gen_construct_constants (a fold over the user dict)

Fail-closed: anything outside the tiny subset below raises Unsupported (-> broken obligation).  Within the subset,
edits (another regex text, `in` instead of `not in`, a guard around the assignment, another separator) flow into the
generated definitions, so that it is the bridge Bridge/Resolve.v -- not the translator -- that stops checking.
"""
import ast
from harness import core


class Unsupported(Exception):
    pass


def _body(node):
    body = list(node.body)
    if body and isinstance(body[0], ast.Expr) and isinstance(getattr(body[0], 'value', None), ast.Constant) \
            and isinstance(body[0].value.value, str):
        body = body[1:]
    return body


def _params(node):
    a = node.args
    if a.vararg or a.kwarg or a.kwonlyargs or a.defaults or a.posonlyargs:
        raise Unsupported('%s: only plain positional parameters' % node.name)
    return [x.arg for x in a.args]


def coq_string(s):
    for ch in s:
        if not (32 <= ord(ch) < 127):
            raise Unsupported('non-printable character in string literal %r' % s)
    return '"' + s.replace('"', '""') + '"'


# ------------------------------------------------------------------------------------------------
# numbered_vars_regexp: straight-line string building.  Symbolic values: list of pieces
#   ('lit', text) | ('heads', separator, escaped?)
# ------------------------------------------------------------------------------------------------
def _str_expr(e, env, param):
    if isinstance(e, ast.Constant) and isinstance(e.value, str):
        return [('lit', e.value)]
    if isinstance(e, ast.Name):
        if e.id in env:
            return env[e.id]
        raise Unsupported('unknown name %s in regexp construction' % e.id)
    if isinstance(e, ast.BinOp) and isinstance(e.op, ast.Add):
        return _str_expr(e.left, env, param) + _str_expr(e.right, env, param)
    if (isinstance(e, ast.Call) and isinstance(e.func, ast.Attribute) and e.func.attr == 'join'
            and isinstance(e.func.value, ast.Constant) and isinstance(e.func.value.value, str)
            and len(e.args) == 1 and not e.keywords):
        sep = e.func.value.value
        arg = e.args[0]
        if isinstance(arg, ast.Name) and arg.id == param:
            return [('heads', sep, False)]
        if (isinstance(arg, ast.Call) and isinstance(arg.func, ast.Name) and arg.func.id == 'map' and len(arg.args) == 2
                and not arg.keywords and isinstance(arg.args[1], ast.Name) and arg.args[1].id == param):
            f = arg.args[0]
            if isinstance(f, ast.Attribute) and isinstance(f.value, ast.Name) and f.value.id == 're' and f.attr == 'escape':
                return [('heads', sep, True)]
        raise Unsupported('join over something other than the heads')
    raise Unsupported('string expression %s' % ast.dump(e)[:80])


def translate_regexp(node):
    params = _params(node)
    if len(params) != 1:
        raise Unsupported('numbered_vars_regexp: one parameter expected')
    env = {}
    body = _body(node)
    if not body or not isinstance(body[-1], ast.Return):
        raise Unsupported('numbered_vars_regexp: must end in return')
    for st in body[:-1]:
        if not (isinstance(st, ast.Assign) and len(st.targets) == 1 and isinstance(st.targets[0], ast.Name)):
            raise Unsupported('numbered_vars_regexp: only simple assignments')
        env[st.targets[0].id] = _str_expr(st.value, env, params[0])
    ret = body[-1].value
    if not (isinstance(ret, ast.Call) and isinstance(ret.func, ast.Attribute) and ret.func.attr == 'compile'
            and isinstance(ret.func.value, ast.Name) and ret.func.value.id == 're' and len(ret.args) == 1 and not ret.keywords):
        raise Unsupported('numbered_vars_regexp: must return re.compile(<string>) without flags')
    pieces = _str_expr(ret.args[0], env, params[0])
    # merge adjacent literals
    merged = []
    for p in pieces:
        if p[0] == 'lit' and merged and merged[-1][0] == 'lit':
            merged[-1] = ('lit', merged[-1][1] + p[1])
        else:
            merged.append(p)
    if [p[0] for p in merged] != ['lit', 'heads', 'lit']:
        raise Unsupported('numbered_vars_regexp: pattern is not <text> heads <text>: %r' % (merged,))
    return ['Definition gen_rx_prefix : string := %s.' % coq_string(merged[0][1]),
            'Definition gen_rx_separator : string := %s.' % coq_string(merged[1][1]),
            'Definition gen_rx_heads_escaped : bool := %s.' % ('true' if merged[1][2] else 'false'),
            'Definition gen_rx_suffix : string := %s.' % coq_string(merged[2][1])]


# ------------------------------------------------------------------------------------------------
# is_subset:  for x in A: if <x [not] in B>: return <bool>   ;  return <bool>
# ------------------------------------------------------------------------------------------------
def _membership(test, var, coll):
    if not (isinstance(test, ast.Compare) and len(test.ops) == 1 and isinstance(test.left, ast.Name) and test.left.id == var
            and isinstance(test.comparators[0], ast.Name) and test.comparators[0].id == coll):
        raise Unsupported('membership test expected')
    if isinstance(test.ops[0], ast.NotIn):
        return False, 'amem %s %s' % (coll, var)
    if isinstance(test.ops[0], ast.In):
        return True, 'amem %s %s' % (coll, var)
    raise Unsupported('membership operator')


def _cond(pos, atom, negate=False):
    return atom if pos != negate else 'negb (%s)' % atom


def translate_is_subset(node):
    params = _params(node)
    body = _body(node)
    if len(params) != 2 or len(body) != 2:
        raise Unsupported('is_subset: shape')
    loop, ret = body
    if not (isinstance(loop, ast.For) and isinstance(loop.target, ast.Name) and isinstance(loop.iter, ast.Name)
            and loop.iter.id == params[0] and not loop.orelse and len(loop.body) == 1 and isinstance(loop.body[0], ast.If)
            and not loop.body[0].orelse and len(loop.body[0].body) == 1 and isinstance(loop.body[0].body[0], ast.Return)
            and isinstance(loop.body[0].body[0].value, ast.Constant) and isinstance(loop.body[0].body[0].value.value, bool)
            and isinstance(ret, ast.Return) and isinstance(ret.value, ast.Constant) and isinstance(ret.value.value, bool)):
        raise Unsupported('is_subset: shape')
    var = loop.target.id
    pos, atom = _membership(loop.body[0].test, var, params[1])
    early, final = loop.body[0].body[0].value.value, ret.value.value
    if early == final:
        expr = 'true' if final else 'false'
    elif final:        # return False as soon as cond holds; True otherwise  ==  forall, not cond
        expr = 'forallb (fun %s => %s) %s' % (var, _cond(pos, atom, negate=True), params[0])
    else:              # return True as soon as cond holds; False otherwise  ==  exists cond
        expr = 'existsb (fun %s => %s) %s' % (var, _cond(pos, atom), params[0])
    return ['Definition gen_is_subset {A} (%s : list str) (%s : list (str * A)) : bool :=' % (params[0], params[1]),
            '  %s.' % expr]


# ------------------------------------------------------------------------------------------------
# construct_constants:  acc = D.copy(); for v in U: [if v [not] in acc:] acc[v] = U[v]; return acc
# ------------------------------------------------------------------------------------------------
def translate_construct_constants(node):
    params = _params(node)
    body = _body(node)
    if len(params) != 2 or len(body) != 3:
        raise Unsupported('construct_constants: shape')
    init, loop, ret = body
    d, u = params
    if not (isinstance(init, ast.Assign) and len(init.targets) == 1 and isinstance(init.targets[0], ast.Name)
            and isinstance(init.value, ast.Call) and isinstance(init.value.func, ast.Attribute) and init.value.func.attr == 'copy'
            and isinstance(init.value.func.value, ast.Name) and init.value.func.value.id == d and not init.value.args):
        raise Unsupported('construct_constants: first statement must copy the defaults')
    acc = init.targets[0].id
    if not (isinstance(loop, ast.For) and isinstance(loop.target, ast.Name) and isinstance(loop.iter, ast.Name)
            and loop.iter.id == u and not loop.orelse and len(loop.body) == 1):
        raise Unsupported('construct_constants: loop over the user constants expected')
    var = loop.target.id
    st = loop.body[0]
    guard = None
    if isinstance(st, ast.If) and not st.orelse and len(st.body) == 1:
        guard = _cond(*_membership(st.test, var, acc))
        st = st.body[0]
    if not (isinstance(st, ast.Assign) and len(st.targets) == 1 and isinstance(st.targets[0], ast.Subscript)
            and isinstance(st.targets[0].value, ast.Name) and st.targets[0].value.id == acc
            and isinstance(st.targets[0].slice, ast.Name) and st.targets[0].slice.id == var
            and isinstance(st.value, ast.Subscript) and isinstance(st.value.value, ast.Name) and st.value.value.id == u
            and isinstance(st.value.slice, ast.Name) and st.value.slice.id == var):
        raise Unsupported('construct_constants: loop body must be acc[v] = user[v]')
    if not (isinstance(ret, ast.Return) and isinstance(ret.value, ast.Name) and ret.value.id == acc):
        raise Unsupported('construct_constants: must return the merged dict')
    assign = 'match alookup %s %s with Some x => (%s, x) :: %s | None => %s end' % (u, var, var, acc, acc)
    step = assign if guard is None else 'if %s then %s else %s' % (guard, assign, acc)
    return ['Definition gen_construct_constants {A} (%s %s : list (str * A)) : list (str * A) :=' % (d, u),
            '  fold_left (fun %s %s => %s) (map fst %s) %s.' % (acc, var, step, u, d)]


def generate():
    mh = ast.parse(core.repo_source('mitxgraders/helpers/math_helpers.py'))
    sp = ast.parse(core.repo_source('mitxgraders/sampling.py'))
    out = ['(* GENERATED by translate/resolve.py from mitxgraders/helpers/math_helpers.py and mitxgraders/sampling.py -- do not edit *)',
           'From Coq Require Import ZArith List Bool String.',
           'From Verif.Model Require Import Result Resolve.',
           'Import ListNotations.', '']
    for tree, name, fn in ((mh, 'numbered_vars_regexp', translate_regexp), (sp, 'is_subset', translate_is_subset),
                           (sp, 'construct_constants', translate_construct_constants)):
        node = core.find_def(tree, name)
        if not isinstance(node, ast.FunctionDef):
            raise Unsupported('%s not found' % name)
        out += fn(node) + ['']
    return '\n'.join(out)
