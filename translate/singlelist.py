"""singlelist.py -- regenerate coq/Gen/SingleList.v from the working tree (translator A for C07).

Translated, on every run, from /repo/mitxgraders/listgrader.py:
    consolidate_grades, consolidate_single_return, get_padded_lists, padded_check,
    SingleListGrader.process_grade_list

A small typed, fail-closed translator from the straight-line subset of Python these five functions are written
in to Gallina over the vocabulary of Verif.Model.SingleList (Q, Z, str, lists, the result record sres).  Every
name carries a type; a construct, an operand type or a call outside the table raises Unsupported and the driver
reports C07's obligations as broken instead of guessing.  The subset is a little larger than what the source
uses today (all six comparisons, + - * /, and/or/not, conditional expressions), so that a semantic edit usually
still translates: then the bridge lemmas fail and the regenerated definitions are what the search evaluates.

Types:  Q | Z | B | S (str) | ('L', t) | ('O', t) (t or None) | ('P', t) (t or _AutomaticFailure)
        | ('D', {key: type}) result dictionaries, kept as one variable per key | ('OKOF', text) the value of
        grade_decimal_to_ok(text) | ('FN', ...) the check function handed to padded_check

Result dictionaries.  The model's record sres has grade_decimal, msg and all_awarded; 'ok' is always derived from
the grade.  The translator therefore insists that every 'ok' a dictionary receives is grade_decimal_to_ok of the
very value its 'grade_decimal' holds at that point (names are versioned, so textual equality is binding
equality), or the literal False next to the literal grade 0; anything else is Unsupported.  The key 'individual'
(kept for subclasses, never read by the modelled code) is ignored.
"""
import ast
from fractions import Fraction

from harness import core


class Unsupported(Exception):
    pass


Q, Z, B, S = 'Q', 'Z', 'B', 'S'


def L(t):
    return ('L', t)


def qtext(v):
    if isinstance(v, bool) or not isinstance(v, (int, float)):
        raise Unsupported('numeric constant %r' % (v,))
    fr = Fraction(repr(v)) if isinstance(v, float) else Fraction(v)
    n = '(%d)' % fr.numerator if fr.numerator < 0 else '%d' % fr.numerator
    return '(%s # %d)' % (n, fr.denominator)


def ztext(v):
    return '(%d)%%Z' % v if v < 0 else '%d%%Z' % v


def strtext(s):
    return '(' + '[' + '; '.join(ztext(ord(c)) for c in s) + ']' + ' : str)' if s else '(@nil Z)'


class Fn:
    """one function being translated"""
    def __init__(self, name):
        self.name = name
        self.env = {}          # python name -> (coq name, type)
        self.version = {}
        self.config = {}       # config keys read -> coq parameter

    # ---- names -----------------------------------------------------------------------------------
    def fresh(self, py, ty):
        k = self.version.get(py, 0)
        self.version[py] = k + 1
        coq = 'v_%s' % py if k == 0 else 'v_%s_%d' % (py, k)
        self.env[py] = (coq, ty)
        return coq

    def lookup(self, py):
        if py not in self.env:
            raise Unsupported('%s: unknown name %s' % (self.name, py))
        return self.env[py]

    # ---- expressions: returns (text, type) ---------------------------------------------------------
    def as_q(self, t):
        text, ty = t
        if ty == Q:
            return text
        if ty == Z:
            return '(inject_Z %s)' % text
        raise Unsupported('%s: a number is expected, got %r' % (self.name, ty))

    def const(self, v, want=None):
        if isinstance(v, bool):
            return ('true' if v else 'false'), B
        if isinstance(v, str):
            return strtext(v), S
        if isinstance(v, int) and want != Q:
            return ztext(v), Z
        if isinstance(v, (int, float)):
            return qtext(v), Q
        raise Unsupported('%s: constant %r' % (self.name, v))

    def expr(self, e, want=None):
        if isinstance(e, ast.Constant):
            return self.const(e.value, want)
        if isinstance(e, ast.Name):
            coq, ty = self.lookup(e.id)
            if isinstance(ty, tuple) and ty[0] == 'D':
                raise Unsupported('%s: dictionary %s used as a value' % (self.name, e.id))
            return coq, ty
        if isinstance(e, ast.UnaryOp) and isinstance(e.op, ast.USub):
            t, ty = self.expr(e.operand, want)
            if ty == Z:
                return '(- %s)%%Z' % t, Z
            if ty == Q:
                return '(- %s)' % t, Q
            raise Unsupported('%s: negation of %r' % (self.name, ty))
        if isinstance(e, ast.UnaryOp) and isinstance(e.op, ast.Not):
            return '(negb %s)' % self.cond(e.operand), B
        if isinstance(e, ast.BoolOp) or isinstance(e, ast.Compare):
            return self.cond(e), B
        if isinstance(e, ast.BinOp):
            return self.binop(e, want)
        if isinstance(e, ast.IfExp):
            a, ta = self.expr(e.body, want)
            b, tb = self.expr(e.orelse, want)
            if ta != tb:
                raise Unsupported('%s: branches of a conditional expression differ in type' % self.name)
            return '(if %s then %s else %s)' % (self.cond(e.test), a, b), ta
        if isinstance(e, ast.Subscript):
            return self.subscript(e)
        if isinstance(e, ast.List):
            if len(e.elts) != 1:
                raise Unsupported('%s: list display' % self.name)
            return self.singleton(e.elts[0], want)
        if isinstance(e, ast.ListComp):
            return self.listcomp(e)
        if isinstance(e, ast.Call):
            return self.call(e, want)
        raise Unsupported('%s: expression %s' % (self.name, type(e).__name__))

    def singleton(self, elt, want):
        if isinstance(elt, ast.Call) and isinstance(elt.func, ast.Name) and elt.func.id == '_AutomaticFailure' and not elt.args:
            return '[None]', ('L', ('P', None))
        t, ty = self.expr(elt, Q)
        return '[%s]' % t, L(ty)

    def binop(self, e, want):
        op = e.op
        # [x] * n  -> repeat
        if isinstance(op, ast.Mult) and isinstance(e.left, ast.List):
            lt, lty = self.expr(e.left, want)
            n, nty = self.expr(e.right)
            if nty != Z:
                raise Unsupported('%s: list repetition count of type %r' % (self.name, nty))
            return '(repeat %s (Z.to_nat %s))' % (lt[1:-1], n), lty
        a, ta = self.expr(e.left, want)
        b, tb = self.expr(e.right, want)
        if isinstance(op, ast.Add) and isinstance(ta, tuple) and ta[0] == 'L':
            return self.concat(a, ta, b, tb)
        if isinstance(op, ast.Add) and ta == S and tb == S:
            return '(%s ++ %s)' % (a, b), S
        if ta == Z and tb == Z and not isinstance(op, ast.Div):
            sym = {ast.Add: '+', ast.Sub: '-', ast.Mult: '*'}.get(type(op))
            if sym is None:
                raise Unsupported('%s: integer operator %s' % (self.name, type(op).__name__))
            return '(%s %s %s)%%Z' % (a, sym, b), Z
        sym = {ast.Add: '+', ast.Sub: '-', ast.Mult: '*', ast.Div: '/'}.get(type(op))
        if sym is None:
            raise Unsupported('%s: operator %s' % (self.name, type(op).__name__))
        return '(%s %s %s)' % (self.as_q((a, ta)), sym, self.as_q((b, tb))), Q

    def concat(self, a, ta, b, tb):
        """list + list; a plain list meeting a padding list is lifted with Some"""
        if not (isinstance(tb, tuple) and tb[0] == 'L'):
            raise Unsupported('%s: list + %r' % (self.name, tb))
        ea, eb = ta[1], tb[1]
        if eb == ('P', None):
            return '(map Some %s ++ %s)' % (a, b), L(('P', ea))
        if ea != eb:
            raise Unsupported('%s: concatenation of lists of %r and %r' % (self.name, ea, eb))
        return '(%s ++ %s)' % (a, b), ta

    def subscript(self, e):
        # self.config['key']
        v = e.value
        if (isinstance(v, ast.Attribute) and v.attr == 'config' and isinstance(v.value, ast.Name) and v.value.id == 'self'
                and isinstance(e.slice, ast.Constant) and isinstance(e.slice.value, str)):
            k = e.slice.value
            if k not in CONFIG_TYPES:
                raise Unsupported('%s: config key %r' % (self.name, k))
            self.config[k] = 'cfg_' + k
            return 'cfg_' + k, CONFIG_TYPES[k]
        if isinstance(v, ast.Name) and isinstance(e.slice, ast.Constant) and isinstance(e.slice.value, str):
            coq, ty = self.lookup(v.id)
            k = e.slice.value
            if ty == 'R':                       # a result handed in by a subgrader
                if k not in SRES_FIELDS:
                    raise Unsupported('%s: result key %r' % (self.name, k))
                return '(%s %s)' % (SRES_FIELDS[k][0], coq), SRES_FIELDS[k][1]
            if isinstance(ty, tuple) and ty[0] == 'D':
                if k not in ty[1]:
                    raise Unsupported('%s: dictionary %s has no key %r here' % (self.name, v.id, k))
                return ty[1][k]
        raise Unsupported('%s: subscript %s' % (self.name, ast.dump(e)[:80]))

    def listcomp(self, e):
        if len(e.generators) != 1 or e.generators[0].is_async or not isinstance(e.generators[0].target, ast.Name):
            raise Unsupported('%s: comprehension shape' % self.name)
        gen = e.generators[0]
        src, sty = self.expr(gen.iter)
        if not (isinstance(sty, tuple) and sty[0] == 'L'):
            raise Unsupported('%s: comprehension over %r' % (self.name, sty))
        saved = dict(self.env), dict(self.version)
        x = self.fresh(gen.target.id, sty[1])
        out = src
        for c in gen.ifs:
            out = '(filter (fun %s => %s) %s)' % (x, self.cond(c), out)
        body, bty = self.expr(e.elt)
        self.env, self.version = saved
        if body != x:
            out = '(map (fun %s => %s) %s)' % (x, body, out)
        return out, L(bty)

    def call(self, e, want):
        f = e.func
        if e.keywords and not (isinstance(f, ast.Name) and f.id in FUNCTIONS):
            raise Unsupported('%s: keyword arguments' % self.name)
        if isinstance(f, ast.Name):
            n = f.id
            if n == 'len' and len(e.args) == 1:
                t, ty = self.expr(e.args[0])
                if not (isinstance(ty, tuple) and ty[0] == 'L'):
                    raise Unsupported('%s: len of %r' % (self.name, ty))
                return '(Z.of_nat (length %s))' % t, Z
            if n == 'abs' and len(e.args) == 1:
                t, ty = self.expr(e.args[0])
                if ty == Z:
                    return '(Z.abs %s)' % t, Z
                return '(Qabs %s)' % self.as_q((t, ty)), Q
            if n == 'sum' and len(e.args) == 1:
                t, ty = self.expr(e.args[0])
                if ty != L(Q):
                    raise Unsupported('%s: sum of %r' % (self.name, ty))
                return '(qsum %s)' % t, Q
            if n in ('max', 'min') and len(e.args) == 2:
                a, b = self.expr(e.args[0], Q), self.expr(e.args[1], Q)
                if a[1] == Z and b[1] == Z:
                    return '(Z.%s %s %s)' % (n, a[0], b[0]), Z
                return '(Q%s %s %s)' % (n, self.as_q(a), self.as_q(b)), Q
            if n == 'all' and len(e.args) == 1 and isinstance(e.args[0], ast.GeneratorExp):
                g = e.args[0]
                if len(g.generators) != 1 or g.generators[0].ifs or not isinstance(g.generators[0].target, ast.Name):
                    raise Unsupported('%s: all(...) shape' % self.name)
                src, sty = self.expr(g.generators[0].iter)
                if not (isinstance(sty, tuple) and sty[0] == 'L'):
                    raise Unsupported('%s: all over %r' % (self.name, sty))
                saved = dict(self.env), dict(self.version)
                x = self.fresh(g.generators[0].target.id, sty[1])
                body = self.cond(g.elt)
                self.env, self.version = saved
                return '(forallb (fun %s => %s) %s)' % (x, body, src), B
            if n == 'isinstance' and len(e.args) == 2:
                return self.isinstance_(e)
            if n in FUNCTIONS:
                return self.call_translated(n, e)
            if n in self.env and isinstance(self.env[n][1], tuple) and self.env[n][1][0] == 'FN':
                raise Unsupported('%s: call of %s outside the padded_check pattern' % (self.name, n))
        if isinstance(f, ast.Attribute) and f.attr == 'join' and isinstance(f.value, ast.Constant) and len(e.args) == 1:
            sep, _ = self.const(f.value.value)
            t, ty = self.expr(e.args[0])
            if ty != L(S):
                raise Unsupported('%s: join of %r' % (self.name, ty))
            return '(join %s %s)' % (sep, t), S
        if isinstance(f, ast.Attribute) and f.attr == 'grade_decimal_to_ok' and len(e.args) == 1:
            t, ty = self.expr(e.args[0], Q)
            return None, ('OKOF', self.as_q((t, ty)))
        raise Unsupported('%s: call %s' % (self.name, ast.dump(f)[:80]))

    def isinstance_(self, e):
        obj, cls = e.args
        if isinstance(cls, ast.Name) and cls.id == 'SingleListGrader':
            t, ty = self.expr(obj)
            if ty != 'SUBGRADER':
                raise Unsupported('%s: isinstance(%r, SingleListGrader)' % (self.name, ty))
            return 'cfg_nested', B
        if isinstance(cls, ast.Name) and cls.id == '_AutomaticFailure':
            t, ty = self.expr(obj)
            if not (isinstance(ty, tuple) and ty[0] == 'P'):
                raise Unsupported('%s: isinstance(_, _AutomaticFailure) on %r' % (self.name, ty))
            return '(match %s with None => true | Some _ => false end)' % t, B
        raise Unsupported('%s: isinstance against %s' % (self.name, ast.dump(cls)[:40]))

    def call_translated(self, n, e):
        sig = FUNCTIONS[n]
        args = list(e.args)
        kw = {k.arg: k.value for k in e.keywords}
        texts = []
        for i, (pname, pty) in enumerate(sig['params']):
            node = args[i] if i < len(args) else kw.pop(pname, None)
            if node is None:
                raise Unsupported('%s: call of %s without %s' % (self.name, n, pname))
            t, ty = self.expr(node, Q if pty == Q else None)
            if isinstance(pty, tuple) and pty[0] == 'O' and ty == pty[1]:
                t = '(Some %s)' % t
            elif pty == Q and ty == Z:
                t = self.as_q((t, ty))
            elif ty != pty:
                raise Unsupported('%s: argument %s of %s has type %r, expected %r' % (self.name, pname, n, ty, pty))
            texts.append(t)
        if kw or len(args) > len(sig['params']):
            raise Unsupported('%s: arguments of %s' % (self.name, n))
        return '(%s %s)' % (sig['coq'], ' '.join(texts)), sig['returns']

    # ---- conditions --------------------------------------------------------------------------------
    def cond(self, e):
        if isinstance(e, ast.Compare) and len(e.ops) == 1:
            op = e.ops[0]
            a, ta = self.expr(e.left)
            b, tb = self.expr(e.comparators[0], Q if ta == Q else None)
            if ta == S and tb == S and isinstance(op, (ast.Eq, ast.NotEq)):
                if b == '(@nil Z)':
                    t = '(is_empty %s)' % a
                elif a == '(@nil Z)':
                    t = '(is_empty %s)' % b
                else:
                    t = '(str_eqb %s %s)' % (a, b)
                return t if isinstance(op, ast.Eq) else '(negb %s)' % t
            if ta == Z and tb == Z:
                table = {ast.Eq: '(%s =? %s)%%Z', ast.NotEq: '(negb (%s =? %s)%%Z)', ast.Lt: '(%s <? %s)%%Z', ast.LtE: '(%s <=? %s)%%Z'}
                if type(op) in table:
                    return table[type(op)] % (a, b)
                if isinstance(op, ast.Gt):
                    return '(%s <? %s)%%Z' % (b, a)
                if isinstance(op, ast.GtE):
                    return '(%s <=? %s)%%Z' % (b, a)
                raise Unsupported('%s: comparison %s' % (self.name, type(op).__name__))
            qa, qb = self.as_q((a, ta)), self.as_q((b, tb))
            table = {ast.Eq: '(Qeq_bool %s %s)', ast.NotEq: '(negb (Qeq_bool %s %s))', ast.Lt: '(Qltb %s %s)', ast.LtE: '(Qle_bool %s %s)'}
            if type(op) in table:
                return table[type(op)] % (qa, qb)
            if isinstance(op, ast.Gt):
                return '(Qltb %s %s)' % (qb, qa)
            if isinstance(op, ast.GtE):
                return '(Qle_bool %s %s)' % (qb, qa)
            raise Unsupported('%s: comparison %s' % (self.name, type(op).__name__))
        if isinstance(e, ast.BoolOp):
            parts = [self.cond(v) for v in e.values]
            return '(' + (' && ' if isinstance(e.op, ast.And) else ' || ').join(parts) + ')'
        if isinstance(e, ast.UnaryOp) and isinstance(e.op, ast.Not):
            return '(negb %s)' % self.cond(e.operand)
        t, ty = self.expr(e)
        if ty != B:
            raise Unsupported('%s: truth value of %r' % (self.name, ty))
        return t

    # ---- dictionaries ------------------------------------------------------------------------------
    def check_ok(self, d, value_ty):
        """the 'ok' a dictionary receives must be derived from the grade it holds"""
        if not (isinstance(value_ty, tuple) and value_ty[0] == 'OKOF'):
            raise Unsupported('%s: an ok value that is not grade_decimal_to_ok(...)' % self.name)
        g = d.get('grade_decimal')
        if g is None or self.as_q(g) != value_ty[1]:
            raise Unsupported('%s: ok computed from %s, but the dictionary holds grade %s'
                              % (self.name, value_ty[1], g and g[0]))

    def dict_literal(self, e):
        d = {}
        raw = {}
        for k, v in zip(e.keys, e.values):
            if not (isinstance(k, ast.Constant) and isinstance(k.value, str)):
                raise Unsupported('%s: dictionary key' % self.name)
            raw[k.value] = v
        for k in raw:
            if k not in DICT_KEYS:
                raise Unsupported('%s: dictionary key %r' % (self.name, k))
        for k in ('grade_decimal', 'msg', 'all_awarded'):
            if k in raw:
                t, ty = self.expr(raw[k], Q if k == 'grade_decimal' else None)
                if k == 'grade_decimal':
                    t, ty = self.as_q((t, ty)), Q
                if ty != DICT_KEYS[k]:
                    raise Unsupported('%s: key %r of type %r' % (self.name, k, ty))
                d[k] = (t, ty)
        if 'ok' in raw:
            okn = raw['ok']
            if isinstance(okn, ast.Constant) and okn.value is False:
                if d.get('grade_decimal', (None,))[0] != qtext(0):
                    raise Unsupported('%s: ok False next to a grade that is not the literal 0' % self.name)
            else:
                _, oty = self.expr(okn)
                self.check_ok(d, oty)
        return d

    # ---- statements (continuation style) -------------------------------------------------------------
    def assigned(self, stmts):
        """python names (or dict-key pseudo names) assigned anywhere in stmts"""
        out = []
        for s in stmts:
            if isinstance(s, ast.Assign) and len(s.targets) == 1:
                out.append(self.target_name(s.targets[0]))
            elif isinstance(s, ast.AugAssign):
                out.append(self.target_name(s.target))
            elif isinstance(s, ast.If):
                out += self.assigned(s.body) + self.assigned(s.orelse)
            elif isinstance(s, (ast.Pass, ast.Expr)):
                pass
            else:
                raise Unsupported('%s: statement %s inside a branch' % (self.name, type(s).__name__))
        seen = []
        for n in out:
            if n not in seen:
                seen.append(n)
        return seen

    def target_name(self, t):
        if isinstance(t, ast.Name):
            return ('var', t.id)
        if (isinstance(t, ast.Subscript) and isinstance(t.value, ast.Name) and isinstance(t.slice, ast.Constant)
                and isinstance(t.slice.value, str)):
            return ('key', t.value.id, t.slice.value)
        raise Unsupported('%s: assignment target' % self.name)

    def read_target(self, tn):
        if tn[0] == 'var':
            return self.lookup(tn[1])
        coq, ty = self.lookup(tn[1])
        if tn[2] not in ty[1]:
            raise Unsupported('%s: key %r first assigned inside a branch' % (self.name, tn[2]))
        return ty[1][tn[2]]

    def bind(self, tn, text, ty):
        """returns the let-line binding tn to text"""
        if tn[0] == 'var':
            if isinstance(ty, tuple) and ty[0] == 'OKOF':
                self.env[tn[1]] = (None, ty)
                return ''
            coq = self.fresh(tn[1], ty)
            return 'let %s := %s in\n' % (coq, text)
        dname, key = tn[1], tn[2]
        dcoq, dty = self.lookup(dname)
        if not (isinstance(dty, tuple) and dty[0] == 'D'):
            raise Unsupported('%s: %s is not a dictionary' % (self.name, dname))
        fields = dict(dty[1])
        if key == 'individual':
            return ''
        if key == 'ok':
            self.check_ok(fields, ty)
            return ''
        if key not in DICT_KEYS or DICT_KEYS[key] != ty:
            raise Unsupported('%s: key %r of type %r' % (self.name, key, ty))
        coq = self.fresh('%s_%s' % (dname, key), ty)
        fields[key] = (coq, ty)
        self.env[dname] = (dcoq, ('D', fields))
        return 'let %s := %s in\n' % (coq, text)

    def stmt_value(self, s):
        """(target, text, type) of an assignment statement"""
        if isinstance(s, ast.Assign):
            tn = self.target_name(s.targets[0])
            want = Q if (tn[0] == 'key' and tn[2] == 'grade_decimal') else None
            if tn[0] == 'var' and tn[1] in self.env and self.env[tn[1]][1] == Q:
                want = Q                    # a name that holds a float keeps holding one (x = 0 means 0.0 here)
            if isinstance(s.value, ast.Dict):
                raise Unsupported('%s: dictionary assigned inside a branch' % self.name)
            t, ty = self.expr(s.value, want)
            if want == Q:
                t, ty = self.as_q((t, ty)), Q
            return tn, t, ty
        tn = self.target_name(s.target)
        cur, cty = self.read_target(tn)
        v, vty = self.expr(s.value, Q if cty == Q else None)
        if isinstance(s.op, ast.Add) and isinstance(cty, tuple) and cty[0] == 'L':
            t, ty = self.concat(cur, cty, v, vty)
            return tn, t, ty
        if cty == Q and isinstance(s.op, (ast.Add, ast.Sub, ast.Mult, ast.Div)):
            sym = {ast.Add: '+', ast.Sub: '-', ast.Mult: '*', ast.Div: '/'}[type(s.op)]
            return tn, '(%s %s %s)' % (cur, sym, self.as_q((v, vty))), Q
        raise Unsupported('%s: augmented assignment on %r' % (self.name, cty))

    def branch(self, stmts, outs, indent):
        """a branch body as an expression yielding the tuple of `outs` (targets) after the body"""
        saved = dict(self.env), dict(self.version)
        text = self.block(stmts, indent, yield_targets=outs)
        self.env, self.version = saved
        return text

    def yield_tuple(self, outs):
        vals = [self.read_target(tn)[0] for tn in outs]
        return vals[0] if len(vals) == 1 else '(' + ', '.join(vals) + ')'

    def block(self, stmts, indent='  ', yield_targets=None):
        if not stmts:
            if yield_targets is None:
                raise Unsupported('%s: control reaches the end of the function without return' % self.name)
            return indent + self.yield_tuple(yield_targets)
        s, rest = stmts[0], stmts[1:]
        if isinstance(s, ast.Pass) or (isinstance(s, ast.Expr) and isinstance(s.value, ast.Constant)):
            return self.block(rest, indent, yield_targets)
        if isinstance(s, ast.Return):
            if yield_targets is not None or rest:
                raise Unsupported('%s: return inside a branch / before the end' % self.name)
            return indent + self.ret(s.value)
        if isinstance(s, ast.Assign) and len(s.targets) == 1 and isinstance(s.value, ast.Dict) and isinstance(s.targets[0], ast.Name):
            d = self.dict_literal(s.value)
            self.env[s.targets[0].id] = (None, ('D', d))
            return self.block(rest, indent, yield_targets)
        if (isinstance(s, ast.Assign) and len(s.targets) == 1 and isinstance(s.targets[0], ast.Name)
                and isinstance(s.value, ast.Call) and isinstance(s.value.func, ast.Name)
                and s.value.func.id in FUNCTIONS and FUNCTIONS[s.value.func.id]['returns'] == 'DICT'):
            # result = consolidate_single_return(...): a (grade, msg) pair becomes a dictionary variable
            call, _ = self.call_translated(s.value.func.id, s.value)
            name = s.targets[0].id
            g = self.fresh(name + '_grade_decimal', Q)
            m = self.fresh(name + '_msg', S)
            self.env[name] = (None, ('D', {'grade_decimal': (g, Q), 'msg': (m, S)}))
            return '%slet \'(%s, %s) := %s in\n%s' % (indent, g, m, call, self.block(rest, indent, yield_targets))
        if isinstance(s, ast.Assign) and len(s.targets) == 1 and isinstance(s.targets[0], ast.Tuple):
            raise Unsupported('%s: tuple assignment' % self.name)
        if isinstance(s, (ast.Assign, ast.AugAssign)):
            tn, t, ty = self.stmt_value(s)
            line = self.bind(tn, t, ty)
            return (indent + line if line else '') + self.block(rest, indent, yield_targets)
        if isinstance(s, ast.If):
            # `if x is None: x = e`
            if (isinstance(s.test, ast.Compare) and len(s.test.ops) == 1 and isinstance(s.test.ops[0], ast.Is)
                    and isinstance(s.test.left, ast.Name) and isinstance(s.test.comparators[0], ast.Constant)
                    and s.test.comparators[0].value is None and not s.orelse and len(s.body) == 1
                    and isinstance(s.body[0], ast.Assign) and isinstance(s.body[0].targets[0], ast.Name)
                    and s.body[0].targets[0].id == s.test.left.id):
                coq, ty = self.lookup(s.test.left.id)
                if not (isinstance(ty, tuple) and ty[0] == 'O'):
                    raise Unsupported('%s: `is None` on %r' % (self.name, ty))
                d, dty = self.expr(s.body[0].value)
                if dty != ty[1]:
                    raise Unsupported('%s: default of type %r for %r' % (self.name, dty, ty))
                new = self.fresh(s.test.left.id, ty[1])
                return ('%slet %s := match %s with None => %s | Some x => x end in\n%s'
                        % (indent, new, coq, d, self.block(rest, indent, yield_targets)))
            outs = self.assigned(s.body + s.orelse)
            if not outs:
                return self.block(rest, indent, yield_targets)
            c = self.cond(s.test)
            a = self.branch(s.body, outs, indent + '    ')
            b = self.branch(s.orelse, outs, indent + '    ')
            # types after the branch: those of the first branch (checked equal by Coq's typing of the if)
            saved = dict(self.env), dict(self.version)
            self.block(s.body, indent, yield_targets=outs)
            tys = [self.read_target(tn)[1] for tn in outs]
            self.env, self.version = saved
            names = []
            for tn, ty in zip(outs, tys):
                if tn[0] == 'var':
                    names.append(self.fresh(tn[1], ty))
                else:
                    dcoq, dty = self.lookup(tn[1])
                    fields = dict(dty[1])
                    coq = self.fresh('%s_%s' % (tn[1], tn[2]), ty)
                    fields[tn[2]] = (coq, ty)
                    self.env[tn[1]] = (dcoq, ('D', fields))
                    names.append(coq)
            pat = names[0] if len(names) == 1 else "'(" + ', '.join(names) + ')'
            return ('%slet %s :=\n%s  if %s then\n%s\n%s  else\n%s in\n%s'
                    % (indent, pat, indent, c, a, indent, b, self.block(rest, indent, yield_targets)))
        raise Unsupported('%s: statement %s' % (self.name, type(s).__name__))

    def ret(self, v):
        raise NotImplementedError


CONFIG_TYPES = {'partial_credit': B, 'subgrader': 'SUBGRADER'}
SRES_FIELDS = {'grade_decimal': ('sr_grade', Q), 'msg': ('sr_msg', S), 'all_awarded': ('sr_all', B)}
DICT_KEYS = {'grade_decimal': Q, 'msg': S, 'all_awarded': B, 'ok': None, 'individual': None}

FUNCTIONS = {
    'consolidate_grades': {'coq': 'gen_consolidate_grades', 'params': [('grade_decimals', L(Q)), ('n_expect', ('O', Z))], 'returns': Q},
    'consolidate_single_return': {'coq': 'gen_consolidate_single_return',
                                  'params': [('input_list', L('R')), ('n_expect', ('O', Z)), ('partial_credit', B)], 'returns': 'DICT'},
}


def check_signature(fn, names, defaults):
    a = fn.args
    if a.vararg or a.kwarg or a.kwonlyargs or fn.decorator_list:
        raise Unsupported('signature of %s' % fn.name)
    got = [x.arg for x in a.args]
    if got != names:
        raise Unsupported('%s has parameters %r, expected %r' % (fn.name, got, names))
    dv = [ast.literal_eval(d) for d in a.defaults]
    if dv != defaults:
        raise Unsupported('%s has defaults %r, expected %r' % (fn.name, dv, defaults))


def tr_consolidate_grades(fn):
    check_signature(fn, ['grade_decimals', 'n_expect'], [None])
    f = Fn('consolidate_grades')
    f.fresh('grade_decimals', L(Q))
    f.fresh('n_expect', ('O', Z))

    def ret(v):
        t, ty = f.expr(v, Q)
        return f.as_q((t, ty))
    f.ret = ret
    body = f.block(fn.body)
    return 'Definition gen_consolidate_grades (v_grade_decimals : list Q) (v_n_expect : option Z) : Q :=\n%s.\n' % body


def tr_consolidate_single_return(fn):
    check_signature(fn, ['input_list', 'n_expect', 'partial_credit'], [None, True])
    f = Fn('consolidate_single_return')
    f.fresh('input_list', L('R'))
    f.fresh('n_expect', ('O', Z))
    f.fresh('partial_credit', B)

    def ret(v):
        if not isinstance(v, ast.Name):
            raise Unsupported('consolidate_single_return: returns something other than its result dictionary')
        _, ty = f.lookup(v.id)
        if not (isinstance(ty, tuple) and ty[0] == 'D') or set(ty[1]) != {'grade_decimal', 'msg'}:
            raise Unsupported('consolidate_single_return: result keys %r' % (sorted(ty[1]) if isinstance(ty, tuple) else ty,))
        return '(%s, %s)' % (ty[1]['grade_decimal'][0], ty[1]['msg'][0])
    f.ret = ret
    # the dictionary literal must carry an ok: checked by dict_literal; require its presence
    body = f.block(fn.body)
    if not any(isinstance(n, ast.Dict) and any(isinstance(k, ast.Constant) and k.value == 'ok' for k in n.keys) for n in ast.walk(fn)):
        raise Unsupported('consolidate_single_return: no ok key in the result')
    return ('Definition gen_consolidate_single_return (v_input_list : list sres) (v_n_expect : option Z) (v_partial_credit : bool)\n'
            '  : Q * str :=\n%s.\n' % body)


def tr_get_padded_lists(fn):
    check_signature(fn, ['list1', 'list2'], [])
    f = Fn('get_padded_lists')
    f.fresh('list1', L('T1'))
    f.fresh('list2', L('T2'))

    def ret(v):
        if not (isinstance(v, ast.Tuple) and len(v.elts) == 2):
            raise Unsupported('get_padded_lists: return shape')
        a, ta = f.expr(v.elts[0])
        b, tb = f.expr(v.elts[1])
        if ta != L(('P', 'T1')) or tb != L(('P', 'T2')):
            raise Unsupported('get_padded_lists: returns %r, %r' % (ta, tb))
        return '(%s, %s)' % (a, b)
    f.ret = ret
    body = f.block(fn.body)
    return ('Definition gen_get_padded_lists {T1 T2 : Type} (v_list1 : list T1) (v_list2 : list T2)\n'
            '  : list (option T1) * list (option T2) :=\n%s.\n' % body)


def tr_padded_check(fn):
    """def padded_check(check): def _check(ans, inp): if isinstance(ans, AF) or isinstance(inp, AF): return {...}; return check(ans, inp)"""
    check_signature(fn, ['check'], [])
    body = [s for s in fn.body if not (isinstance(s, ast.Expr) and isinstance(s.value, ast.Constant))]
    if len(body) != 2 or not isinstance(body[0], ast.FunctionDef) or not isinstance(body[1], ast.Return):
        raise Unsupported('padded_check: shape')
    inner = body[0]
    if not (isinstance(body[1].value, ast.Name) and body[1].value.id == inner.name):
        raise Unsupported('padded_check: does not return its inner function')
    check_signature(inner, ['ans', 'inp'], [])
    stmts = [s for s in inner.body if not (isinstance(s, ast.Expr) and isinstance(s.value, ast.Constant))]
    if len(stmts) != 2 or not isinstance(stmts[0], ast.If) or stmts[0].orelse or not isinstance(stmts[1], ast.Return):
        raise Unsupported('padded_check: inner shape')
    f = Fn('padded_check')
    f.fresh('ans', ('P', 'A'))
    f.fresh('inp', ('P', 'I'))
    test = f.cond(stmts[0].test)
    want = '((match v_ans with None => true | Some _ => false end) || (match v_inp with None => true | Some _ => false end))'
    if test != want:
        raise Unsupported('padded_check: guard %s' % test)
    if len(stmts[0].body) != 1 or not isinstance(stmts[0].body[0], ast.Return) or not isinstance(stmts[0].body[0].value, ast.Dict):
        raise Unsupported('padded_check: failure branch')
    d = f.dict_literal(stmts[0].body[0].value)
    if set(d) != {'grade_decimal', 'msg', 'all_awarded'} or 'ok' not in [k.value for k in stmts[0].body[0].value.keys]:
        raise Unsupported('padded_check: keys of the automatic failure')
    call = stmts[1].value
    if not (isinstance(call, ast.Call) and isinstance(call.func, ast.Name) and call.func.id == 'check' and not call.keywords
            and [getattr(a, 'id', None) for a in call.args] == ['ans', 'inp']):
        raise Unsupported('padded_check: final call')
    return ('Definition gen_padded_check {A I : Type} (v_check : A -> I -> res sres) (v_ans : option A) (v_inp : option I) : res sres :=\n'
            '  match v_ans, v_inp with\n  | Some a, Some i => v_check a i\n  | _, _ => inl (mkSres %s %s %s)\n  end.\n'
            % (d['grade_decimal'][0], d['msg'][0], d['all_awarded'][0]))


def tr_process_grade_list(fn):
    check_signature(fn, ['self', 'grade_list', 'num_answers', 'msg', 'grade_decimal'], [])
    f = Fn('process_grade_list')
    f.env['self'] = (None, 'SELF')
    f.fresh('grade_list', L('R'))
    f.fresh('num_answers', Z)
    f.fresh('msg', S)
    f.fresh('grade_decimal', Q)

    def ret(v):
        if not isinstance(v, ast.Name):
            raise Unsupported('process_grade_list: returns something other than its result dictionary')
        _, ty = f.lookup(v.id)
        if not (isinstance(ty, tuple) and ty[0] == 'D') or set(ty[1]) != {'grade_decimal', 'msg', 'all_awarded'}:
            raise Unsupported('process_grade_list: result keys')
        return '(mkSres %s %s %s)' % (ty[1]['grade_decimal'][0], ty[1]['msg'][0], ty[1]['all_awarded'][0])
    f.ret = ret
    body = f.block(fn.body)
    # the last write to the result's grade must be followed by a matching ok (check_ok enforces equality when an ok is written)
    oks = [s for s in ast.walk(fn) if isinstance(s, ast.Assign) and isinstance(s.targets[0], ast.Subscript)
           and isinstance(s.targets[0].slice, ast.Constant) and s.targets[0].slice.value == 'ok']
    grades = [s for s in ast.walk(fn) if isinstance(s, (ast.Assign, ast.AugAssign))
              and isinstance(getattr(s, 'targets', [getattr(s, 'target', None)])[0], ast.Subscript)
              and isinstance(getattr(s, 'targets', [getattr(s, 'target', None)])[0].slice, ast.Constant)
              and getattr(s, 'targets', [getattr(s, 'target', None)])[0].slice.value == 'grade_decimal']
    if grades and (not oks or max(s.lineno for s in oks) < max(s.lineno for s in grades)):
        raise Unsupported('process_grade_list: the grade is changed after the last ok was computed')
    if sorted(f.config) != ['partial_credit', 'subgrader']:
        raise Unsupported('process_grade_list reads config keys %r' % (sorted(f.config),))
    return ('Definition gen_process_grade_list (cfg_partial_credit cfg_nested : bool) (v_grade_list : list sres) (v_num_answers : Z)\n'
            '  (v_msg : str) (v_grade_decimal : Q) : sres :=\n%s.\n' % body)


# self.config['subgrader'] has type SUBGRADER; the expression evaluator returns it from subscript()
def generate():
    tree = ast.parse(core.repo_source('mitxgraders/listgrader.py'))
    out = ['(* GENERATED by translate/singlelist.py from mitxgraders/listgrader.py -- do not edit *)',
           'From Coq Require Import ZArith QArith Qabs List Bool.',
           'From Verif.Lib Require Import QRound.',
           'From Verif.Model Require Import Result SingleList.',
           'Import ListNotations.', 'Open Scope Q_scope.', '']
    for qual, tr in (('consolidate_grades', tr_consolidate_grades),
                     ('consolidate_single_return', tr_consolidate_single_return),
                     ('get_padded_lists', tr_get_padded_lists),
                     ('padded_check', tr_padded_check),
                     ('SingleListGrader.process_grade_list', tr_process_grade_list)):
        node = core.find_def(tree, qual)
        if node is None or not isinstance(node, ast.FunctionDef):
            raise Unsupported('%s not found in listgrader.py' % qual)
        out.append(tr(node))
    return '\n'.join(out)
