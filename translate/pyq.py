"""
pyq.py -- fail-closed translator from a small, straight-line subset of Python (numeric functions made of
if/elif/else, assignments to local names, returns, arithmetic, comparisons) to Gallina over Q.

Everything numeric is a rational (ints are embedded exactly, float literals by their decimal text, which
is how the author wrote them).  Any construct outside the subset raises Unsupported: the caller reports
the affected obligations as broken instead of guessing.

Emitted vocabulary (defined in Verif.Lib.QRound / Verif.Lib.PyNum):
  round4, Qpowq (x ** integer-valued e), Qeq_bool, Qle_bool, Qltb, Qmax, Qmin, Qabs
"""
import ast
from fractions import Fraction


class Unsupported(Exception):
    pass


def qconst(v):
    if isinstance(v, bool):
        raise Unsupported('boolean constant used as number')
    if isinstance(v, int):
        fr = Fraction(v)
    elif isinstance(v, float):
        fr = Fraction(repr(v))          # the decimal the author wrote (0.2 -> 1/5); tie stated in DESIGN 2.3
    else:
        raise Unsupported('constant %r' % (v,))
    n = '(%d)' % fr.numerator if fr.numerator < 0 else '%d' % fr.numerator
    return '(%s # %d)' % (n, fr.denominator)


class Tr:
    def __init__(self, config_prefix='cfg_', extra_calls=None):
        self.config_keys = []
        self.prefix = config_prefix
        self.extra_calls = extra_calls or {}

    # -- expressions ---------------------------------------------------------------------------
    def num(self, e):
        if isinstance(e, ast.Constant):
            return qconst(e.value)
        if isinstance(e, ast.Name):
            return 'v_' + e.id
        if isinstance(e, ast.UnaryOp) and isinstance(e.op, ast.USub):
            return '(- %s)' % self.num(e.operand)
        if isinstance(e, ast.BinOp):
            a, b = self.num(e.left), self.num(e.right)
            if isinstance(e.op, ast.Add):
                return '(%s + %s)' % (a, b)
            if isinstance(e.op, ast.Sub):
                return '(%s - %s)' % (a, b)
            if isinstance(e.op, ast.Mult):
                return '(%s * %s)' % (a, b)
            if isinstance(e.op, ast.Div):
                return '(%s / %s)' % (a, b)
            if isinstance(e.op, ast.Pow):
                return '(Qpowq %s %s)' % (a, b)
            raise Unsupported('binary operator %s' % type(e.op).__name__)
        if isinstance(e, ast.Subscript):
            # self.config['key']
            v = e.value
            if (isinstance(v, ast.Attribute) and v.attr == 'config' and isinstance(v.value, ast.Name)
                    and v.value.id == 'self' and isinstance(e.slice, ast.Constant) and isinstance(e.slice.value, str)):
                k = e.slice.value
                if k not in self.config_keys:
                    self.config_keys.append(k)
                return self.prefix + k
            raise Unsupported('subscript ' + ast.dump(e))
        if isinstance(e, ast.Call) and isinstance(e.func, ast.Name) and not e.keywords:
            f = e.func.id
            if f == 'round' and len(e.args) == 2 and isinstance(e.args[1], ast.Constant) and e.args[1].value == 4:
                return '(round4 %s)' % self.num(e.args[0])
            if f == 'float' and len(e.args) == 1:
                return self.num(e.args[0])
            if f in ('max', 'min') and len(e.args) == 2:
                return '(Q%s %s %s)' % (f, self.num(e.args[0]), self.num(e.args[1]))
            if f == 'abs' and len(e.args) == 1:
                return '(Qabs %s)' % self.num(e.args[0])
            if f in self.extra_calls:
                return '(%s %s)' % (self.extra_calls[f], ' '.join(self.num(a) for a in e.args))
            raise Unsupported('call to %s' % f)
        if isinstance(e, ast.IfExp):
            return '(if %s then %s else %s)' % (self.cond(e.test), self.num(e.body), self.num(e.orelse))
        raise Unsupported('expression ' + type(e).__name__)

    def cond(self, e):
        if isinstance(e, ast.Compare) and len(e.ops) == 1:
            a, b = self.num(e.left), self.num(e.comparators[0])
            op = e.ops[0]
            if isinstance(op, ast.Eq):
                return '(Qeq_bool %s %s)' % (a, b)
            if isinstance(op, ast.NotEq):
                return '(negb (Qeq_bool %s %s))' % (a, b)
            if isinstance(op, ast.LtE):
                return '(Qle_bool %s %s)' % (a, b)
            if isinstance(op, ast.Lt):
                return '(Qltb %s %s)' % (a, b)
            if isinstance(op, ast.GtE):
                return '(Qle_bool %s %s)' % (b, a)
            if isinstance(op, ast.Gt):
                return '(Qltb %s %s)' % (b, a)
            raise Unsupported('comparison %s' % type(op).__name__)
        if isinstance(e, ast.BoolOp):
            parts = [self.cond(v) for v in e.values]
            j = ' && ' if isinstance(e.op, ast.And) else ' || '
            return '(' + j.join(parts) + ')'
        if isinstance(e, ast.UnaryOp) and isinstance(e.op, ast.Not):
            return '(negb %s)' % self.cond(e.operand)
        raise Unsupported('condition ' + type(e).__name__)

    # -- statements (continuation style: the statements after an `if` are copied into both arms) --
    def block(self, stmts, indent='  '):
        if not stmts:
            raise Unsupported('control reaches the end of the function without return')
        s, rest = stmts[0], stmts[1:]
        if isinstance(s, ast.Expr) and isinstance(s.value, ast.Constant) and isinstance(s.value.value, str):
            return self.block(rest, indent)
        if isinstance(s, ast.Pass):
            return self.block(rest, indent)
        if isinstance(s, ast.Return):
            if s.value is None:
                raise Unsupported('bare return')
            return indent + self.num(s.value)
        if isinstance(s, ast.Assign):
            if len(s.targets) != 1 or not isinstance(s.targets[0], ast.Name):
                raise Unsupported('assignment target')
            return '%slet v_%s := %s in\n%s' % (indent, s.targets[0].id, self.num(s.value), self.block(rest, indent))
        if isinstance(s, ast.If):
            return ('%sif %s then\n%s\n%selse\n%s' %
                    (indent, self.cond(s.test), self.block(s.body + rest, indent + '  '), indent,
                     self.block(s.orelse + rest, indent + '  ')))
        raise Unsupported('statement ' + type(s).__name__)


def translate_method(fn, name, config_order=None):
    """fn: ast.FunctionDef of a method `def f(self, a, b)`.  Returns Gallina text of
    Definition <name> (cfg_k1 ... : Q) (v_a v_b : Q) : Q := ..."""
    if fn.args.vararg or fn.args.kwarg or fn.args.kwonlyargs or fn.args.defaults or fn.decorator_list:
        raise Unsupported('signature of %s' % fn.name)
    args = [a.arg for a in fn.args.args]
    if args and args[0] == 'self':
        args = args[1:]
    tr = Tr()
    body = tr.block(fn.body)
    keys = sorted(tr.config_keys)
    if config_order is not None:
        if sorted(config_order) != keys:
            raise Unsupported('%s reads config keys %s, expected %s' % (name, keys, sorted(config_order)))
        keys = list(config_order)
    params = ' '.join(['cfg_' + k for k in keys] + ['v_' + a for a in args])
    return 'Definition %s (%s : Q) : Q :=\n%s.\n' % (name, params, body)
