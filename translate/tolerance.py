"""tolerance.py -- regenerate coq/Gen/Tolerance.v from the working tree (translator A for C04).

Translated, on every run, from /repo:
  mitxgraders/helpers/calc/mathfuncs.py   percentage_as_number, within_tolerance
  mitxgraders/helpers/math_helpers.py     MathMixin.consolidate_results

A small *typed*, fail-closed translator from a straight-line subset of Python to Gallina over the
vocabulary of Verif.Model.Tolerance (values, norm-valued quantities compared on squares, result entries,
`for_loop` with early return).  Every name has one of the types below; any construct, operand type or
call outside the table raises Unsupported, and the driver reports the obligations as broken instead of
guessing.  The subset is deliberately a little larger than what the source uses today (all six
comparison operators, operands in any order, and/or/not), so that a semantic edit still translates and
the regenerated definition itself can be searched for a property-violating input.

Types:  value | tolx | nval | bool | Z | Q | entry | oentry (entry or None) | entries | okv | str
An expression is translated to (text, type, may_raise); `may_raise` expressions are bound with `obind`.
"""
import ast
from fractions import Fraction

from harness import core


class Unsupported(Exception):
    pass


def qtext(v):
    if isinstance(v, bool) or not isinstance(v, (int, float)):
        raise Unsupported('numeric constant %r' % (v,))
    fr = Fraction(repr(v)) if isinstance(v, float) else Fraction(v)     # the decimal the author wrote
    n = '(%d)' % fr.numerator if fr.numerator < 0 else '%d' % fr.numerator
    return '(%s # %d)' % (n, fr.denominator)


OKV = {True: 'OkTrue', False: 'OkFalse', 'partial': 'OkPartial'}
ENTRY_FIELDS = {'ok': ('e_ok', 'okv'), 'grade_decimal': ('e_grade', 'Q'), 'msg': ('e_msg', 'str')}


def dotted(e):
    """np.linalg.norm -> 'np.linalg.norm'"""
    if isinstance(e, ast.Name):
        return e.id
    if isinstance(e, ast.Attribute):
        b = dotted(e.value)
        return None if b is None else b + '.' + e.attr
    return None


class Fn:
    def __init__(self, name, returns, may_raise):
        self.name, self.returns, self.may_raise = name, returns, may_raise
        self.env = {}

    # ---- expressions -------------------------------------------------------------------------
    def const_as(self, e, ty):
        """a Python constant placed where a value of type ty is expected"""
        if not isinstance(e, ast.Constant):
            return None
        v = e.value
        if ty == 'okv' and (isinstance(v, bool) or v == 'partial'):
            return OKV[v]
        if ty == 'Z' and isinstance(v, int) and not isinstance(v, bool):
            return '(%d)%%Z' % v
        if ty == 'Q' and isinstance(v, (int, float)) and not isinstance(v, bool):
            return qtext(v)
        if ty == 'nval' and isinstance(v, (int, float)) and not isinstance(v, bool):
            return '(n_const %s)' % qtext(v)
        if ty == 'str' and v == '':
            return '(@nil Z)'
        return None

    def expr(self, e):
        if isinstance(e, ast.Name):
            if e.id not in self.env:
                raise Unsupported('%s: unknown name %s' % (self.name, e.id))
            return 'v_' + e.id, self.env[e.id], False
        if isinstance(e, ast.Constant):
            if isinstance(e.value, bool):
                return ('true' if e.value else 'false'), 'bool', False
            if isinstance(e.value, int):
                return '(%d)%%Z' % e.value, 'Z', False
            if isinstance(e.value, float):
                return '(n_const %s)' % qtext(e.value), 'nval', False
            raise Unsupported('%s: constant %r' % (self.name, e.value))
        if isinstance(e, ast.UnaryOp):
            t, ty, o = self.expr(e.operand)
            if isinstance(e.op, ast.USub) and ty == 'value':
                return '(v_neg %s)' % t, 'value', o
            if isinstance(e.op, ast.Not) and ty == 'bool':
                return '(negb %s)' % t, 'bool', o
            raise Unsupported('%s: unary %s on %s' % (self.name, type(e.op).__name__, ty))
        if isinstance(e, ast.BoolOp):
            parts = [self.expr(v) for v in e.values]
            if any(ty != 'bool' or o for _, ty, o in parts):
                raise Unsupported('%s: and/or over non-boolean or raising operands' % self.name)
            j = ' && ' if isinstance(e.op, ast.And) else ' || '
            return '(' + j.join(t for t, _, _ in parts) + ')', 'bool', False
        if isinstance(e, ast.Compare):
            if len(e.ops) != 1:
                raise Unsupported('%s: chained comparison' % self.name)
            return self.compare(e.left, e.ops[0], e.comparators[0])
        if isinstance(e, ast.BinOp):
            return self.binop(e)
        if isinstance(e, ast.Call):
            return self.call(e)
        if isinstance(e, ast.Subscript):
            t, ty, o = self.expr(e.value)
            if ty == 'entry' and isinstance(e.slice, ast.Constant) and e.slice.value in ENTRY_FIELDS:
                f, fty = ENTRY_FIELDS[e.slice.value]
                return '(%s %s)' % (f, t), fty, o
            raise Unsupported('%s: subscript of %s' % (self.name, ty))
        if isinstance(e, ast.Dict):
            keys = [k.value if isinstance(k, ast.Constant) else None for k in e.keys]
            if sorted(map(str, keys)) != sorted(ENTRY_FIELDS):
                raise Unsupported('%s: dict literal with keys %r' % (self.name, keys))
            parts = {}
            for k, v in zip(keys, e.values):
                c = self.const_as(v, ENTRY_FIELDS[k][1])
                if c is None:
                    t, ty, o = self.expr(v)
                    if ty != ENTRY_FIELDS[k][1] or o:
                        raise Unsupported('%s: dict field %s of type %s' % (self.name, k, ty))
                    c = t
                parts[k] = c
            return '(mkEntry %s %s %s)' % (parts['ok'], parts['grade_decimal'], parts['msg']), 'entry', False
        if isinstance(e, ast.DictComp):
            # {key: answer[key] for key in ['ok', 'grade_decimal', 'msg']}
            g = e.generators
            ok = (len(g) == 1 and not g[0].ifs and isinstance(g[0].target, ast.Name)
                  and isinstance(g[0].iter, ast.List)
                  and [getattr(x, 'value', None) for x in g[0].iter.elts] == ['ok', 'grade_decimal', 'msg']
                  and isinstance(e.key, ast.Name) and e.key.id == g[0].target.id
                  and isinstance(e.value, ast.Subscript) and isinstance(e.value.slice, ast.Name)
                  and e.value.slice.id == g[0].target.id)
            if ok:
                t, ty, o = self.expr(e.value.value)
                if ty == 'entry' and not o:
                    return '(entry_prune %s)' % t, 'entry', False
            raise Unsupported('%s: dict comprehension outside the pruning pattern' % self.name)
        raise Unsupported('%s: expression %s' % (self.name, type(e).__name__))

    def compare(self, left, op, right):
        # constants take the type of the other operand
        if isinstance(right, ast.Constant) and not isinstance(left, ast.Constant):
            lt, lty, lo = self.expr(left)
            c = self.const_as(right, lty)
            if c is None:
                raise Unsupported('%s: comparing %s with constant %r' % (self.name, lty, right.value))
            rt, rty, ro = c, lty, False
        elif isinstance(left, ast.Constant) and not isinstance(right, ast.Constant):
            rt, rty, ro = self.expr(right)
            c = self.const_as(left, rty)
            if c is None:
                raise Unsupported('%s: comparing constant %r with %s' % (self.name, left.value, rty))
            lt, lty, lo = c, rty, False
        else:
            lt, lty, lo = self.expr(left)
            rt, rty, ro = self.expr(right)
        o = lo or ro
        if o:
            raise Unsupported('%s: comparison of raising operands' % self.name)
        kind = type(op).__name__
        norm = lambda t, ty: '(n_of_tolx %s)' % t if ty == 'tolx' else t
        if lty == 'value' and rty == 'value' and kind in ('Eq', 'NotEq'):
            t = '(v_eqb %s %s)' % (lt, rt)
        elif lty in ('nval', 'tolx') and rty in ('nval', 'tolx') and 'nval' in (lty, rty) and kind in ('LtE', 'Lt', 'GtE', 'Gt'):
            a, b = norm(lt, lty), norm(rt, rty)
            t = {'LtE': '(n_le %s %s)' % (a, b), 'Lt': '(n_lt %s %s)' % (a, b),
                 'GtE': '(n_le %s %s)' % (b, a), 'Gt': '(n_lt %s %s)' % (b, a)}[kind]
            return t, 'bool', False
        elif lty == 'Z' and rty == 'Z' and kind in ('Eq', 'NotEq', 'LtE', 'Lt', 'GtE', 'Gt'):
            t = {'Eq': '(%s =? %s)%%Z' % (lt, rt), 'NotEq': '(%s =? %s)%%Z' % (lt, rt),
                 'LtE': '(%s <=? %s)%%Z' % (lt, rt), 'Lt': '(%s <? %s)%%Z' % (lt, rt),
                 'GtE': '(%s <=? %s)%%Z' % (rt, lt), 'Gt': '(%s <? %s)%%Z' % (rt, lt)}[kind]
        elif lty == 'okv' and rty == 'okv' and kind in ('Eq', 'NotEq'):
            t = '(okv_eqb %s %s)' % (lt, rt)
        else:
            raise Unsupported('%s: comparison %s between %s and %s' % (self.name, kind, lty, rty))
        if kind == 'NotEq':
            t = '(negb %s)' % t
        return t, 'bool', False

    def binop(self, e):
        lt, lty, lo = self.expr(e.left)
        rt, rty, ro = self.expr(e.right)
        kind = type(e.op).__name__
        if kind == 'Sub' and lty == 'value' and rty == 'value' and not (lo or ro):
            return '(v_sub %s %s)' % (lt, rt), 'value', True
        if kind == 'Mult' and lty == 'nval' and rty == 'nval' and not (lo or ro):
            return '(n_mul %s %s)' % (lt, rt), 'nval', False
        if kind == 'Add' and lty == 'Z' and rty == 'Z' and not (lo or ro):
            return '(%s + %s)%%Z' % (lt, rt), 'Z', False
        if kind == 'Sub' and lty == 'Z' and rty == 'Z' and not (lo or ro):
            return '(%s - %s)%%Z' % (lt, rt), 'Z', False
        raise Unsupported('%s: operator %s between %s and %s' % (self.name, kind, lty, rty))

    def call(self, e):
        if e.keywords:
            raise Unsupported('%s: keyword arguments' % self.name)
        f = dotted(e.func)
        a = e.args
        if f == 'float' and len(a) == 1 and isinstance(a[0], ast.Constant) and a[0].value == 'inf':
            return 'v_pinf', 'value', False
        if f == 'float' and len(a) == 1:
            # float(percent_str.strip()[:-1])
            s = a[0]
            if (isinstance(s, ast.Subscript) and isinstance(s.slice, ast.Slice) and s.slice.lower is None
                    and s.slice.step is None and isinstance(s.slice.upper, ast.UnaryOp)
                    and isinstance(s.slice.upper.op, ast.USub) and isinstance(s.slice.upper.operand, ast.Constant)
                    and s.slice.upper.operand.value == 1 and isinstance(s.value, ast.Call)
                    and isinstance(s.value.func, ast.Attribute) and s.value.func.attr == 'strip'
                    and not s.value.args and not s.value.keywords):
                t, ty, o = self.expr(s.value.func.value)
                if ty == 'tolx' and not o:
                    return '(n_pct_float %s)' % t, 'nval', False
            raise Unsupported('%s: float() of something else than "inf" or percent_str.strip()[:-1]' % self.name)
        if f == 'isinstance' and len(a) == 2 and isinstance(a[1], ast.Name):
            t, ty, o = self.expr(a[0])
            if o:
                raise Unsupported('%s: isinstance of raising operand' % self.name)
            if a[1].id == 'Number' and ty == 'value':
                return '(v_is_number %s)' % t, 'bool', False
            if a[1].id == 'str' and ty == 'tolx':
                return '(t_is_str %s)' % t, 'bool', False
            raise Unsupported('%s: isinstance(%s, %s)' % (self.name, ty, a[1].id))
        if f == 'np.linalg.norm' and len(a) == 1:
            t, ty, o = self.expr(a[0])
            if ty == 'value' and not o:
                return '(n_norm %s)' % t, 'nval', False
            raise Unsupported('%s: norm of %s' % (self.name, ty))
        if f == 'percentage_as_number' and len(a) == 1:
            t, ty, o = self.expr(a[0])
            if ty == 'tolx' and not o:
                return '(gen_percentage_as_number %s)' % t, 'nval', False
            raise Unsupported('%s: percentage_as_number of %s' % (self.name, ty))
        if f == 'len' and len(a) == 1:
            t, ty, o = self.expr(a[0])
            if ty == 'entries' and not o:
                return '(zlen %s)' % t, 'Z', False
            raise Unsupported('%s: len of %s' % (self.name, ty))
        raise Unsupported('%s: call to %s' % (self.name, f))

    # ---- statements (continuation style: what follows an `if` is copied into both arms) ---------
    def ret(self, text, loop):
        if loop is not None:
            return '(Return %s)' % text
        return '(Some %s)' % text if self.may_raise else text

    def assigned(self, stmts):
        out = []
        for s in stmts:
            if isinstance(s, (ast.Assign, ast.AugAssign)):
                tg = s.targets[0] if isinstance(s, ast.Assign) else s.target
                if isinstance(tg, ast.Name) and tg.id not in out:
                    out.append(tg.id)
            elif isinstance(s, ast.If):
                for n in self.assigned(s.body) + self.assigned(s.orelse):
                    if n not in out:
                        out.append(n)
            elif isinstance(s, (ast.For, ast.While)):
                raise Unsupported('%s: nested loop' % self.name)
        return out

    def block(self, stmts, ind, loop=None):
        """loop: None outside a loop, else the list of state variable names"""
        if not stmts:
            if loop is None:
                raise Unsupported('%s: control reaches the end of the function without return' % self.name)
            return ind + '(Continue %s)' % self.state_tuple(loop)
        s, rest = stmts[0], stmts[1:]
        if isinstance(s, ast.Expr) and isinstance(s.value, ast.Constant) and isinstance(s.value.value, str):
            return self.block(rest, ind, loop)
        if isinstance(s, ast.Pass):
            return self.block(rest, ind, loop)
        if isinstance(s, ast.Return):
            if s.value is None:
                raise Unsupported('%s: bare return' % self.name)
            t, ty, o = self.expr(s.value)
            if ty != self.returns:
                raise Unsupported('%s: returns %s, expected %s' % (self.name, ty, self.returns))
            if o:
                if loop is not None or not self.may_raise:
                    raise Unsupported('%s: raising expression returned from a total function' % self.name)
                return ind + '(obind %s (fun r => Some r))' % t
            return ind + self.ret(t, loop)
        if isinstance(s, ast.Assign):
            if len(s.targets) != 1 or not isinstance(s.targets[0], ast.Name):
                raise Unsupported('%s: assignment target' % self.name)
            name = s.targets[0].id
            t, ty, o = self.expr(s.value)
            if self.env.get(name) == 'tolx' and ty == 'nval':
                t, ty = '(XNum %s)' % t, 'tolx'
            if name in self.env and self.env[name] != ty:
                raise Unsupported('%s: %s changes type from %s to %s' % (self.name, name, self.env[name], ty))
            if loop is not None and name not in loop:
                raise Unsupported('%s: assignment to non-state variable %s inside a loop' % (self.name, name))
            self.env[name] = ty
            if o:
                if not self.may_raise or loop is not None:
                    raise Unsupported('%s: raising expression in a total function' % self.name)
                return '%sobind %s (fun v_%s =>\n%s)' % (ind, t, name, self.block(rest, ind, loop))
            return '%slet v_%s := %s in\n%s' % (ind, name, t, self.block(rest, ind, loop))
        if isinstance(s, ast.AugAssign):
            if not isinstance(s.target, ast.Name) or not isinstance(s.op, (ast.Add, ast.Sub)):
                raise Unsupported('%s: augmented assignment' % self.name)
            name = s.target.id
            if self.env.get(name) != 'Z':
                raise Unsupported('%s: += on %s' % (self.name, self.env.get(name)))
            c = self.const_as(s.value, 'Z')
            if c is None:
                c, ty, o = self.expr(s.value)
                if ty != 'Z' or o:
                    raise Unsupported('%s: += with %s' % (self.name, ty))
            sym = '+' if isinstance(s.op, ast.Add) else '-'
            return '%slet v_%s := (v_%s %s %s)%%Z in\n%s' % (ind, name, name, sym, c, self.block(rest, ind, loop))
        if isinstance(s, ast.If):
            # `if NAME is None: NAME = <entry>`  -- default for an optional entry
            tst = s.test
            if (isinstance(tst, ast.Compare) and len(tst.ops) == 1 and isinstance(tst.ops[0], ast.Is)
                    and isinstance(tst.left, ast.Name) and isinstance(tst.comparators[0], ast.Constant)
                    and tst.comparators[0].value is None):
                name = tst.left.id
                if (self.env.get(name) == 'oentry' and not s.orelse and len(s.body) == 1
                        and isinstance(s.body[0], ast.Assign) and len(s.body[0].targets) == 1
                        and isinstance(s.body[0].targets[0], ast.Name) and s.body[0].targets[0].id == name):
                    t, ty, o = self.expr(s.body[0].value)
                    if ty == 'entry' and not o:
                        self.env[name] = 'entry'
                        return '%slet v_%s := o_default %s v_%s in\n%s' % (ind, name, t, name, self.block(rest, ind, loop))
                raise Unsupported('%s: `is None` test outside the default-answer pattern' % self.name)
            c, cty, co = self.expr(tst)
            if cty != 'bool' or co:
                raise Unsupported('%s: condition of type %s' % (self.name, cty))
            only_assign = (all(isinstance(x, ast.Assign) for x in s.body + s.orelse) and (s.body or s.orelse))
            if only_assign and loop is None:
                # conditional rebinding: let v := if c then A else B in ...
                names = self.assigned(s.body + s.orelse)
                if len(names) == 1 and len(s.body) <= 1 and len(s.orelse) <= 1:
                    name = names[0]

                    def arm(stmts):
                        if not stmts:
                            if name not in self.env:
                                raise Unsupported('%s: %s undefined on one path' % (self.name, name))
                            return 'v_' + name, self.env[name], False
                        t, ty, o = self.expr(stmts[0].value)
                        if self.env.get(name) == 'tolx' and ty == 'nval':
                            t, ty = '(XNum %s)' % t, 'tolx'
                        return t, ty, o
                    a, aty, ao = arm(s.body)
                    b, bty, bo = arm(s.orelse)
                    if aty != bty or ao or bo:
                        raise Unsupported('%s: branches bind %s at types %s/%s' % (self.name, name, aty, bty))
                    self.env[name] = aty
                    return '%slet v_%s := if %s then %s else %s in\n%s' % (ind, name, c, a, b, self.block(rest, ind, loop))
            saved = dict(self.env)
            a = self.block(s.body + rest, ind + '  ', loop)
            env_a = self.env
            self.env = dict(saved)
            b = self.block(s.orelse + rest, ind + '  ', loop)
            self.env = env_a
            return '%sif %s then\n%s\n%selse\n%s' % (ind, c, a, ind, b)
        if isinstance(s, ast.For):
            if loop is not None or self.may_raise or s.orelse:
                raise Unsupported('%s: loop inside a loop / raising function / for-else' % self.name)
            if not isinstance(s.target, ast.Name) or not isinstance(s.iter, ast.Name):
                raise Unsupported('%s: loop header' % self.name)
            it, ity, io = self.expr(s.iter)
            if ity != 'entries':
                raise Unsupported('%s: loop over %s' % (self.name, ity))
            state = self.assigned(s.body)
            for n in state:
                if self.env.get(n) != 'Z':
                    raise Unsupported('%s: loop state %s of type %s' % (self.name, n, self.env.get(n)))
            if len(state) != 1:
                raise Unsupported('%s: loops with exactly one integer state variable are supported, got %r' % (self.name, state))
            if s.target.id in self.env:
                raise Unsupported('%s: loop variable shadows %s' % (self.name, s.target.id))
            self.env[s.target.id] = 'entry'
            body = self.block(s.body, ind + '      ', state)
            del self.env[s.target.id]
            after = self.block(rest, ind + '    ', None)
            st = self.state_tuple(state)
            return ('%smatch for_loop (fun v_%s %s =>\n%s) %s %s with\n%s| inr r => r\n%s| inl %s =>\n%s\n%send'
                    % (ind, s.target.id, st, body, it, st, ind, ind, st, after, ind))
        raise Unsupported('%s: statement %s' % (self.name, type(s).__name__))

    @staticmethod
    def state_tuple(names):
        return 'v_' + names[0]


COQ_TYPES = {'value': 'value', 'tolx': 'tolx', 'nval': 'nval', 'bool': 'bool', 'Z': 'Z', 'entry': 'entry',
             'oentry': 'option entry', 'entries': 'list entry'}


def translate_function(node, gen_name, params, returns, may_raise):
    """node: ast.FunctionDef; params: [(python name, type)] in the order of the Python signature"""
    a = node.args
    if a.vararg or a.kwarg or a.kwonlyargs or a.defaults or a.posonlyargs:
        raise Unsupported('signature of %s' % node.name)
    decos = [dotted(d) for d in node.decorator_list]
    if [d for d in decos if d != 'staticmethod']:
        raise Unsupported('decorators of %s: %r' % (node.name, decos))
    names = [x.arg for x in a.args]
    if names != [p for p, _ in params]:
        raise Unsupported('%s has parameters %r, expected %r' % (node.name, names, [p for p, _ in params]))
    fn = Fn(node.name, returns, may_raise)
    fn.env = dict(params)
    body = fn.block(node.body, '  ')
    ps = ' '.join('(v_%s : %s)' % (p, COQ_TYPES[t]) for p, t in params)
    rt = COQ_TYPES[returns]
    if may_raise:
        rt = 'option ' + rt
    return 'Definition %s %s : %s :=\n%s.\n' % (gen_name, ps, rt, body)


def generate():
    mf = ast.parse(core.repo_source('mitxgraders/helpers/calc/mathfuncs.py'))
    mh = ast.parse(core.repo_source('mitxgraders/helpers/math_helpers.py'))
    out = ['(* GENERATED by translate/tolerance.py from mitxgraders/helpers/calc/mathfuncs.py and',
           '   mitxgraders/helpers/math_helpers.py -- do not edit *)',
           'From Coq Require Import ZArith QArith Qabs List Bool.',
           'From Verif.Lib Require Import QRound.',
           'From Verif.Model Require Import Result Tolerance.',
           'Import ListNotations.', 'Open Scope Q_scope.', '']
    spec = [(mf, 'percentage_as_number', 'gen_percentage_as_number', [('percent_str', 'tolx')], 'nval', False),
            (mf, 'within_tolerance', 'gen_within_tolerance',
             [('x', 'value'), ('y', 'value'), ('tolerance', 'tolx')], 'bool', True),
            (mh, 'MathMixin.consolidate_results', 'gen_consolidate_results',
             [('results', 'entries'), ('answer', 'oentry'), ('failable_evals', 'Z')], 'entry', False)]
    for tree, qual, gen_name, params, returns, may_raise in spec:
        node = core.find_def(tree, qual)
        if node is None or not isinstance(node, ast.FunctionDef):
            raise Unsupported('%s not found' % qual)
        out.append(translate_function(node, gen_name, params, returns, may_raise))
    return '\n'.join(out)


if __name__ == '__main__':
    print(generate())
