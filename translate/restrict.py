"""
restrict.py -- regenerate coq/Gen/Restrict.v from /repo (translator A, property C09).

Translated from the working tree, statement by statement:
  math_helpers.get_permitted_functions                 -> gen_get_permitted_functions
  math_helpers.validate_forbidden_strings_not_used     -> gen_validate_forbidden_strings_not_used
  math_helpers.validate_only_permitted_functions_used  -> gen_validate_only_permitted_functions_used
  math_helpers.validate_required_functions_used        -> gen_validate_required_functions_used
  MathMixin.post_eval_validation                       -> gen_post_eval_validation       (order of the three validators)
  MathMixin.check_math_response                        -> gen_runs_post_validation       (the gate on result['ok'])
  math_helpers.numbered_vars_regexp                    -> gen_numbered_regexp            (the literal pieces of the regex)
  FormulaGrader / SumGrader / IntegralGrader.gen_evaluations
                                                       -> gen_*_loop (order of update / author evaluation / scrub /
                                                          [summation-variable guard /] student evaluation / restore
                                                          inside the sampling loop) and
                                                          gen_*_blacklist (how var_blacklist is assembled)

Fail-closed: a typed, white-listed subset of Python.  Anything outside it raises Unsupported and the check reports
the obligation as broken.  Vocabulary emitted: Verif.Model.RestrictBase.
"""
import ast

from harness import core

HELPERS = 'mitxgraders/helpers/math_helpers.py'
FORMULA = 'mitxgraders/formulagrader/formulagrader.py'
INTEGRAL = 'mitxgraders/formulagrader/integralgrader.py'


class Unsupported(Exception):
    pass


def strlit(s):
    if not isinstance(s, str):
        raise Unsupported('string constant expected, got %r' % (s,))
    if s == '':
        return '(@nil Z)'
    return '[' + '; '.join(str(ord(c)) for c in s) + ']'


def dump(e):
    return ast.dump(e)


def short(e):
    return ast.dump(e)[:200]


def body_of(fn):
    """statements of a function without its docstring"""
    b = list(fn.body)
    if b and isinstance(b[0], ast.Expr) and isinstance(b[0].value, ast.Constant) and isinstance(b[0].value.value, str):
        b = b[1:]
    return b


def check_signature(fn, params):
    a = fn.args
    if a.vararg or a.kwarg or a.kwonlyargs or a.defaults or a.posonlyargs or fn.decorator_list:
        raise Unsupported('signature of %s' % fn.name)
    got = [x.arg for x in a.args]
    if got != params:
        raise Unsupported('%s has parameters %s, expected %s' % (fn.name, got, params))


def is_name(e, ident=None):
    return isinstance(e, ast.Name) and (ident is None or e.id == ident)


def is_self_attr(e, attr):
    return isinstance(e, ast.Attribute) and e.attr == attr and is_name(e.value, 'self')


def is_self_config(e, key=None):
    return (isinstance(e, ast.Subscript) and is_self_attr(e.value, 'config') and isinstance(e.slice, ast.Constant)
            and isinstance(e.slice.value, str) and (key is None or e.slice.value == key))


def parse_snippet(src):
    return ast.parse(src).body


def same(stmts, src):
    return [dump(s) for s in stmts] == [dump(s) for s in parse_snippet(src)]


# ------------------------------------------------------------------------------------------------
# expressions over names / strings
# ------------------------------------------------------------------------------------------------
class Env:
    def __init__(self, types):
        self.types = dict(types)      # python name -> 'names' | 'wl' | 'str' | 'strlist' | 'sinput'

    def ty(self, name):
        if name not in self.types:
            raise Unsupported('unknown name %r' % name)
        return self.types[name]

    def bind(self, name, ty):
        e = Env(self.types)
        e.types[name] = ty
        return e


def v(name):
    return 'v_' + name


def set_arg(e, env):
    """an iterable of function names used as a set: set(x), x"""
    if isinstance(e, ast.Call) and is_name(e.func, 'set') and len(e.args) == 1 and not e.keywords:
        return set_arg(e.args[0], env)
    if is_name(e):
        t = env.ty(e.id)
        if t == 'names':
            return v(e.id)
        if t == 'wl':
            return '(wl_names %s)' % v(e.id)
        raise Unsupported('%s (a %s) used as a set' % (e.id, t))
    return set_expr(e, env)


def set_expr(e, env):
    if isinstance(e, ast.Call) and isinstance(e.func, ast.Attribute) and len(e.args) == 1 and not e.keywords:
        if e.func.attr == 'union':
            return '(set_union %s %s)' % (set_arg(e.func.value, env), set_arg(e.args[0], env))
        if e.func.attr == 'difference':
            return '(set_diff %s %s)' % (set_arg(e.func.value, env), set_arg(e.args[0], env))
    if isinstance(e, ast.Call) and is_name(e.func, 'set'):
        return set_arg(e, env)
    raise Unsupported('set expression ' + short(e))


def str_expr(e, env):
    if is_name(e) and env.ty(e.id) == 'str':
        return v(e.id)
    if (isinstance(e, ast.Call) and isinstance(e.func, ast.Attribute) and e.func.attr == 'replace' and len(e.args) == 2
            and not e.keywords and all(isinstance(a, ast.Constant) for a in e.args)
            and e.args[0].value == ' ' and e.args[1].value == ''):
        return '(strip_spaces %s)' % str_expr(e.func.value, env)
    raise Unsupported('string expression ' + short(e))


def cond_expr(e, env):
    if isinstance(e, ast.BoolOp):
        parts = [cond_expr(x, env) for x in e.values]
        return '(' + (' && ' if isinstance(e.op, ast.And) else ' || ').join(parts) + ')'
    if is_name(e):                                      # truthiness of a list
        if env.ty(e.id) in ('names', 'wl', 'strlist'):
            return '(truthy %s)' % v(e.id)
        raise Unsupported('truthiness of %s' % e.id)
    if isinstance(e, ast.Compare) and len(e.ops) == 1:
        op, left, right = e.ops[0], e.left, e.comparators[0]
        if isinstance(op, ast.Eq) and is_name(left) and env.ty(left.id) == 'wl' and isinstance(right, ast.List):
            if not right.elts:
                return '(wl_is_empty %s)' % v(left.id)
            if len(right.elts) == 1 and isinstance(right.elts[0], ast.Constant) and right.elts[0].value is None:
                return '(wl_is_none %s)' % v(left.id)
            raise Unsupported('comparison of the whitelist with ' + short(right))
        if isinstance(op, (ast.In, ast.NotIn)) and is_name(left) and is_name(right):
            lt, rt = env.ty(left.id), env.ty(right.id)
            if lt == 'str' and rt == 'str':
                t = '(substr %s %s)' % (v(left.id), v(right.id))
            elif lt == 'str' and rt == 'names':
                t = '(mem %s %s)' % (v(left.id), v(right.id))
            else:
                raise Unsupported('membership %s in %s' % (lt, rt))
            return t if isinstance(op, ast.In) else '(negb %s)' % t
    raise Unsupported('condition ' + short(e))


# ------------------------------------------------------------------------------------------------
# validators: blocks whose result is a vres
# ------------------------------------------------------------------------------------------------
NORMALISE = '''
if isinstance(expr, dict):
    expr = [v for k, v in expr.items()]
elif not isinstance(expr, list):
    expr = [expr]
'''
NOT_PERMITTED_MESSAGE = '''
func_names = ", ".join(["'{f}'".format(f=f) for f in used_not_permitted])
message = "Invalid Input: function(s) {} not permitted in answer".format(func_names)
raise InvalidInput(message)
'''
REQUIRED_MESSAGE = '''
msg = "Invalid Input: Answer must contain the function {}"
raise InvalidInput(msg.format(func))
'''


class Validator:
    def __init__(self, kind):
        self.kind = kind            # which payload a raise carries

    def raise_payload(self, stmts, env, tested):
        """the statements of an `if ...:` body that ends in raise InvalidInput(...)"""
        if self.kind == 'forbidden':
            if same(stmts, 'raise InvalidInput(forbidden_msg)'):
                return 'VForbidden'
        elif self.kind == 'permitted':
            if same(stmts, NOT_PERMITTED_MESSAGE) and tested == 'used_not_permitted':
                return '(VNotPermitted %s)' % v('used_not_permitted')
        elif self.kind == 'required':
            if same(stmts, REQUIRED_MESSAGE) and env.ty('func') == 'str':
                return '(VRequired %s)' % v('func')
        raise Unsupported('raise in %s validator: %s' % (self.kind, [short(s) for s in stmts]))

    def block(self, stmts, env, in_loop, ind):
        if not stmts:
            if in_loop:
                return ind + 'VPass'
            raise Unsupported('control reaches the end of a validator without return')
        s, rest = stmts[0], stmts[1:]
        if isinstance(s, ast.Return):
            if in_loop or not (isinstance(s.value, ast.Constant) and s.value.value is True) or rest:
                raise Unsupported('return ' + short(s))
            return ind + 'VPass'
        if isinstance(s, ast.If) and same([s], NORMALISE) and env.ty('expr') == 'sinput' and not in_loop:
            return '%slet v_expr := si_values v_expr in\n%s' % (ind, self.block(rest, env.bind('expr', 'strlist'), in_loop, ind))
        if isinstance(s, ast.Assign) and len(s.targets) == 1 and is_name(s.targets[0]):
            name = s.targets[0].id
            val = s.value
            if (isinstance(val, ast.Call) and is_name(val.func, 'sorted') and len(val.args) == 1 and not val.keywords
                    and isinstance(val.args[0], ast.ListComp)):
                lc = val.args[0]
                g = lc.generators[0]
                if (len(lc.generators) == 1 and is_name(lc.elt) and is_name(g.target) and lc.elt.id == g.target.id
                        and len(g.ifs) == 1 and not g.is_async and is_name(g.iter) and env.ty(g.iter.id) == 'names'):
                    inner = env.bind(g.target.id, 'str')
                    term = '(py_sorted (filter (fun %s => %s) %s))' % (v(g.target.id), cond_expr(g.ifs[0], inner), v(g.iter.id))
                    return '%slet %s := %s in\n%s' % (ind, v(name), term, self.block(rest, env.bind(name, 'names'), in_loop, ind))
                raise Unsupported('list comprehension ' + short(val))
            return '%slet %s := %s in\n%s' % (ind, v(name), str_expr(val, env), self.block(rest, env.bind(name, 'str'), in_loop, ind))
        if isinstance(s, ast.For) and not s.orelse and is_name(s.target) and is_name(s.iter):
            t = env.ty(s.iter.id)
            if t not in ('names', 'strlist'):
                raise Unsupported('loop over %s (a %s)' % (s.iter.id, t))
            inner = self.block(s.body, env.bind(s.target.id, 'str'), True, ind + '    ')
            return ('%svseq (for_each %s (fun %s =>\n%s))\n%s(\n%s)' %
                    (ind, v(s.iter.id), v(s.target.id), inner, ind, self.block(rest, env, in_loop, ind + '  ')))
        if isinstance(s, ast.If) and not s.orelse:
            tested = s.test.id if is_name(s.test) else None
            payload = self.raise_payload(s.body, env, tested)
            return ('%sif %s then VRaise %s else\n%s' % (ind, cond_expr(s.test, env), payload, self.block(rest, env, in_loop, ind)))
        raise Unsupported('statement ' + short(s))


def gen_validator(tree, name, params, types, kind):
    fn = core.find_def(tree, name)
    if fn is None:
        raise Unsupported('%s not found' % name)
    check_signature(fn, params)
    env = Env(dict(zip(params, types)))
    body = Validator(kind).block(body_of(fn), env, False, '  ')
    coq_ty = {'names': 'names', 'sinput': 'sinput', 'strlist': 'list str', 'str': 'str'}
    binders = ' '.join('(%s : %s)' % (v(p), coq_ty[t]) for p, t in zip(params, types) if t != 'str')
    return 'Definition gen_%s %s : vres :=\n%s.\n' % (name, binders, body)


# ------------------------------------------------------------------------------------------------
def gen_permitted(tree):
    name = 'get_permitted_functions'
    fn = core.find_def(tree, name)
    if fn is None:
        raise Unsupported('%s not found' % name)
    params = ['default_funcs', 'whitelist', 'blacklist', 'always_allowed']
    check_signature(fn, params)
    env = Env({'default_funcs': 'names', 'whitelist': 'wl', 'blacklist': 'names', 'always_allowed': 'names'})

    def branch(stmts, target):
        if len(stmts) == 1 and isinstance(stmts[0], ast.Assign) and len(stmts[0].targets) == 1 \
                and is_name(stmts[0].targets[0], target):
            return set_arg(stmts[0].value, env)
        if len(stmts) == 1 and isinstance(stmts[0], ast.If):
            return chain(stmts[0], target)
        raise Unsupported('branch ' + str([short(s) for s in stmts]))

    def chain(s, target):
        if not s.orelse:
            raise Unsupported('if without else assigning ' + target)
        return '(if %s then %s\n     else %s)' % (cond_expr(s.test, env), branch(s.body, target), branch(s.orelse, target))

    def block(stmts, ind):
        if not stmts:
            raise Unsupported('no return in get_permitted_functions')
        s, rest = stmts[0], stmts[1:]
        if isinstance(s, ast.If) and not s.orelse and len(s.body) == 1 and isinstance(s.body[0], ast.Raise):
            exc = s.body[0].exc
            if not (isinstance(exc, ast.Call) and is_name(exc.func, 'ValueError')):
                raise Unsupported('raise ' + short(s.body[0]))
            return '%sif %s then None else\n%s' % (ind, cond_expr(s.test, env), block(rest, ind))
        if isinstance(s, ast.If):
            # every branch assigns the same local
            first = s.body[0]
            if not (isinstance(first, ast.Assign) and len(first.targets) == 1 and is_name(first.targets[0])):
                raise Unsupported('statement ' + short(s))
            target = first.targets[0].id
            env.types[target] = 'names'
            return '%slet %s := %s in\n%s' % (ind, v(target), chain(s, target), block(rest, ind))
        if isinstance(s, ast.Return) and is_name(s.value) and env.ty(s.value.id) == 'names' and not rest:
            return '%sSome %s' % (ind, v(s.value.id))
        raise Unsupported('statement ' + short(s))

    body = block(body_of(fn), '  ')
    return ('Definition gen_get_permitted_functions (v_default_funcs : names) (v_whitelist : list welem) '
            '(v_blacklist v_always_allowed : names) : option names :=\n%s.\n' % body)


# ------------------------------------------------------------------------------------------------
def gen_post_eval(tree):
    fn = core.find_def(tree, 'MathMixin.post_eval_validation')
    if fn is None:
        raise Unsupported('MathMixin.post_eval_validation not found')
    check_signature(fn, ['self', 'expr', 'used_funcs'])
    calls = []
    for s in body_of(fn):
        if not (isinstance(s, ast.Expr) and isinstance(s.value, ast.Call) and is_name(s.value.func) and not s.value.keywords):
            raise Unsupported('statement in post_eval_validation: ' + short(s))
        c = s.value
        f, args = c.func.id, c.args
        if f == 'validate_forbidden_strings_not_used':
            ok = (len(args) == 3 and is_name(args[0], 'expr') and is_self_config(args[1], 'forbidden_strings')
                  and is_self_config(args[2], 'forbidden_message'))
            term = '(gen_validate_forbidden_strings_not_used v_expr cfg_forbidden_strings)'
        elif f == 'validate_required_functions_used':
            ok = len(args) == 2 and is_name(args[0], 'used_funcs') and is_self_config(args[1], 'required_functions')
            term = '(gen_validate_required_functions_used v_used_funcs cfg_required_functions)'
        elif f == 'validate_only_permitted_functions_used':
            ok = len(args) == 2 and is_name(args[0], 'used_funcs') and is_self_attr(args[1], 'permitted_functions')
            term = '(gen_validate_only_permitted_functions_used v_used_funcs self_permitted_functions)'
        else:
            raise Unsupported('call to %s in post_eval_validation' % f)
        if not ok:
            raise Unsupported('arguments of %s: %s' % (f, short(c)))
        calls.append(term)
    body = 'VPass'
    for t in reversed(calls):
        body = '(vseq %s\n   %s)' % (t, body)
    return ('Definition gen_post_eval_validation (v_expr : sinput) (v_used_funcs : names) (cfg_forbidden_strings : list str)\n'
            '           (cfg_required_functions self_permitted_functions : names) : vres :=\n  %s.\n' % body)


def gen_gate(tree):
    fn = core.find_def(tree, 'MathMixin.check_math_response')
    if fn is None:
        raise Unsupported('MathMixin.check_math_response not found')
    b = body_of(fn)
    if len(b) != 3:
        raise Unsupported('check_math_response has %d statements' % len(b))
    if not same([b[0]], 'result, used_funcs = self.raw_check(answer, student_input, **kwargs)'):
        raise Unsupported('first statement of check_math_response: ' + short(b[0]))
    if not same([b[2]], 'return result'):
        raise Unsupported('last statement of check_math_response: ' + short(b[2]))
    s = b[1]
    if not (isinstance(s, ast.If) and not s.orelse and same(s.body, 'self.post_eval_validation(student_input, used_funcs)')):
        raise Unsupported('gate of check_math_response: ' + short(s))

    def is_ok(e):
        return (isinstance(e, ast.Subscript) and is_name(e.value, 'result') and isinstance(e.slice, ast.Constant)
                and e.slice.value == 'ok')

    def cond(e):
        if isinstance(e, ast.BoolOp):
            return '(' + (' && ' if isinstance(e.op, ast.And) else ' || ').join(cond(x) for x in e.values) + ')'
        if isinstance(e, ast.Compare) and len(e.ops) == 1 and is_ok(e.left) and isinstance(e.comparators[0], ast.Constant):
            c, op = e.comparators[0].value, e.ops[0]
            if c is True and isinstance(op, (ast.Is, ast.Eq)):
                return '(okv_eqb v_ok OkTrue)'
            if c is False and isinstance(op, (ast.Is, ast.Eq)):
                return '(okv_eqb v_ok OkFalse)'
            if c == 'partial' and isinstance(op, ast.Eq):
                return '(okv_eqb v_ok OkPartial)'
            if c is False and isinstance(op, (ast.IsNot, ast.NotEq)):
                return '(negb (okv_eqb v_ok OkFalse))'
        raise Unsupported('gate condition ' + short(e))
    return 'Definition gen_runs_post_validation (v_ok : okv) : bool :=\n  %s.\n' % cond(s.test)


def gen_regexp(tree):
    fn = core.find_def(tree, 'numbered_vars_regexp')
    if fn is None:
        raise Unsupported('numbered_vars_regexp not found')
    check_signature(fn, ['numbered_vars'])
    b = body_of(fn)
    if len(b) != 3:
        raise Unsupported('numbered_vars_regexp has %d statements' % len(b))
    s0 = b[0]
    if not (isinstance(s0, ast.Assign) and is_name(s0.targets[0], 'head_list') and isinstance(s0.value, ast.Call)
            and isinstance(s0.value.func, ast.Attribute) and s0.value.func.attr == 'join'
            and isinstance(s0.value.func.value, ast.Constant) and isinstance(s0.value.func.value.value, str)
            and same([ast.Expr(s0.value.args[0])], 'map(re.escape, numbered_vars)') and len(s0.value.args) == 1):
        raise Unsupported('head_list: ' + short(s0))
    joiner = s0.value.func.value.value
    s1 = b[1]
    if not (isinstance(s1, ast.Assign) and is_name(s1.targets[0], 'regexp')):
        raise Unsupported('regexp: ' + short(s1))
    parts, heads = [], 0

    def walk(e):
        nonlocal heads
        if isinstance(e, ast.BinOp) and isinstance(e.op, ast.Add):
            walk(e.left)
            walk(e.right)
        elif isinstance(e, ast.Constant) and isinstance(e.value, str):
            parts.append(e.value)
        elif is_name(e, 'head_list'):
            heads += 1
            parts.append(None)
        else:
            raise Unsupported('regexp piece ' + short(e))
    walk(s1.value)
    if heads != 1 or parts[0] is None or parts[-1] is None:
        raise Unsupported('regexp must be literal + head_list + literal')
    # adjacent literals are one literal
    merged = []
    for p in parts:
        if p is not None and merged and merged[-1] is not None:
            merged[-1] += p
        else:
            merged.append(p)
    if not same([b[2]], 'return re.compile(regexp)'):
        raise Unsupported('return of numbered_vars_regexp: ' + short(b[2]))
    lits = [p for p in merged if p is not None]
    return ('Definition gen_numbered_regexp : numbered_re :=\n  mkNumRe %s\n    [ %s ].\n' %
            (strlit(joiner), ';\n      '.join(strlit(p) for p in lits)))


# ------------------------------------------------------------------------------------------------
# the sampling loops
# ------------------------------------------------------------------------------------------------
INSTRUCTOR_PART = '''
for var in self.config['instructor_vars']:
    if var in var_samples[0]:
        var_blacklist.append(var)
'''
SCRUB = '''
for key in var_blacklist:
    del varlist[key]
'''
GUARD_VARIABLE = '''
if student_input['summation_variable'] in var_blacklist:
    msg = 'Summation variable {} conflicts with another previously-defined variable.'
    raise SummationError(msg.format(student_input['summation_variable']))
'''


def names_in(node, ident):
    return [n for n in ast.walk(node) if isinstance(n, ast.Name) and n.id == ident]


def gen_loop(tree, qual, prefix, author_marker, student_marker):
    """author_marker / student_marker: predicates on a Call node"""
    fn = core.find_def(tree, qual)
    if fn is None:
        raise Unsupported('%s not found' % qual)
    body = body_of(fn)
    loops = [s for s in body if isinstance(s, ast.For)
             and same([ast.Expr(s.iter)], "range(self.config['samples'])") and is_name(s.target, 'i')]
    if len(loops) != 1:
        raise Unsupported('%s: expected exactly one loop over range(self.config["samples"])' % qual)
    loop = loops[0]
    pre = body[:body.index(loop)]
    post = body[body.index(loop) + 1:]

    # ---- var_blacklist before the loop
    parts = []
    saw_init = False
    sibling_list = None
    for s in pre:
        if same([s], 'var_blacklist = []'):
            if saw_init:
                raise Unsupported('var_blacklist initialised twice')
            saw_init = True
        elif same([s], INSTRUCTOR_PART):
            if not saw_init:
                raise Unsupported('var_blacklist used before initialisation')
            parts.append('BInstructorInSample')
        elif same([s], 'sibling_vars = [key for key in sibling_formulas]'):
            sibling_list = 'sibling_vars'
        elif same([s], 'var_blacklist += sibling_vars'):
            if not saw_init or sibling_list != 'sibling_vars':
                raise Unsupported('var_blacklist += sibling_vars out of order')
            parts.append('BSiblings')
        elif same([s], 'varlist = {}'):
            pass
        elif names_in(s, 'var_blacklist') or names_in(s, 'varlist') or names_in(s, 'sibling_vars'):
            raise Unsupported('%s: unrecognised statement before the loop: %s' % (qual, short(s)))
    for s in post:
        if names_in(s, 'var_blacklist') or names_in(s, 'varlist'):
            raise Unsupported('%s: varlist used after the loop: %s' % (qual, short(s)))
    if not saw_init:
        raise Unsupported('%s: var_blacklist is never initialised' % qual)

    # ---- events inside the loop
    events = []

    def allowed_varlist_use(stmt):
        """every occurrence of the name varlist in stmt must be one of the recognised uses"""
        ok = set()
        for n in ast.walk(stmt):
            if isinstance(n, ast.keyword) and n.arg == 'varscope' and is_name(n.value, 'varlist'):
                ok.add(id(n.value))
            if isinstance(n, ast.Call) and is_self_attr(n.func, 'log_eval_info'):
                for a in n.args:
                    if is_name(a, 'varlist'):
                        ok.add(id(a))
            if isinstance(n, ast.FunctionDef) and n.name == 'scoped_eval':
                names = [a.arg for a in n.args.args]
                if 'variables' in names:
                    d = n.args.defaults[names.index('variables') - (len(names) - len(n.args.defaults))]
                    if is_name(d, 'varlist'):
                        ok.add(id(d))
        return all(id(n) in ok for n in names_in(stmt, 'varlist'))

    def visit(stmts):
        for s in stmts:
            if same([s], 'varlist.update(var_samples[i])'):
                events.append('EvRestore' if 'EvStudentEval' in events else 'EvUpdate')
                continue
            if same([s], SCRUB):
                events.append('EvScrub')
                continue
            if same([s], GUARD_VARIABLE):
                if 'EvScrub' not in events or 'EvStudentEval' in events:
                    raise Unsupported('%s: the summation-variable guard must sit between scrub and student evaluation' % qual)
                events.append('EvGuardVariable')
                continue
            if same([s], 'funclist.update(func_samples[i])'):
                continue
            calls = [n for n in ast.walk(s) if isinstance(n, ast.Call)]
            a = [c for c in calls if author_marker(c)]
            st = [c for c in calls if student_marker(c)]
            if isinstance(s, ast.FunctionDef):
                if s.name != 'scoped_eval' or not allowed_varlist_use(s):
                    raise Unsupported('%s: nested function %s' % (qual, s.name))
                if not same(s.body, 'return evaluator(expression, variables, functions, suffixes, max_array_dim,\n'
                                    "                 allow_inf=self.config['allow_inf'])"):
                    raise Unsupported('%s: body of scoped_eval' % qual)
                continue
            if a and st:
                raise Unsupported('%s: author and student evaluation in one statement' % qual)
            if a or st:
                if isinstance(s, ast.Try):
                    if st or s.orelse or s.finalbody or [c for h in s.handlers for c in ast.walk(h) if isinstance(c, ast.Call)
                                                         and (author_marker(c) or student_marker(c))]:
                        raise Unsupported('%s: try statement %s' % (qual, short(s)))
                    for h in s.handlers:
                        if names_in(h, 'varlist'):
                            raise Unsupported('%s: handler touches varlist' % qual)
                    visit(s.body)
                    continue
                if not isinstance(s, (ast.Assign, ast.Expr)) or not allowed_varlist_use(s):
                    raise Unsupported('%s: evaluation statement %s' % (qual, short(s)))
                events.append('EvAuthorEval' if a else 'EvStudentEval')
                continue
            if isinstance(s, ast.If) and not s.orelse and same([ast.Expr(s.test)], "self.config['debug']"):
                visit(s.body)
                continue
            if isinstance(s, ast.Expr) and isinstance(s.value, ast.Constant):
                continue
            if not allowed_varlist_use(s) or names_in(s, 'var_blacklist') or names_in(s, 'var_samples'):
                raise Unsupported('%s: unrecognised use of the scope in the loop: %s' % (qual, short(s)))
            if isinstance(s, (ast.For, ast.While, ast.With, ast.Try)):
                raise Unsupported('%s: compound statement in the loop: %s' % (qual, short(s)))
    visit(loop.body)
    if loop.orelse:
        raise Unsupported('%s: loop has an else clause' % qual)
    return ('Definition gen_%s_loop : list loop_event := [%s].\n'
            'Definition gen_%s_blacklist : list blacklist_part := [%s].\n' %
            (prefix, '; '.join(events), prefix, '; '.join(parts)))


def subscripts_of(call, ident):
    """does some argument of the call read ident[...] ?"""
    for a in list(call.args) + [k.value for k in call.keywords]:
        for n in ast.walk(a):
            if isinstance(n, ast.Subscript) and is_name(n.value, ident):
                return True
    return False


def formula_author(c):
    return is_self_attr(c.func, 'eval_and_validate_comparer_params')


def formula_student(c):
    return is_name(c.func, 'scoped_eval') and len(c.args) == 1 and is_name(c.args[0], 'student_input') and not c.keywords


def summation_author(method):
    return lambda c: is_self_attr(c.func, method) and subscripts_of(c, 'answer')


def summation_student(method):
    return lambda c: is_self_attr(c.func, method) and subscripts_of(c, 'student_input')


# ------------------------------------------------------------------------------------------------
def generate():
    helpers = ast.parse(core.repo_source(HELPERS))
    formula = ast.parse(core.repo_source(FORMULA))
    integral = ast.parse(core.repo_source(INTEGRAL))
    out = ['(* GENERATED by translate/restrict.py from %s, %s, %s -- do not edit *)' % (HELPERS, FORMULA, INTEGRAL),
           'From Coq Require Import ZArith List Bool.',
           'From Verif.Model Require Import Result Lexer RestrictBase.',
           'Import ListNotations.',
           'Local Open Scope Z_scope.', '']
    out.append(gen_permitted(helpers))
    out.append(gen_validator(helpers, 'validate_forbidden_strings_not_used', ['expr', 'forbidden_strings', 'forbidden_msg'],
                             ['sinput', 'strlist', 'str'], 'forbidden'))
    out.append(gen_validator(helpers, 'validate_only_permitted_functions_used', ['used_funcs', 'permitted_functions'],
                             ['names', 'names'], 'permitted'))
    out.append(gen_validator(helpers, 'validate_required_functions_used', ['used_funcs', 'required_funcs'],
                             ['names', 'names'], 'required'))
    out.append(gen_post_eval(helpers))
    out.append(gen_gate(helpers))
    out.append(gen_regexp(helpers))
    out.append(gen_loop(formula, 'FormulaGrader.gen_evaluations', 'formula', formula_author, formula_student))
    out.append(gen_loop(integral, 'SumGrader.gen_evaluations', 'sum',
                        summation_author('evaluate_sum'), summation_student('evaluate_sum')))
    out.append(gen_loop(integral, 'IntegralGrader.gen_evaluations', 'integral',
                        summation_author('evaluate_int'), summation_student('evaluate_int')))
    return '\n'.join(out)


if __name__ == '__main__':
    print(generate())
