"""sampler.py -- regenerate coq/Gen/Sampler.v from mitxgraders/sampling.py and mitxgraders/matrixsampling.py
(translator A for C12).  Fail-closed: anything outside the small subset handled here raises pyq.Unsupported and
the check reports the obligations as broken.

Translated fragments
  RealInterval.__init__ / IntegerRange.__init__   the start/stop swap                     -> gen_*_init
  RealInterval.gen_sample                         start + (stop - start) * random_sample() -> gen_real_interval_gen
  IntegerRange.gen_sample                         the (low, high) handed to randint        -> gen_integer_range_call
  RandomFunction.gen_sample                       A, complexphases, B, C formulas; scaling -> gen_rf_*
  SquareMatrices.__init__                         the exclusion rules                      -> gen_sqm_init
  SquareMatrices.apply_symmetry                   symmetry + traceless steps               -> gen_sq_apply_symmetry
  GeneralMatrices.apply_symmetry                  triangular step                          -> gen_tri_apply
The matrix vocabulary (mT, mconj, madd, ..., symm, detopt, triopt) is that of Verif.Model.SamplerMat.
"""
import ast
from harness import core
from translate import pyq
from translate.pyq import Unsupported

SYMM = {None: 'SNone', 'diagonal': 'SDiag', 'symmetric': 'SSym', 'antisymmetric': 'SAnti',
        'hermitian': 'SHerm', 'antihermitian': 'SAHerm'}
DET = {None: 'DNone', 0: 'DZero', 1: 'DOne'}
TRI = {None: 'TNone', 'upper': 'TUpper', 'lower': 'TLower'}


def cfg_key(e):
    """self.config['k'] -> 'k' (else None)"""
    if (isinstance(e, ast.Subscript) and isinstance(e.value, ast.Attribute) and e.value.attr == 'config'
            and isinstance(e.value.value, ast.Name) and e.value.value.id == 'self'
            and isinstance(e.slice, ast.Constant) and isinstance(e.slice.value, str)):
        return e.slice.value
    return None


def is_doc(s):
    return isinstance(s, ast.Expr) and isinstance(s.value, ast.Constant) and isinstance(s.value.value, str)


def is_super_init(s, cls):
    """super(Cls, self).__init__(config, **kwargs)"""
    if not (isinstance(s, ast.Expr) and isinstance(s.value, ast.Call)):
        return False
    f = s.value.func
    return (isinstance(f, ast.Attribute) and f.attr == '__init__' and isinstance(f.value, ast.Call)
            and isinstance(f.value.func, ast.Name) and f.value.func.id == 'super'
            and [getattr(a, 'id', None) for a in f.value.args] == [cls, 'self'])


def body_after_super(fn, cls):
    stmts = [s for s in fn.body if not is_doc(s)]
    if not stmts or not is_super_init(stmts[0], cls):
        raise Unsupported('%s.__init__ does not start with super(%s, self).__init__' % (cls, cls))
    return stmts[1:]


def np_call(e, *path):
    """e is a call to np.<path>; returns (args, keywords) or None"""
    if not isinstance(e, ast.Call):
        return None
    f = e.func
    names = []
    while isinstance(f, ast.Attribute):
        names.append(f.attr)
        f = f.value
    if not (isinstance(f, ast.Name) and f.id == 'np'):
        return None
    if list(reversed(names)) != list(path):
        return None
    return e.args, e.keywords


# ------------------------------------------------------------------------------------------------
# the swap in RealInterval.__init__ / IntegerRange.__init__
# ------------------------------------------------------------------------------------------------
CMPQ = {ast.Gt: lambda a, b: '(Qltb %s %s)' % (b, a), ast.Lt: lambda a, b: '(Qltb %s %s)' % (a, b),
        ast.GtE: lambda a, b: '(Qle_bool %s %s)' % (b, a), ast.LtE: lambda a, b: '(Qle_bool %s %s)' % (a, b)}
CMPZ = {ast.Gt: lambda a, b: '(%s <? %s)%%Z' % (b, a), ast.Lt: lambda a, b: '(%s <? %s)%%Z' % (a, b),
        ast.GtE: lambda a, b: '(%s <=? %s)%%Z' % (b, a), ast.LtE: lambda a, b: '(%s <=? %s)%%Z' % (a, b)}


def translate_swap_init(tree, cls, name, ty):
    fn = core.find_def(tree, cls + '.__init__')
    if fn is None:
        raise Unsupported('%s.__init__ not found' % cls)
    stmts = body_after_super(fn, cls)
    if len(stmts) != 1 or not isinstance(stmts[0], ast.If) or stmts[0].orelse:
        raise Unsupported('%s.__init__: expected a single if after super().__init__' % cls)
    node = stmts[0]
    t = node.test
    if not (isinstance(t, ast.Compare) and len(t.ops) == 1):
        raise Unsupported('%s.__init__: test' % cls)
    a, b = cfg_key(t.left), cfg_key(t.comparators[0])
    table = CMPQ if ty == 'Q' else CMPZ
    if a is None or b is None or type(t.ops[0]) not in table:
        raise Unsupported('%s.__init__: comparison' % cls)
    if len(node.body) != 1 or not isinstance(node.body[0], ast.Assign):
        raise Unsupported('%s.__init__: body' % cls)
    asg = node.body[0]
    if len(asg.targets) != 1 or not isinstance(asg.targets[0], ast.Tuple) or not isinstance(asg.value, ast.Tuple):
        raise Unsupported('%s.__init__: expected a tuple swap' % cls)
    tg = [cfg_key(x) for x in asg.targets[0].elts]
    vs = [cfg_key(x) for x in asg.value.elts]
    if tg != ['start', 'stop'] or None in vs or len(vs) != 2:
        raise Unsupported('%s.__init__: swap targets %r' % (cls, tg))
    cond = table[type(t.ops[0])]('cfg_' + a, 'cfg_' + b)
    return ('Definition %s (cfg_start cfg_stop : %s) : %s * %s :=\n  if %s then (cfg_%s, cfg_%s) else (cfg_start, cfg_stop).\n'
            % (name, ty, ty, ty, cond, vs[0], vs[1]))


# ------------------------------------------------------------------------------------------------
# scalar formulas (Q) with PRNG calls replaced by the parameter u
# ------------------------------------------------------------------------------------------------
class ScalarTr(pyq.Tr):
    """pyq expressions + np.random.random_sample()/np.random.rand(...) -> v_u, np.pi -> pi_f, k*1j -> k"""
    def __init__(self):
        super().__init__()
        self.used_u = False
        self.imag = False

    def num(self, e):
        if np_call(e, 'random', 'random_sample') is not None or np_call(e, 'random', 'rand') is not None:
            self.used_u = True
            return 'v_u'
        if isinstance(e, ast.Attribute) and isinstance(e.value, ast.Name) and e.value.id == 'np' and e.attr == 'pi':
            return 'pi_f'
        if isinstance(e, ast.Constant) and isinstance(e.value, complex):
            if e.value.real != 0:
                raise Unsupported('complex constant with a real part')
            self.imag = True
            return pyq.qconst(int(e.value.imag) if e.value.imag == int(e.value.imag) else e.value.imag)
        return super().num(e)


def translate_real_interval_gen(tree):
    fn = core.find_def(tree, 'RealInterval.gen_sample')
    if fn is None:
        raise Unsupported('RealInterval.gen_sample not found')
    stmts = [s for s in fn.body if not is_doc(s)]
    env = {}
    tr = ScalarTr()
    for s in stmts[:-1]:
        if not (isinstance(s, ast.Assign) and len(s.targets) == 1):
            raise Unsupported('RealInterval.gen_sample: statement')
        tgt, val = s.targets[0], s.value
        if isinstance(tgt, ast.Tuple) and isinstance(val, ast.Tuple) and len(tgt.elts) == len(val.elts):
            pairs = list(zip(tgt.elts, val.elts))
        else:
            pairs = [(tgt, val)]
        for t, v in pairs:
            if not isinstance(t, ast.Name):
                raise Unsupported('RealInterval.gen_sample: target')
            env[t.id] = tr.num(v)
    if not isinstance(stmts[-1], ast.Return):
        raise Unsupported('RealInterval.gen_sample: no return')
    body = tr.num(stmts[-1].value)
    if sorted(tr.config_keys) != ['start', 'stop'] or not tr.used_u:
        raise Unsupported('RealInterval.gen_sample: reads %r' % tr.config_keys)
    lets = ''.join('  let v_%s := %s in\n' % (k, v) for k, v in env.items())
    return 'Definition gen_real_interval_gen (cfg_start cfg_stop v_u : Q) : Q :=\n%s  %s.\n' % (lets, body)


def zexpr(e):
    if isinstance(e, ast.Constant) and isinstance(e.value, int) and not isinstance(e.value, bool):
        return '(%d)%%Z' % e.value
    k = cfg_key(e)
    if k is not None:
        return 'cfg_' + k
    if isinstance(e, ast.BinOp) and type(e.op) in (ast.Add, ast.Sub, ast.Mult):
        op = {ast.Add: '+', ast.Sub: '-', ast.Mult: '*'}[type(e.op)]
        return '(%s %s %s)%%Z' % (zexpr(e.left), op, zexpr(e.right))
    raise Unsupported('integer expression ' + ast.dump(e))


def translate_integer_range_call(tree):
    fn = core.find_def(tree, 'IntegerRange.gen_sample')
    if fn is None:
        raise Unsupported('IntegerRange.gen_sample not found')
    stmts = [s for s in fn.body if not is_doc(s)]
    if len(stmts) != 1 or not isinstance(stmts[0], ast.Return):
        raise Unsupported('IntegerRange.gen_sample: expected a single return')
    call = np_call(stmts[0].value, 'random', 'randint')
    if call is None:
        raise Unsupported('IntegerRange.gen_sample: not a call to np.random.randint')
    args, kws = call
    kw = {k.arg: k.value for k in kws}
    if args or sorted(kw) != ['high', 'low']:
        raise Unsupported('IntegerRange.gen_sample: randint arguments')
    return ('Definition gen_integer_range_call (cfg_start cfg_stop : Z) : Z * Z :=\n  (%s, %s).\n'
            % (zexpr(kw['low']), zexpr(kw['high'])))


def translate_random_function(tree):
    fn = core.find_def(tree, 'RandomFunction.gen_sample')
    if fn is None:
        raise Unsupported('RandomFunction.gen_sample not found')
    out = []
    seen = {}
    order = []          # PRNG draws in program order
    inner = None
    for s in fn.body:
        if isinstance(s, ast.FunctionDef):
            inner = s
        if isinstance(s, ast.If):
            # if self.config['complex']: complexphases = rand * pi * 2j ; A = A * np.exp(complexphases)
            if cfg_key(s.test) != 'complex' or s.orelse:
                raise Unsupported('RandomFunction.gen_sample: unexpected if')
            for t in s.body:
                if isinstance(t, ast.Assign) and isinstance(t.targets[0], ast.Name) and t.targets[0].id == 'complexphases':
                    tr = ScalarTr()
                    seen['phase_arg'] = tr.num(t.value)
                    if not (tr.used_u and tr.imag):
                        raise Unsupported('complexphases is not rand * ... * (imaginary constant)')
                    order.append('P')
                elif (isinstance(t, ast.Assign) and isinstance(t.targets[0], ast.Name) and t.targets[0].id == 'A'
                      and ast.dump(t.value) == ast.dump(ast.parse('A * np.exp(complexphases)', mode='eval').body)):
                    seen['cmul'] = True
                else:
                    raise Unsupported('RandomFunction.gen_sample: statement in the complex branch')
        if isinstance(s, ast.Assign) and len(s.targets) == 1 and isinstance(s.targets[0], ast.Name) \
                and s.targets[0].id in ('A', 'B', 'C'):
            tr = ScalarTr()
            txt = tr.num(s.value)
            if not tr.used_u or tr.imag:
                raise Unsupported('RandomFunction.gen_sample: %s is not a function of one PRNG draw' % s.targets[0].id)
            seen[s.targets[0].id] = txt
            order.append(s.targets[0].id)
    if order != ['A', 'P', 'B', 'C'] or 'cmul' not in seen:
        raise Unsupported('RandomFunction.gen_sample: draws in order %r' % order)
    out.append('Definition gen_rf_amp (v_u : Q) : Q :=\n  %s.\n' % seen['A'])
    out.append('Definition gen_rf_phase_arg (v_u : Q) : Q :=\n  %s.\n' % seen['phase_arg'])
    out.append('Definition gen_rf_freq (v_u : Q) : Q :=\n  %s.\n' % seen['B'])
    out.append('Definition gen_rf_shift (v_u : Q) : Q :=\n  %s.\n' % seen['C'])
    # the scaling inside random_function: fullsum = fullsum * amplitude / num_terms ; fullsum += center
    if inner is None:
        raise Unsupported('RandomFunction.gen_sample: inner function not found')
    scale = shift = None
    arg = None
    # closure variables of the inner function that are plain copies of configuration keys (x = self.config['x'])
    closure = {}
    for s in fn.body:
        if isinstance(s, ast.Assign) and len(s.targets) == 1 and isinstance(s.targets[0], ast.Name) \
                and cfg_key(s.value) is not None:
            closure[s.targets[0].id] = cfg_key(s.value)
    scale_params = None
    for s in inner.body:
        if isinstance(s, ast.Assign) and isinstance(s.targets[0], ast.Name) and s.targets[0].id == 'fullsum' \
                and not isinstance(s.value, ast.Call):
            tr = pyq.Tr()
            scale = tr.num(s.value)
            names = sorted({n.id for n in ast.walk(s.value) if isinstance(n, ast.Name)} - {'self', 'fullsum'})
            for n in names:
                if closure.get(n) != n:
                    raise Unsupported('random_function: scaling uses %r, which is not a copy of config[%r]' % (n, n))
            scale_params = (sorted(tr.config_keys), names)
        if isinstance(s, ast.AugAssign) and isinstance(s.target, ast.Name) and s.target.id == 'fullsum':
            if not isinstance(s.op, ast.Add) or cfg_key(s.value) != 'center':
                raise Unsupported('random_function: translation step')
            shift = True
        if isinstance(s, ast.Assign) and isinstance(s.targets[0], ast.Name) and s.targets[0].id == 'output':
            want = ast.parse('A * np.sin(B * xarray + C)', mode='eval').body
            if ast.dump(s.value) != ast.dump(want):
                raise Unsupported('random_function: output is not A * np.sin(B * xarray + C)')
            arg = True
    if scale is None or not shift or not arg:
        raise Unsupported('random_function: scaling / translation / sinusoid statements not found')
    # the generated definition always takes (fullsum, amplitude, num_terms, input_dim); anything else is outside the subset
    if not (set(scale_params[0]) <= {'amplitude', 'num_terms', 'input_dim'} and set(scale_params[1]) <= {'num_terms', 'input_dim'}):
        raise Unsupported('random_function: scaling reads %r / %r' % scale_params)
    for n in ('num_terms', 'input_dim'):
        scale = scale.replace('v_' + n, 'cfg_' + n)
    out.append('Definition gen_rf_scale (v_fullsum cfg_amplitude cfg_num_terms cfg_input_dim : Q) : Q :=\n  %s.\n' % scale)
    return '\n'.join(out)


# ------------------------------------------------------------------------------------------------
# SquareMatrices.__init__ : decision tree over the configuration
# ------------------------------------------------------------------------------------------------
ENUMS = {'symmetry': ('sym', 'symm_eqb', SYMM), 'determinant': ('det', 'detopt_eqb', DET),
         'triangular': ('tri', 'triopt_eqb', TRI)}
BOOLS = {'traceless': 'traceless', 'complex': 'cplx'}


def const_of(e):
    if isinstance(e, ast.Constant):
        return e.value
    raise Unsupported('expected a literal, got ' + ast.dump(e))


def cfg_cond(e):
    """boolean condition over self.config[...]"""
    if isinstance(e, ast.BoolOp):
        j = ' && ' if isinstance(e.op, ast.And) else ' || '
        return '(' + j.join(cfg_cond(v) for v in e.values) + ')'
    if isinstance(e, ast.UnaryOp) and isinstance(e.op, ast.Not):
        return '(negb %s)' % cfg_cond(e.operand)
    k = cfg_key(e)
    if k is not None:
        if k in BOOLS:
            return BOOLS[k]
        raise Unsupported('truth value of config[%r]' % k)
    if isinstance(e, ast.Compare) and len(e.ops) == 1:
        op, left, right = e.ops[0], e.left, e.comparators[0]
        k = cfg_key(left)
        if k in ENUMS:
            var, eqb, table = ENUMS[k]
            if isinstance(op, ast.Eq):
                v = const_of(right)
                if isinstance(v, bool) or v not in table:
                    raise Unsupported('config[%r] == %r' % (k, v))
                return '(%s %s %s)' % (eqb, var, table[v])
            if isinstance(op, ast.In) and isinstance(right, (ast.List, ast.Tuple)):
                vs = [const_of(x) for x in right.elts]
                if any(isinstance(v, bool) or v not in table for v in vs) or not vs:
                    raise Unsupported('config[%r] in %r' % (k, vs))
                return '(' + ' || '.join('%s %s %s' % (eqb, var, table[v]) for v in vs) + ')'
            raise Unsupported('comparison on config[%r]' % k)
        if k == 'dimension' and isinstance(op, ast.Eq):
            v = const_of(right)
            if not isinstance(v, int) or isinstance(v, bool):
                raise Unsupported('dimension == %r' % (v,))
            return '(dim =? %d)%%Z' % v
        if (isinstance(left, ast.BinOp) and isinstance(left.op, ast.Mod) and cfg_key(left.left) == 'dimension'
                and isinstance(op, ast.Eq)):
            m, v = const_of(left.right), const_of(right)
            if not all(isinstance(x, int) and not isinstance(x, bool) for x in (m, v)) or m <= 0:
                raise Unsupported('dimension %% %r == %r' % (m, v))
            return '(dim mod %d =? %d)%%Z' % (m, v)
    raise Unsupported('condition ' + ast.dump(e))


def init_block(stmts, indent):
    if not stmts:
        return indent + 'Some cplx'
    s, rest = stmts[0], stmts[1:]
    if is_doc(s) or isinstance(s, ast.Pass):
        return init_block(rest, indent)
    if isinstance(s, ast.Raise):
        exc = s.exc
        if isinstance(exc, ast.Call) and isinstance(exc.func, ast.Name) and exc.func.id == 'ConfigError':
            return indent + 'None'
        raise Unsupported('raise of something other than ConfigError')
    if isinstance(s, ast.Assign):
        if len(s.targets) == 1 and cfg_key(s.targets[0]) == 'complex' and isinstance(s.value, ast.Constant) \
                and isinstance(s.value.value, bool):
            return '%slet cplx := %s in\n%s' % (indent, 'true' if s.value.value else 'false', init_block(rest, indent))
        raise Unsupported('assignment in __init__: ' + ast.dump(s.targets[0]))
    if isinstance(s, ast.If):
        return ('%sif %s then\n%s\n%selse\n%s' % (indent, cfg_cond(s.test), init_block(s.body + rest, indent + '  '),
                                                   indent, init_block(s.orelse + rest, indent + '  ')))
    raise Unsupported('statement in __init__: ' + type(s).__name__)


def translate_sqm_init(tree):
    fn = core.find_def(tree, 'SquareMatrices.__init__')
    if fn is None:
        raise Unsupported('SquareMatrices.__init__ not found')
    stmts = body_after_super(fn, 'SquareMatrices')
    return ('Definition gen_sqm_init (sym : symm) (traceless : bool) (det : detopt) (cplx : bool) (dim : Z) : option bool :=\n'
            + init_block(stmts, '  ') + '.\n')


# ------------------------------------------------------------------------------------------------
# apply_symmetry: typed matrix expressions
# ------------------------------------------------------------------------------------------------
class MatTr:
    def __init__(self, env):
        self.env = dict(env)            # python name -> (type, gallina text)

    def expr(self, e):
        if isinstance(e, ast.Name):
            if e.id not in self.env:
                raise Unsupported('unknown name ' + e.id)
            return self.env[e.id]
        if cfg_key(e) == 'dimension':
            return ('nat', 'cfg_dim')
        if isinstance(e, ast.Call):
            f = e.func
            if isinstance(f, ast.Attribute) and f.attr == 'transpose' and not e.args and not e.keywords:
                t, x = self.expr(f.value)
                if t != 'mat':
                    raise Unsupported('transpose of a non-matrix')
                return ('mat', '(mT %s)' % x)
            for path, arity in ((('diag',), 1), (('conj',), 1), (('trace',), 1), (('eye',), 1), (('triu',), 1), (('tril',), 1)):
                c = np_call(e, *path)
                if c is None:
                    continue
                args, kws = c
                if kws or len(args) != arity:
                    raise Unsupported('np.%s arguments' % path[0])
                name = path[0]
                if name == 'diag':
                    inner = np_call(args[0], 'diag')
                    if inner is None or inner[1] or len(inner[0]) != 1:
                        raise Unsupported('np.diag not applied to np.diag(x)')
                    t, x = self.expr(inner[0][0])
                    if t != 'mat':
                        raise Unsupported('np.diag(np.diag(x)) of a non-matrix')
                    return ('mat', '(mdiagonal %s)' % x)
                t, x = self.expr(args[0])
                if name == 'conj' and t == 'mat':
                    return ('mat', '(mconj %s)' % x)
                if name == 'trace' and t == 'mat':
                    return ('cplx', '(mtrace cfg_dim %s)' % x)
                if name == 'eye' and t == 'nat' and x in ('cfg_dim', 'v_dim'):
                    return ('mat', 'meye')
                if name == 'triu' and t == 'mat':
                    return ('mat', '(mtriu %s)' % x)
                if name == 'tril' and t == 'mat':
                    return ('mat', '(mtril %s)' % x)
                raise Unsupported('np.%s on %s' % (name, t))
            raise Unsupported('call ' + ast.dump(e.func))
        if isinstance(e, ast.BinOp):
            (ta, a), (tb, b) = self.expr(e.left), self.expr(e.right)
            if isinstance(e.op, ast.Add) and ta == tb == 'mat':
                return ('mat', '(madd %s %s)' % (a, b))
            if isinstance(e.op, ast.Sub) and ta == tb == 'mat':
                return ('mat', '(msub %s %s)' % (a, b))
            if isinstance(e.op, ast.Div) and ta == 'cplx' and tb == 'nat':
                return ('cplx', '(cdiv %s (cofQ (inject_Z (Z.of_nat %s))))' % (a, b))
            if isinstance(e.op, ast.Mult) and ta == 'cplx' and tb == 'mat':
                return ('mat', '(mscale %s %s)' % (a, b))
            raise Unsupported('operator %s on %s, %s' % (type(e.op).__name__, ta, tb))
        raise Unsupported('matrix expression ' + type(e).__name__)


def single_assign(s):
    if isinstance(s, ast.Assign) and len(s.targets) == 1 and isinstance(s.targets[0], ast.Name):
        return s.targets[0].id, s.value
    return None


def if_chain_assign(node, tr):
    """if c1: x = e1 elif c2: x = e2 ... else: x = en   ->  (x, 'if c1 then e1 else ...')"""
    conds = []
    cur = node
    var = None
    while True:
        if len(cur.body) != 1 or single_assign(cur.body[0]) is None:
            return None
        v, e = single_assign(cur.body[0])
        if var not in (None, v):
            return None
        var = v
        conds.append((cfg_cond(cur.test), e))
        if len(cur.orelse) == 1 and isinstance(cur.orelse[0], ast.If):
            cur = cur.orelse[0]
            continue
        if len(cur.orelse) == 1 and single_assign(cur.orelse[0]) is not None and single_assign(cur.orelse[0])[0] == var:
            last = single_assign(cur.orelse[0])[1]
            break
        return None
    txt = ''
    for c, e in conds:
        t, x = tr.expr(e)
        if t != 'mat':
            raise Unsupported('branch value is not a matrix')
        txt += 'if %s then %s\n    else ' % (c, x)
    t, x = tr.expr(last)
    if t != 'mat':
        raise Unsupported('branch value is not a matrix')
    return var, txt + x


def translate_sq_apply_symmetry(tree):
    fn = core.find_def(tree, 'SquareMatrices.apply_symmetry')
    if fn is None:
        raise Unsupported('SquareMatrices.apply_symmetry not found')
    if [a.arg for a in fn.args.args] != ['self', 'array']:
        raise Unsupported('SquareMatrices.apply_symmetry signature')
    tr = MatTr({'array': ('mat', 'v_array')})
    lines = []
    stmts = [s for s in fn.body if not is_doc(s)]
    for s in stmts[:-1]:
        if not isinstance(s, ast.If):
            raise Unsupported('apply_symmetry: statement ' + type(s).__name__)
        chain = if_chain_assign(s, tr)
        if chain is not None:
            var, txt = chain
            lines.append('  let v_%s := %s in' % (var, txt))
            tr.env[var] = ('mat', 'v_' + var)
            continue
        # if c: <assignments ending in a reassignment of one live matrix variable>   (no else)
        if s.orelse:
            raise Unsupported('apply_symmetry: if/else that is not a chain of assignments')
        inner = MatTr(tr.env)
        lets = []
        carried = None
        for t in s.body:
            sa = single_assign(t)
            if sa is None:
                raise Unsupported('apply_symmetry: statement inside if')
            v, e = sa
            ty, x = inner.expr(e)
            lets.append('let v_%s := %s in' % (v, x))
            inner.env[v] = (ty, 'v_' + v)
            if v in tr.env:
                if carried not in (None, v):
                    raise Unsupported('apply_symmetry: more than one variable modified in an if')
                carried = v
        if carried is None or inner.env[carried][0] != 'mat':
            raise Unsupported('apply_symmetry: if without effect')
        lines.append('  let v_%s := if %s then (%s v_%s) else v_%s in'
                     % (carried, cfg_cond(s.test), ' '.join(lets), carried, carried))
    if not isinstance(stmts[-1], ast.Return):
        raise Unsupported('apply_symmetry: no final return')
    t, x = tr.expr(stmts[-1].value)
    if t != 'mat':
        raise Unsupported('apply_symmetry returns a non-matrix')
    return ('Definition gen_sq_apply_symmetry (sym : symm) (traceless : bool) (cfg_dim : nat) (v_array : fmat) : fmat :=\n'
            + '\n'.join(lines) + '\n  ' + x + '.\n')


def tri_block(stmts, tr, indent):
    if not stmts:
        raise Unsupported('GeneralMatrices.apply_symmetry: falls off the end')
    s, rest = stmts[0], stmts[1:]
    if is_doc(s):
        return tri_block(rest, tr, indent)
    if isinstance(s, ast.Return):
        t, x = tr.expr(s.value)
        if t != 'mat':
            raise Unsupported('returns a non-matrix')
        return indent + x
    if isinstance(s, ast.If):
        return '%sif %s then\n%s\n%selse\n%s' % (indent, cfg_cond(s.test), tri_block(s.body + rest, tr, indent + '  '),
                                                  indent, tri_block(s.orelse + rest, tr, indent + '  '))
    raise Unsupported('statement ' + type(s).__name__)


def translate_tri_apply(tree):
    fn = core.find_def(tree, 'GeneralMatrices.apply_symmetry')
    if fn is None:
        raise Unsupported('GeneralMatrices.apply_symmetry not found')
    if [a.arg for a in fn.args.args] != ['self', 'array']:
        raise Unsupported('GeneralMatrices.apply_symmetry signature')
    tr = MatTr({'array': ('mat', 'v_array')})
    return ('Definition gen_tri_apply (tri : triopt) (v_array : fmat) : fmat :=\n' + tri_block(fn.body, tr, '  ') + '.\n')


# ------------------------------------------------------------------------------------------------
def generate():
    s_tree = ast.parse(core.repo_source('mitxgraders/sampling.py'))
    m_tree = ast.parse(core.repo_source('mitxgraders/matrixsampling.py'))
    out = ['(* GENERATED by translate/sampler.py from mitxgraders/sampling.py and mitxgraders/matrixsampling.py -- do not edit *)',
           'From Coq Require Import ZArith QArith Qabs Bool.',
           'From Verif.Lib Require Import QRound PyNum.',
           'From Verif.Model Require Import Sampler SamplerMat.',
           'Open Scope Q_scope.', '']
    out.append(translate_swap_init(s_tree, 'RealInterval', 'gen_real_interval_init', 'Q'))
    out.append(translate_real_interval_gen(s_tree))
    out.append(translate_swap_init(s_tree, 'IntegerRange', 'gen_integer_range_init', 'Z'))
    out.append(translate_integer_range_call(s_tree))
    out.append(translate_random_function(s_tree))
    out.append(translate_sqm_init(m_tree))
    out.append(translate_sq_apply_symmetry(m_tree))
    out.append(translate_tri_apply(m_tree))
    return '\n'.join(out)


if __name__ == '__main__':
    print(generate())
