"""comparers.py -- regenerate coq/Gen/Comparers.v from /repo (translator A for C16), fail-closed.

Translated fragments (the declarative / straight-line parts of the comparers):
  * LinearComparer: `all_modes`, `zero_compatible_modes`, the schema defaults of the four credits, the
    comprehension defining `self.modes` in __init__, `get_valid_modes`, the `error_calculators` table,
    `student_zero or expected_zero` of check_comparing_zero
  * MatrixEntryComparer.__call__: num_entries / percent_correct and the final if/elif credit chain
  * MatrixGrader.check_response: the InputTypeError handler (suppress / is_raised / else)
Anything outside the shapes matched below raises Unsupported: the affected obligations are reported broken.
"""
import ast
from fractions import Fraction

from harness import core


class Unsupported(Exception):
    pass


def need(cond, what):
    if not cond:
        raise Unsupported(what)


MODES = {'equals': 'LEquals', 'proportional': 'LProportional', 'offset': 'LOffset', 'linear': 'LLinear'}
CALCULATORS = {'get_equals_fit_error': 0, 'get_proportional_fit_error': 1, 'get_offset_fit_error': 2,
               'get_linear_fit_error': 3}


def q(v):
    need(isinstance(v, (int, float)) and not isinstance(v, bool), 'numeric constant expected, got %r' % (v,))
    fr = Fraction(repr(v)) if isinstance(v, float) else Fraction(v)
    n = '(%d)' % fr.numerator if fr.numerator < 0 else '%d' % fr.numerator
    return '(%s # %d)' % (n, fr.denominator)


def const(node):
    need(isinstance(node, ast.Constant), 'constant expected: %s' % ast.dump(node))
    return node.value


def is_self_attr(node, name):
    return isinstance(node, ast.Attribute) and isinstance(node.value, ast.Name) and node.value.id == 'self' and node.attr == name


def is_self_config(node, key=None):
    """self.config[<key>]; returns the slice node"""
    need(isinstance(node, ast.Subscript) and is_self_attr(node.value, 'config'), 'self.config[...] expected: %s' % ast.dump(node))
    return node.slice


def class_assign(cls, name):
    for st in cls.body:
        if isinstance(st, ast.Assign) and len(st.targets) == 1 and isinstance(st.targets[0], ast.Name) and st.targets[0].id == name:
            return st.value
    raise Unsupported('class attribute %s not found' % name)


def mode_tuple(node):
    need(isinstance(node, (ast.Tuple, ast.List)), 'tuple of mode names expected')
    out = []
    for e in node.elts:
        v = const(e)
        need(v in MODES, 'unknown mode %r' % (v,))
        out.append(MODES[v])
    return '[' + '; '.join(out) + ']'


def body_wo_doc(fn):
    body = list(fn.body)
    if body and isinstance(body[0], ast.Expr) and isinstance(body[0].value, ast.Constant) and isinstance(body[0].value.value, str):
        body = body[1:]
    return body


def filter_comprehension(node, var_iter_attr):
    """tuple(mode for mode in self.<attr> if <cond>) ; returns (attr, cond node, loop variable name)"""
    need(isinstance(node, ast.Call) and isinstance(node.func, ast.Name) and node.func.id == 'tuple' and len(node.args) == 1,
         'tuple(<generator>) expected')
    g = node.args[0]
    need(isinstance(g, ast.GeneratorExp) and len(g.generators) == 1, 'single generator expected')
    gen = g.generators[0]
    need(isinstance(gen.target, ast.Name) and isinstance(g.elt, ast.Name) and g.elt.id == gen.target.id, 'identity comprehension expected')
    need(isinstance(gen.iter, ast.Attribute) and is_self_attr(gen.iter, gen.iter.attr) and gen.iter.attr in var_iter_attr,
         'iteration over self.%s expected' % '/'.join(var_iter_attr))
    need(len(gen.ifs) == 1, 'exactly one filter condition expected')
    return gen.iter.attr, gen.ifs[0], gen.target.id


def linear_part(tree):
    cls = core.find_def(tree, 'LinearComparer')
    need(cls is not None, 'LinearComparer not found')
    out = []
    out.append('Definition gen_all_modes : list lmode := %s.' % mode_tuple(class_assign(cls, 'all_modes')))
    out.append('Definition gen_zero_compatible_modes : list lmode := %s.' % mode_tuple(class_assign(cls, 'zero_compatible_modes')))
    # schema defaults
    schema = class_assign(cls, 'schema_config')
    need(isinstance(schema, ast.Call) and isinstance(schema.func, ast.Name) and schema.func.id == 'Schema' and
         isinstance(schema.args[0], ast.Dict), 'Schema({...}) expected')
    defaults = {}
    for k, v in zip(schema.args[0].keys, schema.args[0].values):
        need(isinstance(k, ast.Call) and isinstance(k.func, ast.Name) and k.func.id == 'Required', 'Required(...) key expected')
        name = const(k.args[0])
        if name in MODES:
            kw = {x.arg: x.value for x in k.keywords}
            need('default' in kw, 'default of %s missing' % name)
            d = const(kw['default'])
            defaults[name] = 'None' if d is None else '(Some %s)' % q(d)
            need(isinstance(v, ast.Call) and isinstance(v.func, ast.Name) and v.func.id == 'Any' and len(v.args) == 2 and
                 const(v.args[0]) is None and isinstance(v.args[1], ast.Call) and v.args[1].func.id == 'Range' and
                 [const(a) for a in v.args[1].args] == [0, 1], 'credit domain Any(None, Range(0, 1)) expected for %s' % name)
    need(set(defaults) == set(MODES), 'defaults of the four credits expected')
    out.append('Definition gen_default_credits : lconfig := mkL %s %s %s %s.' %
               tuple(defaults[k] for k in ('equals', 'proportional', 'offset', 'linear')))
    # self.modes
    init = core.find_def(cls, '__init__')
    need(init is not None, '__init__ not found')
    assigns = [st for st in body_wo_doc(init) if isinstance(st, ast.Assign) and is_self_attr(st.targets[0], 'modes')]
    need(len(assigns) == 1, 'one assignment to self.modes expected')
    attr, cond, var = filter_comprehension(assigns[0].value, ['all_modes'])
    need(isinstance(cond, ast.Compare) and len(cond.ops) == 1 and isinstance(cond.ops[0], ast.IsNot) and
         const(cond.comparators[0]) is None, '`self.config[mode] is not None` expected')
    sl = is_self_config(cond.left)
    need(isinstance(sl, ast.Name) and sl.id == var, 'self.config[mode] expected')
    out.append('Definition gen_configured (cfg : lconfig) : list lmode :=\n'
               '  filter (fun m => match credit_of cfg m with Some _ => true | None => false end) gen_all_modes.')
    # get_valid_modes
    gv = core.find_def(cls, 'get_valid_modes')
    need(gv is not None, 'get_valid_modes not found')
    body = body_wo_doc(gv)
    need(len(body) == 2 and isinstance(body[0], ast.If) and isinstance(body[0].test, ast.Name) and
         body[0].test.id == gv.args.args[1].arg and not body[0].orelse and len(body[0].body) == 1 and
         isinstance(body[0].body[0], ast.Return) and isinstance(body[1], ast.Return) and is_self_attr(body[1].value, 'modes'),
         'get_valid_modes: `if flag: return tuple(...)` / `return self.modes` expected')
    attr, cond, var = filter_comprehension(body[0].body[0].value, ['modes'])
    need(isinstance(cond, ast.Compare) and len(cond.ops) == 1 and isinstance(cond.ops[0], ast.In) and
         isinstance(cond.left, ast.Name) and cond.left.id == var and is_self_attr(cond.comparators[0], 'zero_compatible_modes'),
         '`mode in self.zero_compatible_modes` expected')
    out.append('Definition gen_valid_modes (cfg : lconfig) (comparing_zero : bool) : list lmode :=\n'
               '  if comparing_zero then filter (fun m => existsb (lmode_eqb m) gen_zero_compatible_modes) (gen_configured cfg)\n'
               '  else gen_configured cfg.')
    # error calculators
    ec = class_assign(cls, 'error_calculators')
    need(isinstance(ec, ast.Dict), 'error_calculators dict expected')
    rows = []
    for k, v in zip(ec.keys, ec.values):
        name = const(k)
        need(name in MODES and isinstance(v, ast.Name) and v.id in CALCULATORS, 'error calculator entry %s' % ast.dump(v))
        rows.append('(%s, %d%%Z)' % (MODES[name], CALCULATORS[v.id]))
    out.append('Definition gen_error_calculators : list (lmode * Z) := [%s].' % '; '.join(rows))
    # check_comparing_zero: return student_zero or expected_zero
    cz = core.find_def(cls, 'check_comparing_zero')
    need(cz is not None, 'check_comparing_zero not found')
    ret = body_wo_doc(cz)[-1]
    need(isinstance(ret, ast.Return) and isinstance(ret.value, ast.BoolOp), 'return <a> or/and <b> expected')
    names = [v.id for v in ret.value.values if isinstance(v, ast.Name)]
    need(names == ['student_zero', 'expected_zero'], 'student_zero / expected_zero expected')
    op = '||' if isinstance(ret.value.op, ast.Or) else '&&'
    out.append('Definition gen_comparing_zero (student_zero expected_zero : bool) : bool := student_zero %s expected_zero.' % op)
    return out


def entry_part(tree):
    cls = core.find_def(tree, 'MatrixEntryComparer')
    need(cls is not None, 'MatrixEntryComparer not found')
    call = core.find_def(cls, '__call__')
    body = body_wo_doc(call)
    assigns = {st.targets[0].id: st.value for st in body
               if isinstance(st, ast.Assign) and isinstance(st.targets[0], ast.Name)}
    for name in ('num_entries', 'percent_correct', 'partial_credit', 'comparisons_summary', 'msg'):
        need(name in assigns, '%s not assigned' % name)
    ne = assigns['num_entries']
    need(isinstance(ne, ast.Attribute) and ne.attr == 'size' and isinstance(ne.value, ast.Name) and
         ne.value.id == 'comparisons_summary', 'num_entries = comparisons_summary.size expected')
    pcn = assigns['percent_correct']
    need(isinstance(pcn, ast.BinOp) and isinstance(pcn.op, ast.Div) and isinstance(pcn.right, ast.Name) and
         pcn.right.id == 'num_entries' and
         ast.dump(pcn.left) == ast.dump(ast.parse('np.sum(comparisons_summary).item()', mode='eval').body),
         'percent_correct = np.sum(comparisons_summary).item()/num_entries expected')
    cs = assigns['comparisons_summary']
    need(ast.dump(cs) == ast.dump(ast.parse('np.all(comparisons_by_eval, axis=0)', mode='eval').body),
         'comparisons_summary = np.all(comparisons_by_eval, axis=0) expected')
    sl = is_self_config(assigns['partial_credit'])
    need(const(sl) == 'entry_partial_credit', "partial_credit = self.config['entry_partial_credit'] expected")
    chain = body[-1]
    need(isinstance(chain, ast.If), 'final if/elif chain expected')

    def ret_term(node):
        need(isinstance(node, ast.Return), 'return expected')
        v = node.value
        if isinstance(v, ast.Constant) and v.value is True:
            return 'CBool true'
        if isinstance(v, ast.Constant) and v.value is False:
            return 'CBool false'
        need(isinstance(v, ast.Dict), 'True / False / dict expected')
        d = {const(k): val for k, val in zip(v.keys, v.values)}
        need(set(d) <= {'ok', 'grade_decimal', 'msg'} and 'grade_decimal' in d, 'result dict keys')
        need(isinstance(d.get('msg'), ast.Name) and d['msg'].id == 'msg', "'msg': msg expected")
        g = d['grade_decimal']
        if isinstance(g, ast.Constant):
            gt = q(g.value)
        elif isinstance(g, ast.Name) and g.id == 'percent_correct':
            gt = 'pct'
        elif isinstance(g, ast.Name) and g.id == 'partial_credit':
            gt = '(pc_number pc)'
        else:
            raise Unsupported('grade expression %s' % ast.dump(g))
        return 'CDict %s (MsgEntries locs)' % gt

    def cond_term(t):
        need(isinstance(t, ast.Compare) and len(t.ops) == 1 and isinstance(t.ops[0], ast.Eq) and isinstance(t.left, ast.Name),
             'comparison `name == constant` expected')
        c = const(t.comparators[0])
        if t.left.id == 'percent_correct':
            return 'Qeq_bool pct %s' % q(c)
        if t.left.id == 'partial_credit':
            need(c == 'proportional', "partial_credit == 'proportional' expected")
            return 'pc_is_proportional pc'
        raise Unsupported('condition on %s' % t.left.id)

    def chain_term(node, ind):
        need(len(node.body) == 1, 'single return per branch expected')
        s = '%sif %s then %s\n' % (ind, cond_term(node.test), ret_term(node.body[0]))
        need(len(node.orelse) == 1, 'else branch expected')
        o = node.orelse[0]
        if isinstance(o, ast.If):
            return s + ind + 'else\n' + chain_term(o, ind + '  ')
        return s + '%selse %s' % (ind, ret_term(o))
    out = ['Definition pc_is_proportional (pc : partial_credit) : bool := match pc with PCProp => true | PCFlat _ => false end.',
           'Definition pc_number (pc : partial_credit) : Q := match pc with PCFlat q => q | PCProp => 0 end.',
           'Definition gen_percent_correct (locs : list bool) : Q :=\n'
           '  inject_Z (Z.of_nat (count_true locs)) / inject_Z (Z.of_nat (length locs)).',
           'Definition gen_entry_credit (pct : Q) (pc : partial_credit) (locs : list bool) : cres :=\n' + chain_term(chain, '  ') + '.']
    return out


def policy_part(tree):
    cls = core.find_def(tree, 'MatrixGrader')
    need(cls is not None, 'MatrixGrader not found')
    fn = core.find_def(cls, 'check_response')
    body = body_wo_doc(fn)
    tries = [st for st in body if isinstance(st, ast.Try)]
    need(len(tries) == 1, 'one try statement expected')
    handlers = [h for h in tries[0].handlers if isinstance(h.type, ast.Name) and h.type.id == 'InputTypeError']
    need(len(handlers) == 1 and handlers[0].name, 'one `except InputTypeError as err` handler expected')
    err = handlers[0].name
    # no earlier handler may catch InputTypeError
    for h in tries[0].handlers:
        if h is handlers[0]:
            break
        names = [h.type.id] if isinstance(h.type, ast.Name) else [e.id for e in getattr(h.type, 'elts', [])]
        need(not set(names) & {'InputTypeError', 'Exception', 'BaseException', 'StudentFacingError', 'MITxError'},
             'an earlier handler shadows InputTypeError')
    need(len(handlers[0].body) == 1 and isinstance(handlers[0].body[0], ast.If), 'if/elif/else chain expected in the handler')

    def flag(t):
        if isinstance(t, ast.Subscript) and is_self_attr(t.value, 'config'):
            need(const(t.slice) == 'suppress_matrix_messages', 'unexpected flag %s' % ast.dump(t))
            return 'p_suppress p'
        need(isinstance(t, ast.Subscript) and const(t.slice) == 'is_raised' and
             const(is_self_config(t.value)) == 'answer_shape_mismatch', 'unexpected flag %s' % ast.dump(t))
        return 'p_raised p'

    def action(stmts):
        need(len(stmts) == 1, 'single statement per branch expected')
        st = stmts[0]
        if isinstance(st, ast.Raise):
            need(st.exc is None, 'bare raise expected')
            return 'ORaise (XInputType m)'
        need(isinstance(st, ast.Return) and isinstance(st.value, ast.Dict), 'return {...} expected')
        d = {const(k): v for k, v in zip(st.value.keys, st.value.values)}
        need(set(d) == {'ok', 'msg', 'grade_decimal'}, 'result dict keys')
        ok = {True: 'OkTrue', False: 'OkFalse', 'partial': 'OkPartial'}[const(d['ok'])]
        g = q(const(d['grade_decimal']))
        m = d['msg']
        if isinstance(m, ast.Constant):
            need(m.value == '', "msg '' expected")
            mt = 'MsgNone'
        else:
            need(ast.dump(m) == ast.dump(ast.parse('str(%s)' % err, mode='eval').body), 'msg str(err) expected')
            mt = '(msg_text m)'
        return 'ORes %s %s %s' % (ok, g, mt)

    def chain(node, ind):
        s = '%sif %s then %s\n' % (ind, flag(node.test), action(node.body))
        if len(node.orelse) == 1 and isinstance(node.orelse[0], ast.If):
            return s + ind + 'else\n' + chain(node.orelse[0], ind + '  ')
        return s + '%selse %s' % (ind, action(node.orelse))
    return ['Definition msg_text (m : msgk) : msgk := match m with MsgShape SMEmpty => MsgNone | _ => m end.',
            'Definition gen_input_type_policy (p : policy) (m : msgk) : outcome :=\n' + chain(handlers[0].body[0], '  ') + '.']


def generate():
    out = ['(* GENERATED by translate/comparers.py from mitxgraders/comparers/{comparers,linear_comparer}.py and',
           '   mitxgraders/formulagrader/matrixgrader.py -- do not edit *)',
           'From Coq Require Import ZArith QArith List Bool.',
           'From Verif.Model Require Import Result Comparers.',
           'Import ListNotations.', 'Open Scope Q_scope.', '',
           'Definition lmode_eqb (a b : lmode) : bool :=',
           '  match a, b with LEquals, LEquals | LProportional, LProportional | LOffset, LOffset | LLinear, LLinear => true',
           '  | _, _ => false end.', '']
    out += linear_part(ast.parse(core.repo_source('mitxgraders/comparers/linear_comparer.py')))
    out.append('')
    out += entry_part(ast.parse(core.repo_source('mitxgraders/comparers/comparers.py')))
    out.append('')
    out += policy_part(ast.parse(core.repo_source('mitxgraders/formulagrader/matrixgrader.py')))
    return '\n'.join(out) + '\n'
