"""evaltables.py -- regenerate coq/Gen/EvalTables.v (translator A for C03) from
  mitxgraders/helpers/calc/mathfuncs.py   : DEFAULT_SUFFIXES, METRIC_SUFFIXES (name -> multiplier), DEFAULT_VARIABLES (names, kinds)
  mitxgraders/helpers/calc/expressions.py : the body of MathParser.get_grammar as a term of the combinator language
                                            Verif.Model.ParserGrammar.gx (statement by statement)
Fail-closed: any construct outside the subset raises Unsupported."""
import ast
from fractions import Fraction

from harness import core


class Unsupported(Exception):
    pass


def strl(s):
    return '[' + ';'.join(str(ord(c)) for c in s) + ']'


def ql(v):
    if isinstance(v, bool) or not isinstance(v, (int, float)):
        raise Unsupported('numeric constant expected, got %r' % (v,))
    fr = Fraction(repr(v)) if isinstance(v, float) else Fraction(v)     # the decimal the author wrote
    n = '(%d)' % fr.numerator if fr.numerator < 0 else '%d' % fr.numerator
    return '(Qmake %s %d%%positive)' % (n, fr.denominator)


def dict_of(tree, name):
    node = core.find_def(tree, name)
    if node is None or not isinstance(node, ast.Assign) or not isinstance(node.value, ast.Dict):
        raise Unsupported('%s is not a dict literal' % name)
    return node.value


def suffix_table(tree, name):
    d = dict_of(tree, name)
    rows = []
    for k, v in zip(d.keys, d.values):
        if not (isinstance(k, ast.Constant) and isinstance(k.value, str)):
            raise Unsupported('%s: key %s' % (name, ast.dump(k)))
        if not isinstance(v, ast.Constant):
            raise Unsupported('%s[%r]: value %s' % (name, k.value, ast.dump(v)))
        rows.append('(%s, %s)' % (strl(k.value), ql(v.value)))
    return '[' + '; '.join(rows) + ']'


def constant_table(tree):
    d = dict_of(tree, 'DEFAULT_VARIABLES')
    rows = []
    for k, v in zip(d.keys, d.values):
        if not (isinstance(k, ast.Constant) and isinstance(k.value, str)):
            raise Unsupported('DEFAULT_VARIABLES: key %s' % ast.dump(k))
        src = ast.dump(v)
        if isinstance(v, ast.Call) and isinstance(v.func, ast.Name) and v.func.id == 'complex' and len(v.args) == 2 \
                and all(isinstance(a, ast.Constant) for a in v.args) and [a.value for a in v.args] == [0, 1]:
            kind = 'CImagUnit'
        elif isinstance(v, ast.Attribute) and isinstance(v.value, ast.Name) and v.value.id == 'np' and v.attr == 'e':
            kind = 'CEuler'
        elif isinstance(v, ast.Attribute) and isinstance(v.value, ast.Name) and v.value.id == 'np' and v.attr == 'pi':
            kind = 'CPi'
        else:
            raise Unsupported('DEFAULT_VARIABLES[%r] = %s' % (k.value, src))
        rows.append('(%s, %s)' % (strl(k.value), kind))
    return '[' + '; '.join(rows) + ']'


# ---------------------------------------------------------------------------------------------------
# get_grammar -> list gstmt
# ---------------------------------------------------------------------------------------------------
UNARY = {'Optional': 'GOpt', 'ZeroOrMore': 'GStar', 'Suppress': 'GSuppress', 'Group': 'GGroup', 'Combine': 'GCombine',
         'FollowedBy': 'GFollowedBy', 'delimitedList': 'GDelimited'}
CLASSES = {'nums': 'CNums', 'alphas': 'CAlphas', 'alphanums': 'CAlphanums'}


def cclass(e):
    """character-class expression: nums | alphas | alphanums | <class> + 'chars'"""
    if isinstance(e, ast.Name) and e.id in CLASSES:
        return [CLASSES[e.id]]
    if isinstance(e, ast.Constant) and isinstance(e.value, str):
        return ['(CChars %s)' % strl(e.value)]
    if isinstance(e, ast.BinOp) and isinstance(e.op, ast.Add):
        return cclass(e.left) + cclass(e.right)
    raise Unsupported('character class %s' % ast.dump(e))


def gx(e, bound):
    if isinstance(e, ast.Constant) and isinstance(e.value, str):
        return '(GLit %s)' % strl(e.value)
    if isinstance(e, ast.Name):
        if e.id == 'stringEnd':
            return 'GStringEnd'
        if e.id in bound:
            return '(GRef %s)' % strl(e.id)
        raise Unsupported('unknown name %s in grammar' % e.id)
    if isinstance(e, ast.BinOp):
        if isinstance(e.op, ast.Add):
            return '(GSeq %s %s)' % (gx(e.left, bound), gx(e.right, bound))
        if isinstance(e.op, ast.BitOr):
            return '(GAlt %s %s)' % (gx(e.left, bound), gx(e.right, bound))
        raise Unsupported('operator %s in grammar' % type(e.op).__name__)
    if isinstance(e, ast.UnaryOp) and isinstance(e.op, ast.Invert):
        return '(GNot %s)' % gx(e.operand, bound)
    if isinstance(e, ast.Call):
        if e.keywords:
            raise Unsupported('keyword arguments in grammar call')
        f = e.func
        if isinstance(f, ast.Name):
            if f.id in ('Literal', 'CaselessLiteral'):
                if len(e.args) != 1 or not (isinstance(e.args[0], ast.Constant) and isinstance(e.args[0].value, str)):
                    raise Unsupported('%s arguments' % f.id)
                return '(%s %s)' % ('GLit' if f.id == 'Literal' else 'GCaseless', strl(e.args[0].value))
            if f.id == 'Word':
                if len(e.args) == 1:
                    c = cclass(e.args[0])
                    return '(GWord [%s] [%s])' % ('; '.join(c), '; '.join(c))
                if len(e.args) == 2:
                    return '(GWord [%s] [%s])' % ('; '.join(cclass(e.args[0])), '; '.join(cclass(e.args[1])))
                raise Unsupported('Word arguments')
            if f.id in UNARY:
                if len(e.args) != 1:
                    raise Unsupported('%s arguments' % f.id)
                return '(%s %s)' % (UNARY[f.id], gx(e.args[0], bound))
            if f.id == 'Forward' and not e.args:
                return 'GForward'
            if f.id in bound:
                # results name: expr("name")
                if len(e.args) == 1 and isinstance(e.args[0], ast.Constant) and isinstance(e.args[0].value, str):
                    return '(GNamed (GRef %s) %s)' % (strl(f.id), strl(e.args[0].value))
            raise Unsupported('call of %s in grammar' % f.id)
        # <grammar expression>("name")
        if len(e.args) == 1 and isinstance(e.args[0], ast.Constant) and isinstance(e.args[0].value, str):
            return '(GNamed %s %s)' % (gx(f, bound), strl(e.args[0].value))
        raise Unsupported('call %s in grammar' % ast.dump(e)[:80])
    raise Unsupported('expression %s in grammar' % ast.dump(e)[:80])


def action(call):
    """self.method | self.group_if_multiple('name') | lambda: "const" """
    if isinstance(call, ast.Attribute) and isinstance(call.value, ast.Name) and call.value.id == 'self':
        return '(AMethod %s)' % strl(call.attr)
    if isinstance(call, ast.Call) and isinstance(call.func, ast.Attribute) and isinstance(call.func.value, ast.Name) \
            and call.func.value.id == 'self' and call.func.attr == 'group_if_multiple' and len(call.args) == 1 \
            and isinstance(call.args[0], ast.Constant) and isinstance(call.args[0].value, str) and not call.keywords:
        return '(AGroupIfMultiple %s)' % strl(call.args[0].value)
    if isinstance(call, ast.Lambda) and not call.args.args and isinstance(call.body, ast.Constant) \
            and isinstance(call.body.value, str):
        return '(AConst %s)' % strl(call.body.value)
    raise Unsupported('parse action %s' % ast.dump(call)[:80])


def grammar_statements(tree):
    fn = core.find_def(tree, 'MathParser.get_grammar')
    if fn is None:
        raise Unsupported('MathParser.get_grammar not found')
    bound, out = set(), []
    for st in fn.body:
        if isinstance(st, ast.Expr) and isinstance(st.value, ast.Constant) and isinstance(st.value.value, str):
            continue                                        # docstring
        if isinstance(st, ast.Assign):
            if len(st.targets) != 1 or not isinstance(st.targets[0], ast.Name):
                raise Unsupported('assignment target')
            n = st.targets[0].id
            out.append('SBind %s %s' % (strl(n), gx(st.value, bound)))
            bound.add(n)
            continue
        if isinstance(st, ast.Expr) and isinstance(st.value, ast.Call) and isinstance(st.value.func, ast.Attribute) \
                and isinstance(st.value.func.value, ast.Name) and st.value.func.attr in ('setParseAction', 'addParseAction') \
                and len(st.value.args) == 1 and not st.value.keywords:
            tgt = st.value.func.value.id
            if tgt not in bound:
                raise Unsupported('parse action on unknown %s' % tgt)
            out.append('SAction %s %s %s' % (strl(tgt), 'true' if st.value.func.attr == 'addParseAction' else 'false',
                                             action(st.value.args[0])))
            continue
        if isinstance(st, ast.Expr) and isinstance(st.value, ast.BinOp) and isinstance(st.value.op, ast.LShift) \
                and isinstance(st.value.left, ast.Name) and isinstance(st.value.right, ast.Name):
            if st.value.left.id not in bound or st.value.right.id not in bound:
                raise Unsupported('<< on unknown names')
            out.append('SClose %s %s' % (strl(st.value.left.id), strl(st.value.right.id)))
            continue
        if isinstance(st, ast.Return):
            out.append('SReturn %s' % gx(st.value, bound))
            continue
        raise Unsupported('statement %s in get_grammar' % ast.dump(st)[:80])
    return out


def generate():
    mf = ast.parse(core.repo_source('mitxgraders/helpers/calc/mathfuncs.py'))
    ex = ast.parse(core.repo_source('mitxgraders/helpers/calc/expressions.py'))
    stmts = grammar_statements(ex)
    out = ['(* GENERATED by translate/evaltables.py from mitxgraders/helpers/calc/{mathfuncs,expressions}.py -- do not edit *)',
           'From Coq Require Import ZArith QArith List.',
           'From Verif.Model Require Import Result ParserGrammar.',
           'Import ListNotations.', 'Local Open Scope Z_scope.', '',
           'Definition gen_default_suffixes : list (str * Q) := %s.' % suffix_table(mf, 'DEFAULT_SUFFIXES'),
           'Definition gen_metric_suffixes : list (str * Q) := %s.' % suffix_table(mf, 'METRIC_SUFFIXES'),
           'Definition gen_default_constants : list (str * const_kind) := %s.' % constant_table(mf),
           'Definition gen_grammar : list gstmt :=\n  [ %s ].' % '\n  ; '.join(stmts), '']
    return '\n'.join(out)
