"""callguard.py -- regenerate coq/Gen/CallGuard.v from /repo (translator A for C02).  Fail-closed: every source
fragment is matched against the exact statement shape listed below and anything else raises Unsupported.

Translated fragments (all declarative: class headers, except-clause tables, if/elif chains over flags, message templates):
  * class headers of mitxgraders/exceptions.py, helpers/calc/exceptions.py and every other `class X(<library exception>)`
    under mitxgraders/                                                    -> exc_table  (name, base)
  * helpers/calc/expressions.py: handle_np_floating_errors, np.seterrcall(..), np.seterr(..)  -> np_* tables
  * MathExpression.eval / MathExpression.eval_function / MathParser.parse : except clauses     -> *_handlers
  * MathParser.raw_parse : order of the calls inside the try                                   -> raw_parse_steps
  * AbstractGrader.__call__ : the try/except around self.check                                 -> guard
  * AbstractGrader.ensure_text_inputs and the ItemGrader/ListGrader wrappers                   -> ensure
"""
import ast
import glob
import os
import re
import string

from harness import core


class Unsupported(Exception):
    pass


IDENT = re.compile(r'^[A-Za-z_][A-Za-z0-9_.]*$')


def need(cond, what):
    if not cond:
        raise Unsupported(what)


# ---------------------------------------------------------------------------------------------------------------
# Coq literals
# ---------------------------------------------------------------------------------------------------------------
def cname(s):
    need(isinstance(s, str) and IDENT.match(s) is not None, 'not an identifier: %r' % (s,))
    return '"%s"' % s


def ctext(s):
    need(isinstance(s, str), 'not text: %r' % (s,))
    return '[' + '; '.join('%d' % ord(c) for c in s) + ']%Z' if s else '(@nil Z)'


def comment(s):
    return '(* %s *)' % repr(s).replace('*)', '* )').replace('(*', '( *').replace('"', "''")


def clist(items, sep='; '):
    return '[' + sep.join(items) + ']'


def cbool(b):
    need(isinstance(b, bool), 'not a bool: %r' % (b,))
    return 'true' if b else 'false'


def template(s):
    """Python format template -> list tpart.  Only plain {name} / {} fields."""
    parts = []
    auto = 0
    for lit, field, spec, conv in string.Formatter().parse(s):
        if lit:
            parts.append('Lit %s' % ctext(lit))
        if field is not None:
            need(not spec and not conv, 'format spec/conversion in template %r' % s)
            if field == '':
                field = str(auto)
                auto += 1
            need(re.match(r'^[A-Za-z0-9_]+$', field) is not None, 'format field %r' % field)
            parts.append('Hole "%s"' % field)
    return clist(parts)


# ---------------------------------------------------------------------------------------------------------------
# small AST helpers
# ---------------------------------------------------------------------------------------------------------------
def strip_doc(body):
    if body and isinstance(body[0], ast.Expr) and isinstance(body[0].value, ast.Constant) and isinstance(body[0].value.value, str):
        return body[1:]
    return body


def const_str(e):
    need(isinstance(e, ast.Constant) and isinstance(e.value, str), 'expected a string constant, got ' + ast.dump(e)[:120])
    return e.value


def dotted(e):
    if isinstance(e, ast.Name):
        return e.id
    if isinstance(e, ast.Attribute):
        return dotted(e.value) + '.' + e.attr
    raise Unsupported('expected a dotted name, got ' + ast.dump(e)[:120])


def is_name(e, n):
    return isinstance(e, ast.Name) and e.id == n


def one_try(fn, what):
    tries = [n for n in ast.walk(fn) if isinstance(n, ast.Try)]
    need(len(tries) == 1, '%s: expected exactly one try statement, found %d' % (what, len(tries)))
    t = tries[0]
    need(not t.orelse, '%s: try has an else clause' % what)
    return t


def handler_type(h, what):
    need(h.type is not None and isinstance(h.type, ast.Name), '%s: except clause without a single class name' % what)
    return h.type.id


def format_call(e, env, what):
    """<template>.format(args) where <template> is a constant or a local name bound to a constant -> (template, args, keywords)"""
    need(isinstance(e, ast.Call) and isinstance(e.func, ast.Attribute) and e.func.attr == 'format', '%s: expected .format(...)' % what)
    base = e.func.value
    if isinstance(base, ast.Name):
        need(base.id in env, '%s: template variable %s is not a known constant' % (what, base.id))
        tmpl = env[base.id]
    else:
        tmpl = const_str(base)
    return tmpl, e.args, e.keywords


def raise_new(stmt, what):
    """raise C(<expr>) -> (C, expr)"""
    need(isinstance(stmt, ast.Raise) and stmt.cause is None and isinstance(stmt.exc, ast.Call), '%s: expected raise C(...)' % what)
    c = stmt.exc
    need(isinstance(c.func, ast.Name) and len(c.args) == 1 and not c.keywords, '%s: expected raise C(<one argument>)' % what)
    return c.func.id, c.args[0]


# ---------------------------------------------------------------------------------------------------------------
# 1. exception classes
# ---------------------------------------------------------------------------------------------------------------
def exception_table():
    table = []
    names = set()
    for rel in ('mitxgraders/exceptions.py', 'mitxgraders/helpers/calc/exceptions.py'):
        tree = ast.parse(core.repo_source(rel))
        for node in tree.body:
            if isinstance(node, ast.ClassDef):
                need(len(node.bases) == 1 and isinstance(node.bases[0], ast.Name) and not node.keywords,
                     '%s: class %s must have exactly one plain base' % (rel, node.name))
                need(all(isinstance(s, (ast.Expr, ast.Pass)) for s in node.body),
                     '%s: class %s has a body (methods/attributes change how it is constructed or printed)' % (rel, node.name))
                need(node.name not in names, 'duplicate class ' + node.name)
                table.append((node.name, node.bases[0].id, rel))
                names.add(node.name)
            elif isinstance(node, (ast.Import, ast.ImportFrom, ast.Expr)):
                continue
            else:
                raise Unsupported('%s: unexpected top-level statement %s' % (rel, type(node).__name__))
    # every other class in the package that derives from one of those
    root = os.path.join(core.REPO, 'mitxgraders')
    others = []
    for path in sorted(glob.glob(os.path.join(root, '**', '*.py'), recursive=True)):
        rel = os.path.relpath(path, core.REPO)
        if rel in ('mitxgraders/exceptions.py', 'mitxgraders/helpers/calc/exceptions.py'):
            continue
        tree = ast.parse(open(path).read())
        for node in ast.walk(tree):
            if isinstance(node, ast.ClassDef):
                others.append((rel, node))
    changed = True
    while changed:
        changed = False
        for rel, node in others:
            if node.name in names:
                continue
            bases = [b.id for b in node.bases if isinstance(b, ast.Name)]
            if any(b in names for b in bases):
                need(len(node.bases) == 1 and not node.keywords, '%s: class %s must have exactly one plain base' % (rel, node.name))
                need(all(isinstance(s, (ast.Expr, ast.Pass)) for s in node.body), '%s: class %s has a body' % (rel, node.name))
                table.append((node.name, bases[0], rel))
                names.add(node.name)
                changed = True
    return table


# ---------------------------------------------------------------------------------------------------------------
# 2. numpy floating point errors
# ---------------------------------------------------------------------------------------------------------------
def np_tables(tree):
    fn = core.find_def(tree, 'handle_np_floating_errors')
    need(isinstance(fn, ast.FunctionDef), 'handle_np_floating_errors not found')
    need([a.arg for a in fn.args.args] == ['err', 'flag'], 'handle_np_floating_errors signature')
    body = strip_doc(fn.body)
    need(len(body) == 1 and isinstance(body[0], ast.If), 'handle_np_floating_errors: expected a single if/elif chain')
    rules = []
    node = body[0]
    default = None
    while True:
        t = node.test
        need(isinstance(t, ast.Compare) and len(t.ops) == 1 and isinstance(t.ops[0], ast.In) and is_name(t.comparators[0], 'err'),
             'handle_np_floating_errors: test must be  <literal> in err')
        key = const_str(t.left)
        need(len(node.body) == 1 and isinstance(node.body[0], ast.Raise) and isinstance(node.body[0].exc, ast.Name),
             'handle_np_floating_errors: branch must be  raise <Class>')
        rules.append((key, node.body[0].exc.id))
        if len(node.orelse) == 1 and isinstance(node.orelse[0], ast.If):
            node = node.orelse[0]
            continue
        need(len(node.orelse) == 1 and isinstance(node.orelse[0], ast.Raise), 'handle_np_floating_errors: else must raise')
        exc = node.orelse[0].exc
        need(isinstance(exc, ast.Call) and isinstance(exc.func, ast.Name) and len(exc.args) == 1 and is_name(exc.args[0], 'err'),
             'handle_np_floating_errors: else must be  raise C(err)')
        default = exc.func.id
        break
    seterr, seterrcall = None, None
    for node in tree.body:
        if isinstance(node, ast.Expr) and isinstance(node.value, ast.Call):
            f = dotted(node.value.func) if isinstance(node.value.func, (ast.Name, ast.Attribute)) else ''
            if f == 'np.seterr':
                need(seterr is None and not node.value.args, 'np.seterr called twice or with positional arguments')
                seterr = [(k.arg, const_str(k.value)) for k in node.value.keywords]
            elif f == 'np.seterrcall':
                need(seterrcall is None and len(node.value.args) == 1 and isinstance(node.value.args[0], ast.Name),
                     'np.seterrcall(<function name>) expected once')
                seterrcall = node.value.args[0].id
    need(seterr is not None and seterrcall is not None, 'np.seterr / np.seterrcall not found at module level')
    # nothing else in the package may change the numpy error state
    root = os.path.join(core.REPO, 'mitxgraders')
    for path in sorted(glob.glob(os.path.join(root, '**', '*.py'), recursive=True)):
        src = open(path).read()
        rel = os.path.relpath(path, core.REPO)
        n = len(re.findall(r'\b(?:seterr|seterrcall|errstate)\s*\(', re.sub(r'#.*', '', src)))
        allowed = 2 if rel == 'mitxgraders/helpers/calc/expressions.py' else 0
        need(n == allowed, '%s: %d numpy error-state calls (expected %d)' % (rel, n, allowed))
    return rules, default, seterr, seterrcall


# ---------------------------------------------------------------------------------------------------------------
# 3. except-clause tables
# ---------------------------------------------------------------------------------------------------------------
def eval_handlers(tree):
    fn = core.find_def(tree, 'MathExpression.eval')
    need(isinstance(fn, ast.FunctionDef), 'MathExpression.eval not found')
    t = one_try(fn, 'MathExpression.eval')
    need(not t.finalbody, 'MathExpression.eval: finally clause')
    out = []
    for h in t.handlers:
        need(h.name is None and len(h.body) == 1, 'MathExpression.eval: handler shape')
        cls, arg = raise_new(h.body[0], 'MathExpression.eval handler')
        out.append((handler_type(h, 'MathExpression.eval'), 'RaiseNew %s %s' % (cname(cls), template_literal(const_str(arg))),
                    const_str(arg)))
    return out


def template_literal(s):
    """a constant message (not a .format template): braces are literal"""
    return clist(['Lit %s' % ctext(s)]) if s else '[]'


def evalfn_handlers(tree):
    fn = core.find_def(tree, 'MathExpression.eval_function')
    need(isinstance(fn, ast.FunctionDef), 'MathExpression.eval_function not found')
    t = one_try(fn, 'MathExpression.eval_function')
    need(not t.finalbody, 'eval_function: finally clause')
    need(len(t.body) == 1 and isinstance(t.body[0], ast.Return) and isinstance(t.body[0].value, ast.Call)
         and is_name(t.body[0].value.func, 'func') and len(t.body[0].value.args) == 1
         and isinstance(t.body[0].value.args[0], ast.Starred) and is_name(t.body[0].value.args[0].value, 'args'),
         'eval_function: the guarded statement must be  return func(*args)')
    # what precedes the try:  name, args = parse_result ; func = functions[name] ; optional validation
    pre = [s for s in strip_doc(fn.body) if s is not t]
    need(len(pre) == 3 and isinstance(pre[2], ast.If), 'eval_function: unexpected statements before the try')
    v = pre[2]
    need(isinstance(v.test, ast.UnaryOp) and isinstance(v.test.op, ast.Not) and isinstance(v.test.operand, ast.Call)
         and is_name(v.test.operand.func, 'getattr') and const_str(v.test.operand.args[1]) == 'validated'
         and len(v.body) == 1 and isinstance(v.body[0], ast.Expr) and isinstance(v.body[0].value, ast.Call)
         and dotted(v.body[0].value.func) == 'MathExpression.validate_function_call' and not v.orelse,
         "eval_function: expected  if not getattr(func, 'validated', False): MathExpression.validate_function_call(...)")
    out = []
    for h in t.handlers:
        ty = handler_type(h, 'eval_function')
        need(h.name is None, 'eval_function: handler binds the exception')
        if len(h.body) == 1 and isinstance(h.body[0], ast.Raise) and h.body[0].exc is None:
            out.append((ty, 'Reraise', None))
            continue
        need(len(h.body) == 2 and isinstance(h.body[0], ast.Assign) and len(h.body[0].targets) == 1
             and is_name(h.body[0].targets[0], 'msg'), 'eval_function: handler must be  msg = ... ; raise C(msg)')
        tmpl, args, kws = format_call(h.body[0].value, {}, 'eval_function handler')
        need(not args and len(kws) == 1 and kws[0].arg == 'name' and is_name(kws[0].value, 'name'),
             'eval_function: template must be formatted with name=name only')
        cls, arg = raise_new(h.body[1], 'eval_function handler')
        need(is_name(arg, 'msg'), 'eval_function: raise C(msg) expected')
        out.append((ty, 'RaiseNew %s %s' % (cname(cls), template(tmpl)), tmpl))
    # validate_function_call: the arity message
    vf = core.find_def(tree, 'MathExpression.validate_function_call')
    need(isinstance(vf, ast.FunctionDef), 'validate_function_call not found')
    body = strip_doc(vf.body)
    need(len(body) == 4 and isinstance(body[2], ast.If) and isinstance(body[3], ast.Return), 'validate_function_call: shape')
    test = body[2].test
    need(isinstance(test, ast.Compare) and len(test.ops) == 1 and isinstance(test.ops[0], ast.NotEq)
         and is_name(test.left, 'expected') and is_name(test.comparators[0], 'num_args'), 'validate_function_call: test must be expected != num_args')
    ib = body[2].body
    need(len(ib) == 2 and isinstance(ib[0], ast.Assign) and is_name(ib[0].targets[0], 'msg'), 'validate_function_call: msg assignment')
    arity_tmpl = const_str(ib[0].value)
    cls, arg = raise_new(ib[1], 'validate_function_call')
    tmpl2, args, kws = format_call(arg, {'msg': arity_tmpl}, 'validate_function_call')
    need(not args and sorted((k.arg, dotted(k.value)) for k in kws) == [('func', 'name'), ('num', 'expected'), ('num2', 'num_args')],
         'validate_function_call: format keywords')
    return out, (cls, arity_tmpl)


def parse_handlers(tree):
    fn = core.find_def(tree, 'MathParser.parse')
    need(isinstance(fn, ast.FunctionDef), 'MathParser.parse not found')
    t = one_try(fn, 'MathParser.parse')
    need(not t.finalbody and len(t.handlers) == 1, 'MathParser.parse: expected one except clause')
    need(len(t.body) == 1 and isinstance(t.body[0], ast.Assign) and isinstance(t.body[0].value, ast.Call)
         and dotted(t.body[0].value.func) == 'self.raw_parse' and len(t.body[0].value.args) == 1
         and is_name(t.body[0].value.args[0], 'expression_no_whitespace'), 'MathParser.parse: guarded statement')
    h = t.handlers[0]
    need(h.name is None and len(h.body) == 2 and isinstance(h.body[0], ast.Assign) and is_name(h.body[0].targets[0], 'msg'),
         'MathParser.parse: handler must be  msg = "..." ; raise C(msg.format(expression))')
    tmpl = const_str(h.body[0].value)
    cls, arg = raise_new(h.body[1], 'MathParser.parse handler')
    tmpl2, args, kws = format_call(arg, {'msg': tmpl}, 'MathParser.parse handler')
    need(len(args) == 1 and is_name(args[0], 'expression') and not kws, 'MathParser.parse: msg.format(expression)')
    # the stripped character: expression.replace(' ', '')
    strip = None
    for s in strip_doc(fn.body):
        if isinstance(s, ast.Assign) and is_name(s.targets[0], 'expression_no_whitespace'):
            c = s.value
            need(isinstance(c, ast.Call) and dotted(c.func) == 'expression.replace' and len(c.args) == 2 and const_str(c.args[1]) == '',
                 'MathParser.parse: expression.replace(<chars>, "")')
            strip = const_str(c.args[0])
    need(strip is not None, 'MathParser.parse: whitespace stripping not found')
    # raw_parse: order of calls inside the try
    rp = core.find_def(tree, 'MathParser.raw_parse')
    need(isinstance(rp, ast.FunctionDef), 'MathParser.raw_parse not found')
    rt = one_try(rp, 'MathParser.raw_parse')
    need(len(rt.handlers) == 1 and rt.handlers[0].type is None and len(rt.handlers[0].body) == 1
         and isinstance(rt.handlers[0].body[0], ast.Raise) and rt.handlers[0].body[0].exc is None,
         'MathParser.raw_parse: the except clause must re-raise')
    steps = []
    for s in rt.body:
        need(isinstance(s, (ast.Expr, ast.Assign)), 'MathParser.raw_parse: statement kind in try')
        v = s.value
        while isinstance(v, ast.Subscript):
            v = v.value
        need(isinstance(v, ast.Call), 'MathParser.raw_parse: expected calls in try')
        need(len(v.args) >= 1 and is_name(v.args[0], 'expression'), 'MathParser.raw_parse: calls must take `expression` first')
        steps.append(dotted(v.func))
    return (handler_type(h, 'MathParser.parse'), 'RaiseNew %s %s' % (cname(cls), template(tmpl)), tmpl), strip, steps


# ---------------------------------------------------------------------------------------------------------------
# 4. the guard of AbstractGrader.__call__
# ---------------------------------------------------------------------------------------------------------------
def guard(tree):
    fn = core.find_def(tree, 'AbstractGrader.__call__')
    need(isinstance(fn, ast.FunctionDef), 'AbstractGrader.__call__ not found')
    body = strip_doc(fn.body)
    tries = [s for s in body if isinstance(s, ast.Try)]
    need(len(tries) == 1 and len([n for n in ast.walk(fn) if isinstance(n, ast.Try)]) == 1, '__call__: expected one top-level try')
    t = tries[0]
    need(not t.orelse and not t.finalbody and len(t.handlers) == 1, '__call__: try shape')
    # first statement: student_input = self.ensure_text_inputs(student_input)
    s0 = body[0]
    need(isinstance(s0, ast.Assign) and is_name(s0.targets[0], 'student_input') and isinstance(s0.value, ast.Call)
         and dotted(s0.value.func) == 'self.ensure_text_inputs' and len(s0.value.args) == 1 and is_name(s0.value.args[0], 'student_input')
         and not s0.value.keywords, '__call__: first statement must be student_input = self.ensure_text_inputs(student_input)')
    need(body.index(t) > 0 and all(not isinstance(s, (ast.Return, ast.Raise)) for s in body[:body.index(t)]), '__call__: statements before try')
    # guarded statement: result = self.check(None, student_input)
    need(len(t.body) == 1 and isinstance(t.body[0], ast.Assign) and is_name(t.body[0].targets[0], 'result'), '__call__: guarded statement')
    c = t.body[0].value
    need(isinstance(c, ast.Call) and dotted(c.func) == 'self.check' and len(c.args) == 2 and isinstance(c.args[0], ast.Constant)
         and c.args[0].value is None and is_name(c.args[1], 'student_input') and not c.keywords,
         '__call__: guarded statement must be result = self.check(None, student_input)')
    h = t.handlers[0]
    catch = handler_type(h, '__call__')
    need(h.name == 'error' and len(h.body) == 1 and isinstance(h.body[0], ast.If), '__call__: handler must be one if/elif/else on `error`')
    i1 = h.body[0]
    # if self.config['debug']: raise
    need(isinstance(i1.test, ast.Subscript) and dotted(i1.test.value) == 'self.config', "__call__: first test must be self.config[<key>]")
    debug_key = const_str(i1.test.slice)
    need(len(i1.body) == 1 and isinstance(i1.body[0], ast.Raise) and i1.body[0].exc is None, '__call__: debug branch must be a bare raise')
    need(len(i1.orelse) == 1 and isinstance(i1.orelse[0], ast.If), '__call__: elif isinstance(...) expected')
    i2 = i1.orelse[0]
    need(isinstance(i2.test, ast.Call) and is_name(i2.test.func, 'isinstance') and len(i2.test.args) == 2 and is_name(i2.test.args[0], 'error')
         and isinstance(i2.test.args[1], ast.Name), '__call__: elif isinstance(error, <Class>)')
    keep_root = i2.test.args[1].id
    need(len(i2.body) == 1 and isinstance(i2.body[0], ast.Raise) and i2.body[0].cause is None, '__call__: keep branch must raise')
    r = i2.body[0].exc
    need(isinstance(r, ast.Call) and dotted(r.func) == 'error.__class__' and len(r.args) == 1 and not r.keywords, '__call__: raise error.__class__(...)')
    rep = r.args[0]
    need(isinstance(rep, ast.Call) and isinstance(rep.func, ast.Attribute) and rep.func.attr == 'replace' and len(rep.args) == 2
         and isinstance(rep.func.value, ast.Call) and is_name(rep.func.value.func, 'str') and len(rep.func.value.args) == 1
         and is_name(rep.func.value.args[0], 'error'), "__call__: str(error).replace(a, b)")
    replace = (const_str(rep.args[0]), const_str(rep.args[1]))
    # else: if isinstance(student_input, list): msg = ...; formatted = msg.format(sep.join(student_input)) else: ... ; raise C(formatted)
    e = i2.orelse
    need(len(e) == 2 and isinstance(e[0], ast.If) and isinstance(e[1], ast.Raise), '__call__: generic branch shape')
    i3 = e[0]
    need(isinstance(i3.test, ast.Call) and is_name(i3.test.func, 'isinstance') and is_name(i3.test.args[0], 'student_input')
         and is_name(i3.test.args[1], 'list'), '__call__: isinstance(student_input, list)')

    def branch(stmts, what):
        need(len(stmts) == 2 and all(isinstance(s, ast.Assign) for s in stmts) and is_name(stmts[0].targets[0], 'msg')
             and is_name(stmts[1].targets[0], 'formatted'), '__call__: %s branch must be msg = ...; formatted = msg.format(...)' % what)
        tmpl = const_str(stmts[0].value)
        t2, args, kws = format_call(stmts[1].value, {'msg': tmpl}, '__call__ ' + what)
        need(len(args) == 1 and not kws, '__call__: msg.format(<one argument>)')
        return tmpl, args[0]
    ltmpl, larg = branch(i3.body, 'list')
    need(isinstance(larg, ast.Call) and isinstance(larg.func, ast.Attribute) and larg.func.attr == 'join' and len(larg.args) == 1
         and is_name(larg.args[0], 'student_input'), '__call__: <sep>.join(student_input)')
    sep = const_str(larg.func.value)
    stmpl, sarg = branch(i3.orelse, 'single')
    need(is_name(sarg, 'student_input'), '__call__: msg.format(student_input)')
    gcls, garg = raise_new(e[1], '__call__ generic')
    need(is_name(garg, 'formatted'), '__call__: raise C(formatted)')
    return dict(catch=catch, debug_key=debug_key, keep_root=keep_root, replace=replace, list_msg=ltmpl, list_sep=sep,
                single_msg=stmpl, generic_cls=gcls)


# ---------------------------------------------------------------------------------------------------------------
# 5. ensure_text_inputs
# ---------------------------------------------------------------------------------------------------------------
ATOMS = {'allow_lists': 'allow_lists', 'allow_single': 'allow_single'}


def cond(e):
    if isinstance(e, ast.Name) and e.id in ATOMS:
        return 'CAtom "%s"' % e.id
    if isinstance(e, ast.Call) and is_name(e.func, 'isinstance') and len(e.args) == 2 and is_name(e.args[0], 'student_input') \
            and is_name(e.args[1], 'list'):
        return 'CAtom "is_list"'
    if isinstance(e, ast.UnaryOp) and isinstance(e.op, ast.Not):
        return 'CNot (%s)' % cond(e.operand)
    if isinstance(e, ast.BoolOp) and isinstance(e.op, ast.And):
        out = cond(e.values[-1])
        for v in reversed(e.values[:-1]):
            out = 'CAnd (%s) (%s)' % (cond(v), out)
        return out
    raise Unsupported('ensure_text_inputs: condition ' + ast.dump(e)[:160])


def chain(node):
    """if/elif/.../else -> ([(test, body)], else_body)"""
    out = []
    while True:
        out.append((node.test, node.body))
        if len(node.orelse) == 1 and isinstance(node.orelse[0], ast.If):
            node = node.orelse[0]
            continue
        return out, node.orelse


def ensure(tree, ltree):
    fn = core.find_def(tree, 'AbstractGrader.ensure_text_inputs')
    need(isinstance(fn, ast.FunctionDef), 'AbstractGrader.ensure_text_inputs not found')
    a = fn.args
    need([x.arg for x in a.args] == ['student_input', 'allow_lists', 'allow_single'] and len(a.defaults) == 2
         and not a.vararg and not a.kwarg and not a.kwonlyargs, 'ensure_text_inputs: signature')
    defaults = tuple(d.value for d in a.defaults)
    need(all(isinstance(d, bool) for d in defaults), 'ensure_text_inputs: defaults must be booleans')
    body = strip_doc(fn.body)
    need(len(body) == 3 and isinstance(body[0], ast.Try) and isinstance(body[1], ast.If) and isinstance(body[2], ast.Raise),
         'ensure_text_inputs: expected  try / if-chain / raise')
    t = body[0]
    need(not t.orelse and not t.finalbody and len(t.handlers) == 1 and len(t.body) == 1 and isinstance(t.body[0], ast.If), 'ensure_text_inputs: try shape')
    branches, els = chain(t.body[0])
    need(not els, 'ensure_text_inputs: validation chain has an else')
    validate = []
    for test, b in branches:
        need(len(b) == 1 and isinstance(b[0], ast.Return) and isinstance(b[0].value, ast.Call) and len(b[0].value.args) == 1
             and is_name(b[0].value.args[0], 'student_input'), 'ensure_text_inputs: validation branch must return Schema(..)(student_input)')
        sc = b[0].value.func
        need(isinstance(sc, ast.Call) and is_name(sc.func, 'Schema') and len(sc.args) == 1 and not sc.keywords, 'ensure_text_inputs: Schema(<x>)')
        x = sc.args[0]
        if is_name(x, 'str'):
            kind = 'SStr'
        elif isinstance(x, ast.List) and len(x.elts) == 1 and is_name(x.elts[0], 'str'):
            kind = 'SListOfStr'
        else:
            raise Unsupported('ensure_text_inputs: schema ' + ast.dump(x))
        validate.append('(%s, %s)' % (cond(test), kind))
    h = t.handlers[0]
    invalid = handler_type(h, 'ensure_text_inputs')
    need(h.name == 'error' and len(h.body) == 1 and isinstance(h.body[0], ast.If) and not h.body[0].orelse and len(h.body[0].body) == 1,
         'ensure_text_inputs: handler shape')
    pos_cond = cond(h.body[0].test)
    ps = h.body[0].body[0]
    need(isinstance(ps, ast.Assign) and is_name(ps.targets[0], 'pos') and isinstance(ps.value, ast.IfExp)
         and dotted(ps.value.test) == 'error.path' and isinstance(ps.value.body, ast.Subscript) and dotted(ps.value.body.value) == 'error.path'
         and isinstance(ps.value.body.slice, ast.Constant) and ps.value.body.slice.value == 0
         and isinstance(ps.value.orelse, ast.Constant) and ps.value.orelse.value is None,
         'ensure_text_inputs: pos = error.path[0] if error.path else None')
    mbranches, mels = chain(body[1])
    messages = []
    texts = []
    for test, b in mbranches:
        need(len(b) == 1 and isinstance(b[0], ast.Assign) and is_name(b[0].targets[0], 'msg'), 'ensure_text_inputs: message branch must assign msg')
        tmpl, args, kws = format_call(b[0].value, {}, 'ensure_text_inputs message')
        holes = {}
        if args:
            need(len(args) == 1 and not kws, 'ensure_text_inputs: positional format argument')
            holes['0'] = args[0]
        for k in kws:
            holes[k.arg] = k.value
        for name, v in holes.items():
            if name == 'pos':
                need(is_name(v, 'pos'), 'ensure_text_inputs: pos=pos')
            else:
                need(isinstance(v, ast.Call) and is_name(v.func, 'type') and len(v.args) == 1, 'ensure_text_inputs: hole %s must be type(...)' % name)
                inner = v.args[0]
                if name == 'thetype':
                    need(isinstance(inner, ast.Subscript) and is_name(inner.value, 'student_input') and is_name(inner.slice, 'pos'),
                         'ensure_text_inputs: thetype=type(student_input[pos])')
                else:
                    need(name == '0' and is_name(inner, 'student_input'), 'ensure_text_inputs: {} must be type(student_input)')
        messages.append('(%s, %s)' % (cond(test), template(tmpl)))
        texts.append(tmpl)
    need(len(mels) == 1, 'ensure_text_inputs: else branch')
    ecls, earg = raise_new(mels[0], 'ensure_text_inputs else')
    etext = const_str(earg)
    fcls, farg = raise_new(body[2], 'ensure_text_inputs final raise')
    need(is_name(farg, 'msg'), 'ensure_text_inputs: raise C(msg)')

    def wrapper(tr, qual):
        w = core.find_def(tr, qual)
        need(isinstance(w, ast.FunctionDef) and [x.arg for x in w.args.args] == ['student_input'], qual + ': signature')
        need(any(isinstance(d, ast.Name) and d.id == 'staticmethod' for d in w.decorator_list), qual + ': must be a staticmethod')
        b = strip_doc(w.body)
        need(len(b) == 1 and isinstance(b[0], ast.Return) and isinstance(b[0].value, ast.Call), qual + ': body must be a single return')
        c = b[0].value
        need(isinstance(c.func, ast.Attribute) and c.func.attr == 'ensure_text_inputs' and isinstance(c.func.value, ast.Call)
             and is_name(c.func.value.func, 'super') and len(c.args) == 1 and is_name(c.args[0], 'student_input'), qual + ': super(...).ensure_text_inputs(student_input, ...)')
        kws = []
        for k in c.keywords:
            need(k.arg in ('allow_lists', 'allow_single') and isinstance(k.value, ast.Constant) and isinstance(k.value.value, bool), qual + ': keyword')
            kws.append('("%s", %s)' % (k.arg, cbool(k.value.value)))
        return clist(kws)
    item = wrapper(tree, 'ItemGrader.ensure_text_inputs')
    lst = wrapper(ltree, 'ListGrader.ensure_text_inputs')
    # no other class overrides it
    root = os.path.join(core.REPO, 'mitxgraders')
    count = 0
    for path in sorted(glob.glob(os.path.join(root, '**', '*.py'), recursive=True)):
        for node in ast.walk(ast.parse(open(path).read())):
            if isinstance(node, ast.FunctionDef) and node.name == 'ensure_text_inputs':
                count += 1
    need(count == 3, 'ensure_text_inputs is defined %d times in the package (expected 3)' % count)
    return dict(defaults=defaults, validate=validate, invalid=invalid, pos_cond=pos_cond, messages=messages, texts=texts,
                els=(ecls, etext), cls=fcls, item=item, lst=lst)


# ---------------------------------------------------------------------------------------------------------------
def generate():
    etree = ast.parse(core.repo_source('mitxgraders/helpers/calc/expressions.py'))
    btree = ast.parse(core.repo_source('mitxgraders/baseclasses.py'))
    ltree = ast.parse(core.repo_source('mitxgraders/listgrader.py'))
    out = ['(* GENERATED by translate/callguard.py from /repo -- do not edit *)',
           'From Coq Require Import ZArith List String Bool.',
           'From Verif.Lib Require Import CallGuardBase.',
           'Import ListNotations.', 'Open Scope string_scope.', '']
    table = exception_table()
    out.append('(* class headers: (class, base) *)')
    out.append('Definition exc_table : list (string * string) :=\n  ' +
               clist(['(%s, %s) (* %s *)' % (cname(n), cname(b), rel) for n, b, rel in table], sep=';\n   ') + '.\n')
    rules, default, seterr, seterrcall = np_tables(etree)
    out.append('(* handle_np_floating_errors: first rule whose key occurs in the numpy message *)')
    out.append('Definition np_err_rules : list (cstr * string) :=\n  ' +
               clist(['(%s, %s) %s' % (ctext(k), cname(c), comment(k)) for k, c in rules], sep=';\n   ') + '.')
    out.append('Definition np_err_default : string := %s.' % cname(default))
    out.append('Definition np_seterr : list (string * string) := %s.' % clist(['(%s, %s)' % (cname(k), cname(v)) for k, v in seterr]))
    out.append('Definition np_seterrcall : string := %s.\n' % cname(seterrcall))
    eh = eval_handlers(etree)
    out.append('(* MathExpression.eval *)')
    out.append('Definition eval_handlers : list (string * action) :=\n  ' +
               clist(['(%s, %s) %s' % (cname(t), a, comment(txt)) for t, a, txt in eh], sep=';\n   ') + '.\n')
    fh, (acls, atmpl) = evalfn_handlers(etree)
    out.append('(* MathExpression.eval_function *)')
    out.append('Definition evalfn_handlers : list (string * action) :=\n  ' +
               clist(['(%s, %s) %s' % (cname(t), a, comment(txt)) for t, a, txt in fh], sep=';\n   ') + '.')
    out.append('Definition arity_error : string * list tpart := (%s, %s). %s\n' % (cname(acls), template(atmpl), comment(atmpl)))
    (pt, pa, ptxt), strip, steps = parse_handlers(etree)
    out.append('(* MathParser.parse / raw_parse *)')
    out.append('Definition parse_handlers : list (string * action) := [(%s, %s)]. %s' % (cname(pt), pa, comment(ptxt)))
    out.append('Definition parse_strip : cstr := %s.' % ctext(strip))
    out.append('Definition raw_parse_steps : list string := %s.\n' % clist([cname(s) for s in steps]))
    g = guard(btree)
    out.append('(* AbstractGrader.__call__ *)')
    out.append('Definition guard : guard_spec :=\n  mkGuardSpec %s %s %s (%s, %s)\n    %s %s\n    %s %s\n    %s %s\n    %s.\n' % (
        cname(g['catch']), cname(g['debug_key']), cname(g['keep_root']), ctext(g['replace'][0]), ctext(g['replace'][1]),
        template(g['list_msg']), comment(g['list_msg']), ctext(g['list_sep']), comment(g['list_sep']),
        template(g['single_msg']), comment(g['single_msg']), cname(g['generic_cls'])))
    e = ensure(btree, ltree)
    out.append('(* AbstractGrader.ensure_text_inputs and its two wrappers *)')
    out.append('Definition ensure : ensure_spec :=\n  mkEnsureSpec (%s, %s)\n    %s\n    %s\n    (%s)\n    %s\n    (%s, %s)\n    %s\n    %s\n    %s.' % (
        cbool(e['defaults'][0]), cbool(e['defaults'][1]), clist(e['validate'], sep=';\n     '), cname(e['invalid']), e['pos_cond'],
        clist(['%s %s' % (m, comment(t)) for m, t in zip(e['messages'], e['texts'])], sep=';\n     '),
        cname(e['els'][0]), ctext(e['els'][1]), cname(e['cls']), e['item'], e['lst']))
    return '\n'.join(out) + '\n'


if __name__ == '__main__':
    print(generate())
