"""protocol.py -- regenerate coq/Gen/Protocol.v from /repo (translator A for C11).

Two parts, both fail-closed (anything outside the declared shapes raises Unsupported):

1. PROGRAMS.  ItemGrader.__call__, AbstractGrader.__call__, AbstractGrader.create_debuglog
   (mitxgraders/baseclasses.py) and MathArray.enable_negative_powers (helpers/calc/math_array.py) are
   translated statement by statement into the command language of coq/Lib/ProtocolSyntax.v.  The part of
   AbstractGrader.__call__ from the guarded check to the return, and the two log-formatting statements of
   create_debuglog, are not modelled statement-wise; they are pinned by a normalised-AST digest.

2. WRITE-SITE INVENTORY.  Every statement in mitxgraders/ that can change an object the running function did
   not create: assignment / augmented assignment / del through an attribute or subscript, augmented
   assignment to a bare name, and calls of mutating methods, whose target is rooted in `self`, `cls`, a
   parameter, a module-level or class-level name, or a local alias of one of these (flow-insensitive taint
   through plain assignments, loop targets, with-targets, conditional and boolean expressions, subscripts,
   attribute reads and alias-returning calls such as dict.get / items / values / zip / enumerate).
   Also every call of a function that changes interpreter-wide state (np.seterr, np.seterrcall, random.seed,
   np.random.seed, np.seterrobj, setattr, globals().update, ...).
"""
import ast
import hashlib
import os

from harness import core


class Unsupported(Exception):
    pass


BASE = 'mitxgraders/baseclasses.py'
MARR = 'mitxgraders/helpers/calc/math_array.py'
MGRD = 'mitxgraders/formulagrader/matrixgrader.py'


def dump(node):
    return ast.dump(node, include_attributes=False)


def digest(nodes):
    return hashlib.sha256('\n'.join(dump(n) for n in nodes).encode()).hexdigest()[:16]


def body_of(fn):
    b = list(fn.body)
    if b and isinstance(b[0], ast.Expr) and isinstance(getattr(b[0], 'value', None), ast.Constant) \
            and isinstance(b[0].value.value, str):
        b = b[1:]
    return b


def src(node):
    return ast.unparse(node)


# ------------------------------------------------------------------------------------------------
# part 1: programs
# ------------------------------------------------------------------------------------------------
def is_self_attr(e, name):
    return isinstance(e, ast.Attribute) and isinstance(e.value, ast.Name) and e.value.id == 'self' and e.attr == name


def is_cfg_answers(e):
    return (isinstance(e, ast.Subscript) and is_self_attr(e.value, 'config')
            and isinstance(e.slice, ast.Constant) and e.slice.value == 'answers')


def bexp(e):
    if isinstance(e, ast.Compare) and len(e.ops) == 1 and isinstance(e.left, ast.Name) and e.left.id == 'expect' \
            and isinstance(e.comparators[0], ast.Constant) and e.comparators[0].value is None:
        if isinstance(e.ops[0], ast.IsNot):
            return 'BExpectGiven'
        if isinstance(e.ops[0], ast.Is):
            return '(BNot BExpectGiven)'
    if is_self_attr(e, 'inferring_answers'):
        return 'BInferring'
    if is_self_attr(e, 'log_created'):
        return 'BLogCreated'
    if is_cfg_answers(e):
        return 'BHasAnswers'
    if isinstance(e, ast.UnaryOp) and isinstance(e.op, ast.Not):
        return '(BNot %s)' % bexp(e.operand)
    if isinstance(e, ast.BoolOp):
        op = 'BAnd' if isinstance(e.op, ast.And) else 'BOr'
        parts = [bexp(v) for v in e.values]
        out = parts[-1]
        for p in reversed(parts[:-1]):
            out = '(%s %s %s)' % (op, p, out)
        return out
    raise Unsupported('condition %s' % src(e))


def loc(e):
    if is_cfg_answers(e):
        return 'Cfg'
    if isinstance(e, ast.Name) and e.id == 'answers':
        return 'Tmp'
    raise Unsupported('location %s' % src(e))


def self_call(e, name):
    """e is  self.<name>(args)  -> args, else None"""
    if isinstance(e, ast.Call) and is_self_attr(e.func, name) and not e.keywords:
        return e.args
    return None


def is_name(e, n):
    return isinstance(e, ast.Name) and e.id == n


def boolconst(e):
    if isinstance(e, ast.Constant) and isinstance(e.value, bool):
        return 'true' if e.value else 'false'
    raise Unsupported('expected True/False, got %s' % src(e))


INFER_MSG = "Expect value inferred to be {}"


def cmds(stmts, where):
    """statement list -> list of cmd terms (strings)"""
    out = []
    i = 0
    while i < len(stmts):
        s = stmts[i]
        i += 1
        if isinstance(s, ast.Expr):
            a = self_call(s.value, 'create_debuglog')
            if a is not None and len(a) == 1 and is_name(a[0], 'student_input'):
                out.append('CCreateLog')
                continue
            a = self_call(s.value, 'log')
            if a is not None and len(a) == 1:
                c = a[0]
                if (isinstance(c, ast.Call) and isinstance(c.func, ast.Attribute) and c.func.attr == 'format'
                        and isinstance(c.func.value, ast.Constant) and c.func.value.value == INFER_MSG
                        and len(c.args) == 1 and is_name(c.args[0], 'output')):
                    out.append('CLogInferred')
                    continue
            raise Unsupported('%s: statement %s' % (where, src(s)))
        if isinstance(s, ast.Assign) and len(s.targets) == 1:
            t, v = s.targets[0], s.value
            if is_name(t, 'inferred'):
                a = self_call(v, 'infer_from_expect')
                if a is not None and len(a) == 1 and is_name(a[0], 'expect'):
                    out.append('CInfer')
                    continue
            if is_name(t, 'output'):
                # output = json.dumps(inferred)   (only feeds the log line that must follow)
                if (isinstance(v, ast.Call) and isinstance(v.func, ast.Attribute) and v.func.attr == 'dumps'
                        and is_name(v.func.value, 'json') and len(v.args) == 1 and is_name(v.args[0], 'inferred')
                        and not v.keywords):
                    continue
            if is_name(t, 'student_input'):
                a = self_call(v, 'ensure_text_inputs')
                if a is not None and len(a) == 1 and is_name(a[0], 'student_input'):
                    out.append('CEnsureText')
                    continue
            if is_self_attr(t, 'inferring_answers'):
                out.append('(CSetInferring %s)' % boolconst(v))
                continue
            if is_self_attr(t, 'log_created'):
                out.append('(CSetLogCreated %s)' % boolconst(v))
                continue
            a = self_call(v, 'schema_answers')
            if a is not None and len(a) == 1 and is_name(a[0], 'inferred'):
                out.append('(CSchema %s)' % loc(t))
                continue
            a = self_call(v, 'post_schema_ans_val')
            if a is not None and len(a) == 1:
                out.append('(CPost %s %s)' % (loc(a[0]), loc(t)))
                continue
            try:
                out.append('(CMove %s %s)' % (loc(v), loc(t)))
                continue
            except Unsupported:
                pass
        raise Unsupported('%s: statement %s' % (where, src(s)))
    return out


# digest of AbstractGrader.__call__ from `try: result = self.check(None, student_input)` to `return result`
PINNED = {
    'abstract_call_tail': 'cb2babae260f8e96',
    'create_log_response': '98e643e854aa6545',
    'create_log_defaults': '4fe9b6b74289e785',
}


def super_call(s, cls):
    """return super(<cls>, self).__call__(expect, student_input, **kwargs)"""
    if not isinstance(s, ast.Return) or not isinstance(s.value, ast.Call):
        return False
    c = s.value
    f = c.func
    if not (isinstance(f, ast.Attribute) and f.attr == '__call__' and isinstance(f.value, ast.Call)
            and is_name(f.value.func, 'super')):
        return False
    sa = f.value.args
    if sa and not (len(sa) == 2 and is_name(sa[0], cls) and is_name(sa[1], 'self')):
        return False
    if not (len(c.args) == 2 and is_name(c.args[0], 'expect') and is_name(c.args[1], 'student_input')):
        return False
    return len(c.keywords) == 1 and c.keywords[0].arg is None and is_name(c.keywords[0].value, 'kwargs')


def item_call(tree):
    fn = core.find_def(tree, 'ItemGrader.__call__')
    if fn is None:
        raise Unsupported('ItemGrader.__call__ not found')
    args = [a.arg for a in fn.args.args]
    if args != ['self', 'expect', 'student_input'] or fn.args.kwarg is None or fn.args.kwarg.arg != 'kwargs':
        raise Unsupported('ItemGrader.__call__ signature %r' % (args,))
    b = body_of(fn)
    fin = []
    if len(b) == 1 and isinstance(b[0], ast.Try) and not b[0].handlers and not b[0].orelse and b[0].finalbody:
        fin = cmds(b[0].finalbody, 'ItemGrader.__call__ finally')
        b = b[0].body
    if len(b) == 2 and isinstance(b[1], ast.Try) and not b[1].handlers and not b[1].orelse and b[1].finalbody \
            and len(b[1].body) == 1:
        fin = cmds(b[1].finalbody, 'ItemGrader.__call__ finally')
        b = [b[0], b[1].body[0]]
    if len(b) != 2 or not isinstance(b[0], ast.If) or b[0].orelse:
        raise Unsupported('ItemGrader.__call__: expected `if <cond>: <inference>` followed by `return super().__call__`')
    if not super_call(b[1], 'ItemGrader'):
        raise Unsupported('ItemGrader.__call__: last statement %s' % src(b[1]))
    return bexp(b[0].test), cmds(b[0].body, 'ItemGrader.__call__'), fin


def abstract_call(tree):
    fn = core.find_def(tree, 'AbstractGrader.__call__')
    if fn is None:
        raise Unsupported('AbstractGrader.__call__ not found')
    b = body_of(fn)
    k = None
    for i, s in enumerate(b):
        if isinstance(s, ast.Try):
            k = i
            break
    if k is None:
        raise Unsupported('AbstractGrader.__call__: no guarded check')
    fin = []
    tail = b[k:]
    t = b[k]
    if not t.handlers and t.finalbody and not t.orelse:
        # try: <everything> finally: <cleanup>
        raise Unsupported('AbstractGrader.__call__: try/finally around the body is not in the translated subset')
    d = digest(tail)
    if d != PINNED['abstract_call_tail']:
        raise Unsupported('AbstractGrader.__call__: the guarded check / result clean-up / debug output / return '
                          'differs from the pinned shape (digest %s, expected %s)' % (d, PINNED['abstract_call_tail']))
    return cmds(b[:k], 'AbstractGrader.__call__') + ['CCheck'], fin


def create_debuglog(tree):
    fn = core.find_def(tree, 'AbstractGrader.create_debuglog')
    if fn is None:
        raise Unsupported('create_debuglog not found')
    if [a.arg for a in fn.args.args] != ['self', 'student_input']:
        raise Unsupported('create_debuglog signature')
    b = body_of(fn)
    if not (b and isinstance(b[0], ast.If) and not b[0].orelse and len(b[0].body) == 1
            and isinstance(b[0].body[0], ast.Return) and b[0].body[0].value is None):
        raise Unsupported('create_debuglog: expected `if <cond>: return` first')
    guard = bexp(b[0].test)
    out = []
    i = 1
    while i < len(b):
        s = b[i]
        i += 1
        if isinstance(s, ast.Assign) and len(s.targets) == 1 and is_self_attr(s.targets[0], 'debuglog') \
                and isinstance(s.value, ast.List) and not s.value.elts:
            out.append('LcReset')
            continue
        if isinstance(s, ast.Assign) and len(s.targets) == 1 and is_self_attr(s.targets[0], 'log_created'):
            out.append('(LcSetCreated %s)' % boolconst(s.value))
            continue
        if isinstance(s, ast.Expr) and self_call(s.value, 'log') is not None:
            t = src(s.value)
            if t == "self.log('MITx Grading Library Version ' + __version__)" and i < len(b) \
                    and src(b[i]) == "self.log('Running on edX using python ' + platform.python_version())":
                i += 1
                out.append('LcVersion')
                continue
        if isinstance(s, ast.If):
            d = digest([s])
            if d == PINNED['create_log_response']:
                out.append('LcResponse')
                continue
            if d == PINNED['create_log_defaults']:
                out.append('LcDefaults')
                continue
        raise Unsupported('create_debuglog: statement %s' % src(s))
    # class attribute  log_created = False  must precede (initial state of the flag)
    cls = core.find_def(tree, 'AbstractGrader')
    init = [s for s in cls.body if isinstance(s, ast.Assign) and any(is_name(t, 'log_created') for t in s.targets)]
    if len(init) != 1 or boolconst(init[0].value) != 'false':
        raise Unsupported('AbstractGrader.log_created initial value')
    icls = core.find_def(tree, 'ItemGrader')
    init = [s for s in icls.body if isinstance(s, ast.Assign) and any(is_name(t, 'inferring_answers') for t in s.targets)]
    if len(init) != 1 or boolconst(init[0].value) != 'false':
        raise Unsupported('ItemGrader.inferring_answers initial value')
    return guard, out


def cls_attr(e, name):
    return isinstance(e, ast.Attribute) and is_name(e.value, 'cls') and e.attr == name


def switch_prog(tree):
    cls = core.find_def(tree, 'MathArray')
    fn = core.find_def(tree, 'MathArray.enable_negative_powers')
    if cls is None or fn is None:
        raise Unsupported('MathArray.enable_negative_powers not found')
    decos = [src(d) for d in fn.decorator_list]
    if decos != ['classmethod', 'contextmanager']:
        raise Unsupported('enable_negative_powers decorators %r' % decos)
    if [a.arg for a in fn.args.args] != ['cls', 'value']:
        raise Unsupported('enable_negative_powers signature')
    init = {}
    for s in cls.body:
        if isinstance(s, ast.Assign) and len(s.targets) == 1 and isinstance(s.targets[0], ast.Name) \
                and s.targets[0].id in ('_default_negative_powers', '_negative_powers'):
            init[s.targets[0].id] = boolconst(s.value)
    if sorted(init) != ['_default_negative_powers', '_negative_powers']:
        raise Unsupported('MathArray switch attributes %r' % init)

    def setc(s):
        if isinstance(s, ast.Assign) and len(s.targets) == 1 and cls_attr(s.targets[0], '_negative_powers'):
            if is_name(s.value, 'value'):
                return '(SwSet SvArg)'
            if cls_attr(s.value, '_default_negative_powers'):
                return '(SwSet SvDefault)'
        raise Unsupported('enable_negative_powers: statement %s' % src(s))

    def is_yield(s):
        return isinstance(s, ast.Expr) and isinstance(s.value, ast.Yield) and s.value.value is None

    b = body_of(fn)
    setup, teardown, in_finally, seen = [], [], None, False
    for s in b:
        if is_yield(s):
            if seen:
                raise Unsupported('two yields')
            seen, in_finally = True, False
        elif isinstance(s, ast.Try) and not s.handlers and not s.orelse and len(s.body) == 1 and is_yield(s.body[0]):
            if seen:
                raise Unsupported('two yields')
            seen, in_finally = True, True
            teardown += [setc(x) for x in s.finalbody]
        elif not seen:
            setup.append(setc(s))
        else:
            if in_finally:
                raise Unsupported('statements after try/finally')
            teardown.append(setc(s))
    if not seen:
        raise Unsupported('enable_negative_powers: no yield')
    return setup, in_finally, teardown, init


def matrix_check_uses_switch(tree):
    fn = core.find_def(tree, 'MatrixGrader.check_response')
    if fn is None:
        raise Unsupported('MatrixGrader.check_response not found')
    b = body_of(fn)
    if not (b and isinstance(b[0], ast.Try) and len(b[0].body) == 1 and isinstance(b[0].body[0], ast.With)):
        raise Unsupported('MatrixGrader.check_response: expected try: with ...')
    w = b[0].body[0]
    if len(w.items) != 1 or src(w.items[0].context_expr) != "MathArray.enable_negative_powers(self.config['negative_powers'])":
        raise Unsupported('MatrixGrader.check_response: with-item %s' % src(w.items[0].context_expr))
    if len(w.body) != 1 or 'check_response(answer, student_input, **kwargs)' not in src(w.body[0]):
        raise Unsupported('MatrixGrader.check_response: with-body %s' % src(w.body[0]))
    # no other use of the switch anywhere in the class
    return True


# ------------------------------------------------------------------------------------------------
# part 2: write-site inventory
# ------------------------------------------------------------------------------------------------
MUTATORS = {'append', 'extend', 'insert', 'remove', 'pop', 'clear', 'sort', 'reverse', 'update', 'setdefault',
            'popitem', 'add', 'discard', 'difference_update', 'intersection_update', 'symmetric_difference_update',
            'fill', 'put', 'itemset', 'resize', 'setflags', '__setitem__', '__delitem__', '__setattr__'}
ALIAS_METHODS = {'get', 'setdefault', 'items', 'values', 'keys', 'pop', '__getitem__', 'view', 'reshape', 'ravel'}
ALIAS_FUNCS = {'zip', 'enumerate', 'reversed', 'iter', 'next', 'getattr', 'sorted_alias'}
GLOBAL_SETTERS = {'np.seterr', 'np.seterrcall', 'np.seterrobj', 'numpy.seterr', 'np.random.seed', 'random.seed',
                  'np.set_printoptions', 'setattr', 'delattr', 'sys.setrecursionlimit', 'np.random.set_state',
                  'random.setstate', 'warnings.simplefilter', 'warnings.filterwarnings', 'os.environ.update',
                  'globals', 'exec', 'np.errstate'}


def root_of(e):
    """the Name at the bottom of an attribute/subscript chain, the depth, or None"""
    depth = 0
    while isinstance(e, (ast.Attribute, ast.Subscript, ast.Starred)):
        e = e.value
        depth += 1
    if isinstance(e, ast.Name):
        return e.id, depth
    if isinstance(e, ast.Call):
        # f(...).x = ...   e.g. super(...).foo ; treat the callee root
        return None, depth
    return None, depth


def alias_sources(e):
    """names whose objects the value of expression e may share structure with"""
    if isinstance(e, ast.Name):
        return {e.id}
    if isinstance(e, ast.Subscript) and isinstance(e.slice, ast.Slice):
        return set()                      # x[a:b] is a (shallow) copy
    if isinstance(e, (ast.Attribute, ast.Subscript, ast.Starred)):
        return alias_sources(e.value)
    if isinstance(e, ast.IfExp):
        return alias_sources(e.body) | alias_sources(e.orelse)
    if isinstance(e, ast.BoolOp):
        out = set()
        for v in e.values:
            out |= alias_sources(v)
        return out
    if isinstance(e, ast.NamedExpr):
        return alias_sources(e.value)
    if isinstance(e, (ast.Tuple, ast.List)):
        out = set()
        for v in e.elts:
            out |= alias_sources(v)
        return out
    if isinstance(e, ast.Call):
        f = e.func
        if isinstance(f, ast.Attribute) and f.attr in ALIAS_METHODS:
            return alias_sources(f.value)
        if isinstance(f, ast.Name) and f.id in ALIAS_FUNCS:
            out = set()
            for a in e.args:
                out |= alias_sources(a)
            return out
        return set()
    return set()


def target_names(t):
    if isinstance(t, ast.Name):
        return [t.id]
    if isinstance(t, (ast.Tuple, ast.List)):
        out = []
        for x in t.elts:
            out += target_names(x)
        return out
    if isinstance(t, ast.Starred):
        return target_names(t.value)
    return []


def may_be_list(e):
    """x += e mutates x in place only for mutable sequences; e is evidently one"""
    if isinstance(e, (ast.List, ast.ListComp)):
        return True
    if isinstance(e, ast.BinOp):
        return may_be_list(e.left) or may_be_list(e.right)
    if isinstance(e, ast.Call) and isinstance(e.func, ast.Name) and e.func.id == 'list':
        return True
    return False


API_SETTERS = {'register_defaults', 'clear_registered_defaults', 'set_default_comparer', 'reset_default_comparer',
               'set_seed', 'import_plugins', 'import_zip_plugins'}


class FnScan(ast.NodeVisitor):
    """collects bindings and write sites of ONE function body (nested defs are scanned separately)"""

    def __init__(self):
        self.binds = []        # (name, set(alias sources))
        self.rebinds = {}      # self.<attr> rebinding:  attr -> expression text
        self.writes = []       # (kind, target expr node, text)
        self.calls = []        # global setters
        self.nested = []

    def visit_FunctionDef(self, node):
        self.nested.append(node)

    visit_AsyncFunctionDef = visit_FunctionDef

    def visit_Lambda(self, node):
        pass

    def visit_ClassDef(self, node):
        self.nested.append(node)

    def _bind(self, target, value_sources):
        for n in target_names(target):
            self.binds.append((n, set(value_sources)))

    def _write(self, kind, target, node):
        self.writes.append((kind, target, node))

    def visit_Assign(self, node):
        for t in node.targets:
            self._assign_target(t, node.value, node)
        self.generic_visit(node)

    def _assign_target(self, t, value, node):
        if isinstance(t, (ast.Tuple, ast.List)):
            for x in t.elts:
                self._assign_target(x, value, node)
            return
        if isinstance(t, ast.Name):
            self._bind(t, alias_sources(value) if value is not None else set())
        elif isinstance(t, (ast.Attribute, ast.Subscript)):
            self._write('assign', t, node)
        elif isinstance(t, ast.Starred):
            self._assign_target(t.value, value, node)

    def visit_AnnAssign(self, node):
        if node.value is not None:
            self._assign_target(node.target, node.value, node)
        self.generic_visit(node)

    def visit_AugAssign(self, node):
        t = node.target
        if isinstance(t, ast.Name):
            if may_be_list(node.value):
                self._write('augassign-name', t, node)
        else:
            self._write('augassign', t, node)
        self.generic_visit(node)

    def visit_Delete(self, node):
        for t in node.targets:
            if isinstance(t, (ast.Attribute, ast.Subscript)):
                self._write('del', t, node)
        self.generic_visit(node)

    def visit_For(self, node):
        self._bind(node.target, alias_sources(node.iter))
        self.generic_visit(node)

    def visit_comprehension(self, node):
        self._bind(node.target, alias_sources(node.iter))
        self.generic_visit(node)

    def visit_With(self, node):
        for it in node.items:
            if it.optional_vars is not None:
                self._bind(it.optional_vars, alias_sources(it.context_expr))
        self.generic_visit(node)

    def visit_NamedExpr(self, node):
        self._bind(node.target, alias_sources(node.value))
        self.generic_visit(node)

    def visit_Call(self, node):
        f = node.func
        if isinstance(f, ast.Attribute) and f.attr in MUTATORS and not (
                isinstance(f.value, ast.Call) and src(f.value.func) in GLOBAL_SETTERS):
            self._write('call:' + f.attr, f.value, node)
        name = src(f)
        if name in GLOBAL_SETTERS:
            self.calls.append((name, node))
        elif isinstance(f, ast.Attribute) and f.attr in API_SETTERS:
            self.calls.append(('api:' + f.attr, node))
        elif isinstance(f, ast.Name) and f.id in API_SETTERS:
            self.calls.append(('api:' + f.id, node))
        self.generic_visit(node)


def class_level_names(tree):
    """names assigned in class bodies (shared by all instances unless rebound on the instance)"""
    out = set()
    for n in ast.walk(tree):
        if isinstance(n, ast.ClassDef):
            for s in n.body:
                if isinstance(s, ast.Assign):
                    for t in s.targets:
                        out.update(target_names(t))
                elif isinstance(s, ast.AnnAssign) and isinstance(s.target, ast.Name):
                    out.add(s.target.id)
    return out


FRESH_CALLS = {'copy', 'deepcopy', 'merge_dicts', 'dict', 'list', 'set', 'tuple'}


def is_fresh_value(e):
    """expression certainly evaluates to an object created here (not shared with anything older)"""
    if isinstance(e, (ast.Dict, ast.List, ast.Set, ast.ListComp, ast.DictComp, ast.SetComp, ast.Constant)):
        return True
    if isinstance(e, ast.Call):
        f = e.func
        if isinstance(f, ast.Attribute) and f.attr in FRESH_CALLS:
            return True
        if isinstance(f, ast.Name) and f.id in FRESH_CALLS:
            return True
    return False


def chain_of(target):
    chain = []
    e = target
    while isinstance(e, (ast.Attribute, ast.Subscript, ast.Starred)):
        chain.append(e)
        e = e.value
    return chain            # outermost first; chain[-1] is the access applied to the root name


def scan_function(fn, qual, rel, module_names, shared_attrs, rows, enclosing=frozenset()):
    params = [a.arg for a in fn.args.posonlyargs + fn.args.args + fn.args.kwonlyargs]
    if fn.args.vararg:
        params.append(fn.args.vararg.arg)
    kw = fn.args.kwarg.arg if fn.args.kwarg else None
    sc = FnScan()
    for s in fn.body:
        sc.visit(s)
    bound = {}
    for n, srcs in sc.binds:
        bound.setdefault(n, []).append(srcs)
    nested_defs = set(n.name for n in sc.nested)
    local_names = set(bound) | set(params) | ({kw} if kw else set()) | nested_defs
    # names every binding of which is an object created right here (literal, comprehension, copy, slice ...)
    fresh_names = set()
    for node in ast.walk(fn):
        if isinstance(node, ast.Assign) and len(node.targets) == 1 and isinstance(node.targets[0], ast.Name):
            fresh_names.add(node.targets[0].id)
    for node in ast.walk(fn):
        tgts = []
        if isinstance(node, ast.Assign):
            for t_ in node.targets:
                for n in target_names(t_):
                    fresh = (len(node.targets) == 1 and isinstance(node.targets[0], ast.Name)
                             and (is_fresh_value(node.value) or (isinstance(node.value, ast.Subscript)
                                                                 and isinstance(node.value.slice, ast.Slice))
                                  or (isinstance(node.value, ast.BinOp) and may_be_list(node.value))))
                    if not fresh:
                        fresh_names.discard(n)
        elif isinstance(node, (ast.For, ast.comprehension)):
            tgts = target_names(node.target)
        elif isinstance(node, ast.With):
            for it in node.items:
                if it.optional_vars is not None:
                    tgts += target_names(it.optional_vars)
        elif isinstance(node, ast.NamedExpr):
            tgts = target_names(node.target)
        elif isinstance(node, ast.AugAssign) and isinstance(node.target, ast.Name):
            pass
        for n in tgts:
            fresh_names.discard(n)
    fresh_names -= set(params)
    fresh_names |= (nested_defs - set(bound))

    taint = {p: {p} for p in params}

    def lookup(n):
        if n in taint:
            return taint[n]
        if n in local_names:
            return set()
        if n in enclosing:
            return {'^' + n}
        if n in module_names:
            return {n}
        return set()
    changed = True
    while changed:
        changed = False
        for n, srcs in sc.binds:
            acc = set(taint.get(n, set()))
            for s_ in srcs:
                acc |= lookup(s_)
            if acc != taint.get(n, set()):
                taint[n] = acc
                changed = True
    # instance attributes rebound to fresh objects in this function (line of the first such rebinding)
    fresh_rebound = {}
    for node in ast.walk(fn):
        if isinstance(node, ast.Assign):
            for t_ in node.targets:
                if isinstance(t_, ast.Attribute) and is_name(t_.value, 'self') and is_fresh_value(node.value):
                    fresh_rebound.setdefault(t_.attr, node.lineno)

    def classify(name):
        """-> list of (rootkind, rootname)"""
        if name is None:
            return [('Other', '?')]
        rs = lookup(name)
        if not rs:
            if name in local_names:
                return []               # object created here
            return [('Global', name)]
        out = []
        for r in sorted(rs):
            if r.startswith('^'):
                out.append(('Enclosing', r[1:]))
            elif r == 'self' and params and params[0] == 'self':
                out.append(('Self', r))
            elif r == 'cls' and params and params[0] == 'cls':
                out.append(('Cls', r))
            elif r in params:
                out.append(('Param', r))
            else:
                out.append(('Global', r))
        return out

    for kind, target, node in sc.writes:
        name, depth = root_of(target)
        chain = chain_of(target)
        is_call = kind.startswith('call:')
        # number of accesses between the root name and the object being changed
        hops = len(chain) if is_call else max(len(chain) - 1, 0)
        if kind == 'augassign-name':
            hops = 0
        if name in fresh_names and hops == 0:
            continue                    # a container created in this function is being filled
        for rk, rn in classify(name):
            via = '' if rn == name else name
            flag, shape = 'plain', 'deep'
            if rk == 'Self' and via != '':
                shape = 'deep'          # reaches an object held by self through a local alias
            elif rk == 'Self' and via == '':
                first = chain[-1] if chain else None
                attr = first.attr if isinstance(first, ast.Attribute) else None
                if hops == 0:
                    shape = 'attr'      # self.x = v
                elif hops == 1:
                    shape = 'item'      # self.x[k] = v   /  self.x.append(v)
                if hops >= 1 and attr in shared_attrs:
                    flag = 'rebound' if fresh_rebound.get(attr, 10 ** 9) < node.lineno else 'shared'
            elif hops == 0 and kind in ('assign', 'del', 'augassign'):
                shape = 'attr' if isinstance(target, ast.Attribute) else 'item'
            elif hops == 0:
                shape = 'item'
            rows.append({'file': rel, 'func': qual, 'root': rk, 'rootname': rn, 'via': via, 'target': src(target),
                         'kind': kind, 'flag': flag, 'shape': shape, 'line': node.lineno})
    for name, node in sc.calls:
        rows.append({'file': rel, 'func': qual, 'root': 'Process', 'rootname': name, 'via': '', 'target': src(node)[:60],
                     'kind': 'call', 'flag': 'plain', 'shape': 'call', 'line': node.lineno})
    for n in sc.nested:
        if isinstance(n, ast.ClassDef):
            scan_class(n, qual + '.' + n.name, rel, module_names, shared_attrs, rows)
        else:
            scan_function(n, qual + '.' + n.name, rel, module_names, shared_attrs, rows,
                          enclosing=frozenset(enclosing | local_names))


def scan_class(cls, qual, rel, module_names, shared_attrs, rows):
    for s in cls.body:
        if isinstance(s, (ast.FunctionDef, ast.AsyncFunctionDef)):
            scan_function(s, qual + '.' + s.name, rel, module_names, shared_attrs, rows)
        elif isinstance(s, ast.ClassDef):
            scan_class(s, qual + '.' + s.name, rel, module_names, shared_attrs, rows)


def module_level_names(tree):
    out = set()
    for s in tree.body:
        if isinstance(s, (ast.Import, ast.ImportFrom)):
            for a in s.names:
                out.add((a.asname or a.name).split('.')[0])
        elif isinstance(s, (ast.FunctionDef, ast.ClassDef, ast.AsyncFunctionDef)):
            out.add(s.name)
        elif isinstance(s, ast.Assign):
            for t in s.targets:
                out.update(target_names(t))
        elif isinstance(s, (ast.If, ast.Try)):
            for n in ast.walk(s):
                if isinstance(n, (ast.Import, ast.ImportFrom)):
                    for a in n.names:
                        out.add((a.asname or a.name).split('.')[0])
                elif isinstance(n, ast.Assign):
                    for t in n.targets:
                        out.update(target_names(t))
    return out


def scan_module_level(tree, rel, module_names, rows):
    """statements executed at import time (outside any def/class body)"""
    class M(FnScan):
        pass
    sc = M()
    for s in tree.body:
        if isinstance(s, (ast.FunctionDef, ast.AsyncFunctionDef, ast.ClassDef)):
            continue
        sc.visit(s)
    for name, node in sc.calls:
        rows.append({'file': rel, 'func': '<module>', 'root': 'Process', 'rootname': name, 'via': '',
                     'target': src(node)[:60], 'kind': 'call', 'flag': 'import-time', 'shape': 'call', 'line': node.lineno})
    for kind, target, node in sc.writes:
        name, depth = root_of(target)
        if name is None:
            continue
        rows.append({'file': rel, 'func': '<module>', 'root': 'Global', 'rootname': name, 'via': '',
                     'target': src(target), 'kind': kind, 'flag': 'import-time', 'shape': 'item', 'line': node.lineno})


def library_files():
    base = os.path.join(core.REPO, 'mitxgraders')
    out = []
    for d, _, files in os.walk(base):
        for f in sorted(files):
            if f.endswith('.py'):
                out.append(os.path.relpath(os.path.join(d, f), core.REPO))
    return sorted(out)


def inventory():
    rows = []
    trees = {}
    shared = set()
    for rel in library_files():
        try:
            trees[rel] = ast.parse(core.repo_source(rel))
        except SyntaxError as e:
            raise Unsupported('%s does not parse: %s' % (rel, e))
        shared |= class_level_names(trees[rel])
    for rel, tree in trees.items():
        mod = module_level_names(tree)
        scan_module_level(tree, rel, mod, rows)
        for s in tree.body:
            if isinstance(s, (ast.FunctionDef, ast.AsyncFunctionDef)):
                scan_function(s, s.name, rel, mod, shared, rows)
            elif isinstance(s, ast.ClassDef):
                scan_class(s, s.name, rel, mod, shared, rows)
    rows.sort(key=lambda r: (r['file'], r['func'], r['line'], r['target'], r['root'], r['rootname']))
    return rows


# ------------------------------------------------------------------------------------------------
# emission
# ------------------------------------------------------------------------------------------------
def coq_string(s):
    return '"' + s.replace('"', '""') + '"'


ROOTK = {'Self': 'RSelf', 'Cls': 'RCls', 'Param': 'RParam', 'Global': 'RGlobal', 'Enclosing': 'REnclosing',
         'Process': 'RProcess', 'Other': 'ROther'}
SHAPEK = {'attr': 'ShAttr', 'item': 'ShItem', 'deep': 'ShDeep', 'call': 'ShCall'}
FLAGK = {'plain': 'FPlain', 'rebound': 'FRebound', 'shared': 'FShared', 'import-time': 'FImport'}


def setting_of(r):
    """which process-wide setting (if any) the write site touches"""
    t = r['target'] + ' ' + r['rootname']
    if 'default_values' in t:
        return 'SDefaultValues'
    if '_negative_powers' in t:
        return 'SNegPowers'
    for k in ('DEFAULT_VARIABLES', 'DEFAULT_FUNCTIONS', 'DEFAULT_SUFFIXES', 'default_variables', 'default_functions',
              'default_suffixes', 'SCALAR_FUNCTIONS', 'ARRAY_FUNCTIONS', 'ARRAY_ONLY_FUNCTIONS', 'METRIC_SUFFIXES'):
        if k in t:
            return 'SDefaultTables'
    if 'seterr' in t or 'errstate' in t:
        return 'SNumpyErr'
    if 'random.seed' in t or 'set_state' in t or 'setstate' in t or 'api:set_seed' in t:
        return 'SRandomSeed'
    if 'globals' in t or 'api:import' in t:
        return 'SNamespace'
    if 'default_comparer' in t:
        return 'SDefaultComparer'
    if r['root'] == 'Process':
        return 'SOtherProcess'
    return 'SNone'


def rows_text(rows):
    merged = {}
    order = []
    for r in rows:
        key = (r['file'], r['func'], r['root'], r['rootname'], r['via'], r['target'], r['kind'], r['flag'], r['shape'])
        if key not in merged:
            merged[key] = 0
            order.append(key)
        merged[key] += 1
    out = []
    for key in order:
        f, fn, root, rn, via, tg, kind, flag, shape = key
        st = setting_of({'target': tg, 'rootname': rn, 'root': root})
        out.append('  mkRow %s %s %s %s %s %s %s %s %s %s %d' % (
            coq_string(f), coq_string(fn), ROOTK[root], coq_string(rn), coq_string(via), coq_string(tg),
            coq_string(kind), FLAGK[flag], SHAPEK[shape], st, merged[key]))
    return out


def generate():
    tree = ast.parse(core.repo_source(BASE))
    guard, block, fin1 = item_call(tree)
    sup, fin2 = abstract_call(tree)
    cguard, cbody = create_debuglog(tree)
    mtree = ast.parse(core.repo_source(MARR))
    setup, in_finally, teardown, init = switch_prog(mtree)
    gtree = ast.parse(core.repo_source(MGRD))
    uses = matrix_check_uses_switch(gtree)
    rows = inventory()
    out = ['(* GENERATED by translate/protocol.py from mitxgraders/ -- do not edit *)',
           'From Coq Require Import List Bool String.',
           'From Verif.Lib Require Import ProtocolSyntax.',
           'Import ListNotations.',
           'Open Scope string_scope.',
           '',
           '(* ItemGrader.__call__ / AbstractGrader.__call__ (mitxgraders/baseclasses.py) *)',
           'Definition gen_call_prog : call_program :=',
           '  mkProg %s' % guard,
           '         [%s]' % '; '.join(block),
           '         [%s]' % '; '.join(sup),
           '         [%s].' % '; '.join(fin1 + fin2),
           '',
           '(* AbstractGrader.create_debuglog *)',
           'Definition gen_create_prog : create_program :=',
           '  mkCreate %s [%s].' % (cguard, '; '.join(cbody)),
           '',
           '(* MathArray.enable_negative_powers (helpers/calc/math_array.py) and its class attributes *)',
           'Definition gen_cm_prog : cm_program := mkCm [%s] %s [%s].' % (
               '; '.join(setup), 'true' if in_finally else 'false', '; '.join(teardown)),
           'Definition gen_switch_initial : switch := mkSwitch %s %s.' % (
               init['_negative_powers'], init['_default_negative_powers']),
           '(* MatrixGrader.check_response runs the parent check inside the context manager *)',
           'Definition gen_matrix_check_in_switch : bool := %s.' % ('true' if uses else 'false'),
           '',
           '(* write-site inventory of mitxgraders/ (%d sites, %d distinct rows) *)' % (len(rows), len(rows_text(rows))),
           'Definition gen_rows : list row := [',
           ';\n'.join(rows_text(rows)),
           '].',
           '']
    return '\n'.join(out)


if __name__ == '__main__':
    for r in inventory():
        print('%-45s %-45s %-9s %-18s %-12s %-14s %-8s %-5s %s' % (r['file'][12:], r['func'], r['root'], r['rootname'],
                                                                   r['via'] or '-', r['kind'], r['flag'], r['shape'], r['target']))
