"""pipeline.py -- regenerate coq/Gen/PipelineLits.v from /repo (translator A of property C01).

What is translated (fail-closed: anything outside the stated shapes raises and the affected obligations break):
  * baseclasses.AbstractGrader.grade_decimal_to_ok:  `return {k1: v1, ...}.get(grade, default)` with integer keys and
    True / False / 'partial' values  ->  gen_grade_to_ok : Q -> okv  (an if-chain in key order)
  * every RESULT-DICTIONARY LITERAL (a dict display with the keys 'ok' and 'grade_decimal', optionally 'msg' and
    'all_awarded') in the functions that fabricate results without consulting a subgrader:
        ItemGrader.standardize_cfn_return, listgrader.padded_check, StringGrader.construct_message,
        StringGrader.check_response, MatrixGrader.check_response
    -> one `lit` per literal, in source order:
        LConst ok grade   both written as constants
        LCopy             both copied from the answer dictionary (`answer['ok']`, `answer['grade_decimal']`)
        LInferred         'ok' is a name bound by `ok = <...>grade_decimal_to_ok(<the same expression as the grade>)`
The bridge (coq/Bridge/Pipeline.v) identifies these with the constants of Model/Pipeline.v; Proofs/PipelineGen.v proves
on the REGENERATED list that every constant literal is self-consistent (grade in [0,1], ok = gen_grade_to_ok grade).
"""
import ast
from fractions import Fraction

from harness import core


class Unsupported(Exception):
    pass


SITES = [
    ('mitxgraders/baseclasses.py', 'ItemGrader.standardize_cfn_return', 'gen_lits_standardize_cfn_return'),
    ('mitxgraders/listgrader.py', 'padded_check', 'gen_lits_padded_check'),
    ('mitxgraders/stringgrader.py', 'StringGrader.construct_message', 'gen_lits_construct_message'),
    ('mitxgraders/stringgrader.py', 'StringGrader.check_response', 'gen_lits_string_check_response'),
    ('mitxgraders/formulagrader/matrixgrader.py', 'MatrixGrader.check_response', 'gen_lits_matrix_check_response'),
]
ALLOWED_KEYS = {'ok', 'grade_decimal', 'msg', 'all_awarded'}


def okterm(v, where):
    if v is True:
        return 'OkTrue'
    if v is False:
        return 'OkFalse'
    if v == 'partial' and isinstance(v, str):
        return 'OkPartial'
    raise Unsupported('%s: ok value %r' % (where, v))


def qterm(v, where):
    if isinstance(v, bool) or not isinstance(v, (int, float)):
        raise Unsupported('%s: grade %r' % (where, v))
    fr = Fraction(str(v)) if isinstance(v, float) else Fraction(v)
    num = '(%d)' % fr.numerator if fr.numerator < 0 else '%d' % fr.numerator
    return '(%s # %d)' % (num, fr.denominator)


def is_answer_sub(node, key):
    return (isinstance(node, ast.Subscript) and isinstance(node.value, ast.Name) and node.value.id == 'answer'
            and isinstance(node.slice, ast.Constant) and node.slice.value == key)


def bound_by_grade_to_ok(fn, name, grade_expr):
    """is `name` assigned exactly once in fn, by  name = <x>.grade_decimal_to_ok(<grade_expr>) ?"""
    hits = []
    for node in ast.walk(fn):
        if isinstance(node, ast.Assign) and any(isinstance(t, ast.Name) and t.id == name for t in node.targets):
            hits.append(node)
    if len(hits) != 1:
        return False
    v = hits[0].value
    if not (isinstance(v, ast.Call) and len(v.args) == 1 and not v.keywords):
        return False
    f = v.func
    fname = f.attr if isinstance(f, ast.Attribute) else (f.id if isinstance(f, ast.Name) else None)
    return fname == 'grade_decimal_to_ok' and ast.dump(v.args[0]) == ast.dump(grade_expr)


def literals_of(fn, where):
    out = []
    dicts = [n for n in ast.walk(fn) if isinstance(n, ast.Dict)]
    dicts.sort(key=lambda n: (n.lineno, n.col_offset))
    for d in dicts:
        keys = []
        for k in d.keys:
            if not (isinstance(k, ast.Constant) and isinstance(k.value, str)):
                keys = None
                break
            keys.append(k.value)
        if keys is None or not ({'ok', 'grade_decimal'} & set(keys)):
            continue
        w = '%s line %d' % (where, d.lineno)
        if not {'ok', 'grade_decimal'} <= set(keys) or not set(keys) <= ALLOWED_KEYS or len(set(keys)) != len(keys):
            raise Unsupported('%s: result literal with keys %r' % (w, keys))
        vals = dict(zip(keys, d.values))
        ok, gd = vals['ok'], vals['grade_decimal']
        if isinstance(ok, ast.Constant) and isinstance(gd, ast.Constant):
            out.append('LConst %s %s' % (okterm(ok.value, w), qterm(gd.value, w)))
        elif is_answer_sub(ok, 'ok') and is_answer_sub(gd, 'grade_decimal'):
            out.append('LCopy')
        elif isinstance(ok, ast.Name) and bound_by_grade_to_ok(fn, ok.id, gd):
            out.append('LInferred')
        else:
            raise Unsupported('%s: result literal whose ok/grade_decimal are neither constants, answer copies, nor inferred' % w)
    if not out:
        raise Unsupported('%s: no result literal found' % where)
    return out


def grade_to_ok_def(tree):
    fn = core.find_def(tree, 'AbstractGrader.grade_decimal_to_ok')
    if fn is None:
        raise Unsupported('grade_decimal_to_ok not found')
    body = [s for s in fn.body if not (isinstance(s, ast.Expr) and isinstance(s.value, ast.Constant))]
    if len(body) != 1 or not isinstance(body[0], ast.Return):
        raise Unsupported('grade_decimal_to_ok: body is not a single return')
    call = body[0].value
    arg = fn.args.args[-1].arg
    ok_shape = (isinstance(call, ast.Call) and isinstance(call.func, ast.Attribute) and call.func.attr == 'get'
                and isinstance(call.func.value, ast.Dict) and len(call.args) == 2 and not call.keywords
                and isinstance(call.args[0], ast.Name) and call.args[0].id == arg and isinstance(call.args[1], ast.Constant))
    if not ok_shape:
        raise Unsupported('grade_decimal_to_ok: not `{...}.get(%s, default)`' % arg)
    d = call.func.value
    text = okterm(call.args[1].value, 'grade_decimal_to_ok default')
    pairs = []
    for k, v in zip(d.keys, d.values):
        if not (isinstance(k, ast.Constant) and isinstance(k.value, int) and not isinstance(k.value, bool)
                and isinstance(v, ast.Constant)):
            raise Unsupported('grade_decimal_to_ok: table entry %s' % ast.dump(k))
        pairs.append((k.value, okterm(v.value, 'grade_decimal_to_ok table')))
    if len({k for k, _ in pairs}) != len(pairs):
        raise Unsupported('grade_decimal_to_ok: duplicate keys')
    for k, v in reversed(pairs):
        text = 'if Qeq_bool g %s then %s else %s' % (qterm(k, 'key'), v, text)
    return 'Definition gen_grade_to_ok (g : Q) : okv :=\n  %s.' % text


def generate():
    out = ['(* GENERATED by translate/pipeline.py from /repo (result literals, grade_decimal_to_ok) -- do not edit *)',
           'From Coq Require Import ZArith QArith List Bool.',
           'From Verif.Model Require Import Result.',
           'Import ListNotations.', 'Open Scope Q_scope.', '',
           'Inductive lit := LConst (ok : okv) (grade : Q) | LCopy | LInferred.', '']
    trees = {}
    for rel, qual, name in SITES:
        if rel not in trees:
            trees[rel] = ast.parse(core.repo_source(rel))
        fn = core.find_def(trees[rel], qual)
        if fn is None:
            raise Unsupported('%s::%s not found' % (rel, qual))
        lits = literals_of(fn, qual)
        out.append('(* %s :: %s *)' % (rel, qual))
        out.append('Definition %s : list lit :=\n  [%s].' % (name, '; '.join(lits)))
        out.append('')
    base = trees.get('mitxgraders/baseclasses.py') or ast.parse(core.repo_source('mitxgraders/baseclasses.py'))
    out.append('(* mitxgraders/baseclasses.py :: AbstractGrader.grade_decimal_to_ok *)')
    out.append(grade_to_ok_def(base))
    out.append('')
    out.append('Definition gen_all_literals : list lit :=\n  %s.' % ' ++ '.join(n for _, _, n in SITES))
    return '\n'.join(out) + '\n'
