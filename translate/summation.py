"""summation.py -- regenerate coq/Gen/Summation.v from mitxgraders/formulagrader/integralgrader.py (tie A, C19).

Translated (fail-closed, anything outside the subset raises Unsupported):
  * SumGrader.perform_summation  -> gen_summation_plan : the (start, stop, step) handed to range(), or the error
                                    raised before; the trailing `evals = [eval_summand(n) for n in range(..)]`,
                                    `result = sum(evals)`, `return result` are matched structurally and become
                                    gen_perform_summation = plan, then sum over the range.
  * SumGrader.evaluate_sum       -> gen_evaluate_sum_pre (dummy variable already in scope), gen_evaluate_sum_limits
                                    (complex / non-integer limit checks), gen_evaluate_sum_cutoff (infty_val choice).
    The statements in between (scope defaults, get_limits_and_funcs call, the scope check of the summand that follows
    the limit checks, eval_summand closure, the final call of
    perform_summation and the return) are compared with templates: they are mirrored by hand in Model/Summation.v.
  * SummationGraderBase.get_limits_and_funcs: template only.

Subset: assignments to local names (also `a, b = b, a`), `x += e`, if/elif/else, `raise SummationError(<literal
or msg.format(..)>)`, expressions over names / int literals / float('inf') / unary minus / + / % / abs() / int() /
self.config[k], conditions made of comparisons, `in` tests (become boolean parameters), and/or/not,
isinstance(x, complex).  Values are Verif.Lib.SummationPy.pyv, conditions tbool.
"""
import ast
import re

from harness import core

SRC = 'mitxgraders/formulagrader/integralgrader.py'


class Unsupported(Exception):
    pass


MESSAGES = {
    'Summation variable {} conflicts with another previously-defined variable.': 'MConflict',
    'Summation limits must be real but have evaluated to complex numbers.': 'MComplex',
    'Lower summation limit does not evaluate to an integer.': 'MLowerInt',
    'Upper summation limit does not evaluate to an integer.': 'MUpperInt',
    'Cannot sum from -infty to -infty.': 'MNegInf',
    'Cannot sum from infty to infty.': 'MPosInf',
}


def ident(s):
    return re.sub(r'[^A-Za-z0-9_]', '_', s)


class Tr:
    def __init__(self, params):
        self.params = list(params)          # names usable as v_<name>
        self.cfg = []                       # self.config[...] keys, in order of first use
        self.flags = []                     # `x in y` tests, in order of first use
        self.strings = {}                   # local names bound to string constants (messages)

    # ---- expressions : pyv ---------------------------------------------------------------------
    def expr(self, e, defined):
        if isinstance(e, ast.Name):
            if e.id not in defined:
                raise Unsupported('name %s used before assignment' % e.id)
            return 'v_' + e.id
        if isinstance(e, ast.Constant):
            if isinstance(e.value, bool) or not isinstance(e.value, int):
                raise Unsupported('constant %r' % (e.value,))
            return '(p_lit %s)' % ('(%d)' % e.value if e.value < 0 else '%d' % e.value)
        if isinstance(e, ast.UnaryOp) and isinstance(e.op, ast.USub):
            return '(p_neg %s)' % self.expr(e.operand, defined)
        if isinstance(e, ast.BinOp):
            a, b = self.expr(e.left, defined), self.expr(e.right, defined)
            if isinstance(e.op, ast.Add):
                return '(p_add %s %s)' % (a, b)
            if isinstance(e.op, ast.Mod):
                return '(p_mod %s %s)' % (a, b)
            raise Unsupported('binary operator %s' % type(e.op).__name__)
        if isinstance(e, ast.Call) and isinstance(e.func, ast.Name) and not e.keywords:
            f = e.func.id
            if f == 'float' and len(e.args) == 1 and isinstance(e.args[0], ast.Constant) and e.args[0].value == 'inf':
                return 'p_inf'
            if f == 'abs' and len(e.args) == 1:
                return '(p_abs %s)' % self.expr(e.args[0], defined)
            if f == 'int' and len(e.args) == 1:
                return '(p_int %s)' % self.expr(e.args[0], defined)
            raise Unsupported('call to %s' % f)
        if isinstance(e, ast.Subscript):
            v = e.value
            if (isinstance(v, ast.Attribute) and v.attr == 'config' and isinstance(v.value, ast.Name)
                    and v.value.id == 'self' and isinstance(e.slice, ast.Constant) and isinstance(e.slice.value, str)):
                k = e.slice.value
                if k not in self.cfg:
                    self.cfg.append(k)
                return 'cfg_' + ident(k)
        raise Unsupported('expression ' + ast.dump(e))

    # ---- conditions : tbool --------------------------------------------------------------------
    def cond(self, e, defined):
        if isinstance(e, ast.Compare) and len(e.ops) == 1:
            op, l, r = e.ops[0], e.left, e.comparators[0]
            if isinstance(op, ast.In):
                def nm(x):
                    if isinstance(x, ast.Constant) and isinstance(x.value, str):
                        return ident(x.value)
                    if isinstance(x, ast.Name):
                        return x.id
                    raise Unsupported('operand of `in`: ' + ast.dump(x))
                flag = 'c_%s_in_%s' % (nm(l), nm(r))
                if flag not in self.flags:
                    self.flags.append(flag)
                return flag
            table = {ast.Gt: 'p_gt', ast.Lt: 'p_lt', ast.GtE: 'p_ge', ast.LtE: 'p_le', ast.Eq: 'p_eq', ast.NotEq: 'p_ne'}
            if type(op) not in table:
                raise Unsupported('comparison ' + type(op).__name__)
            return '(%s %s %s)' % (table[type(op)], self.expr(l, defined), self.expr(r, defined))
        if isinstance(e, ast.BoolOp):
            f = 't_and' if isinstance(e.op, ast.And) else 't_or'
            parts = [self.cond(v, defined) for v in e.values]
            out = parts[-1]
            for p in reversed(parts[:-1]):
                out = '(%s %s %s)' % (f, p, out)
            return out
        if isinstance(e, ast.UnaryOp) and isinstance(e.op, ast.Not):
            return '(t_not %s)' % self.cond(e.operand, defined)
        if (isinstance(e, ast.Call) and isinstance(e.func, ast.Name) and e.func.id == 'isinstance' and len(e.args) == 2
                and isinstance(e.args[1], ast.Name) and e.args[1].id == 'complex' and not e.keywords):
            return '(p_is_complex %s)' % self.expr(e.args[0], defined)
        raise Unsupported('condition ' + ast.dump(e))

    # ---- statements ----------------------------------------------------------------------------
    def assigned(self, stmts):
        out = []

        def add(n):
            if n not in out:
                out.append(n)
        for s in stmts:
            if isinstance(s, ast.Assign):
                for t in s.targets:
                    if isinstance(t, ast.Name):
                        if not (isinstance(s.value, ast.Constant) and isinstance(s.value.value, str)):
                            add(t.id)
                    elif isinstance(t, ast.Tuple) and all(isinstance(x, ast.Name) for x in t.elts):
                        for x in t.elts:
                            add(x.id)
                    else:
                        raise Unsupported('assignment target ' + ast.dump(t))
            elif isinstance(s, ast.AugAssign):
                if not isinstance(s.target, ast.Name):
                    raise Unsupported('augmented assignment target')
                add(s.target.id)
            elif isinstance(s, ast.If):
                for n in self.assigned(s.body) + self.assigned(s.orelse):
                    add(n)
        return out

    def message(self, e):
        """argument of SummationError(...) -> message tag"""
        if isinstance(e, ast.Constant) and isinstance(e.value, str):
            text = e.value
        elif isinstance(e, ast.Name) and e.id in self.strings:
            text = self.strings[e.id]
        elif (isinstance(e, ast.Call) and isinstance(e.func, ast.Attribute) and e.func.attr == 'format'):
            return self.message(e.func.value)
        else:
            raise Unsupported('error message ' + ast.dump(e))
        if text not in MESSAGES:
            raise Unsupported('unknown SummationError message %r' % text)
        return MESSAGES[text]

    def seq(self, stmts, defined, tail, ind):
        """Gallina term of type outcome T for the statement list; tail(defined, ind) gives the term that follows."""
        if not stmts:
            return tail(defined, ind)
        s, rest = stmts[0], stmts[1:]
        if isinstance(s, ast.Pass) or (isinstance(s, ast.Expr) and isinstance(s.value, ast.Constant)
                                        and isinstance(s.value.value, str)):
            return self.seq(rest, defined, tail, ind)
        if isinstance(s, ast.Raise):
            if rest:
                raise Unsupported('statements after raise')
            exc = s.exc
            if not (isinstance(exc, ast.Call) and isinstance(exc.func, ast.Name) and exc.func.id == 'SummationError'
                    and len(exc.args) == 1 and not exc.keywords and s.cause is None):
                raise Unsupported('raise ' + ast.dump(s))
            return '%sRaise (ESummation %s)' % (ind, self.message(exc.args[0]))
        if isinstance(s, ast.Assign):
            if len(s.targets) != 1:
                raise Unsupported('chained assignment')
            t = s.targets[0]
            if isinstance(t, ast.Name):
                if isinstance(s.value, ast.Constant) and isinstance(s.value.value, str):
                    self.strings[t.id] = s.value.value
                    return self.seq(rest, defined, tail, ind)
                return '%slet v_%s := %s in\n%s' % (ind, t.id, self.expr(s.value, defined),
                                                   self.seq(rest, defined | {t.id}, tail, ind))
            if (isinstance(t, ast.Tuple) and isinstance(s.value, ast.Tuple) and len(t.elts) == len(s.value.elts)
                    and all(isinstance(x, ast.Name) for x in t.elts) and len(t.elts) >= 2):
                names = [x.id for x in t.elts]
                vals = [self.expr(v, defined) for v in s.value.elts]
                return "%slet '(%s) := (%s) in\n%s" % (ind, ', '.join('v_' + n for n in names), ', '.join(vals),
                                                      self.seq(rest, defined | set(names), tail, ind))
            raise Unsupported('assignment ' + ast.dump(s))
        if isinstance(s, ast.AugAssign):
            if not (isinstance(s.target, ast.Name) and isinstance(s.op, ast.Add)):
                raise Unsupported('augmented assignment ' + ast.dump(s))
            n = s.target.id
            if n not in defined:
                raise Unsupported('name %s used before assignment' % n)
            return '%slet v_%s := (p_add v_%s %s) in\n%s' % (ind, n, n, self.expr(s.value, defined),
                                                            self.seq(rest, defined, tail, ind))
        if isinstance(s, ast.If):
            out_vars = sorted(self.assigned([s]))

            def ret(d, i):
                for n in out_vars:
                    if n not in d:
                        raise Unsupported('name %s is not assigned on every path' % n)
                if not out_vars:
                    return i + 'Ret tt'
                if len(out_vars) == 1:
                    return i + 'Ret v_' + out_vars[0]
                return i + 'Ret (%s)' % ', '.join('v_' + n for n in out_vars)
            c = self.cond(s.test, defined)
            a = self.seq(s.body, set(defined), ret, ind + '    ')
            b = self.seq(s.orelse, set(defined), ret, ind + '    ')
            if not out_vars:
                pat = '_'
            elif len(out_vars) == 1:
                pat = 'v_' + out_vars[0]
            else:
                pat = "'(%s)" % ', '.join('v_' + n for n in out_vars)
            return ('%sbind (tif %s\n%s  (%s)\n%s  (%s)) (fun %s =>\n%s)' %
                    (ind, c, ind, a.strip(), ind, b.strip(), pat,
                     self.seq(rest, defined | set(out_vars), tail, ind)))
        raise Unsupported('statement ' + type(s).__name__)


def same(node, source):
    """structural equality of a statement (or function) with a source template"""
    want = ast.parse(source).body[0]
    if isinstance(node, ast.FunctionDef):
        node = ast.FunctionDef(name=node.name, args=node.args, body=strip_doc(node.body),
                               decorator_list=node.decorator_list, returns=node.returns, type_comment=node.type_comment,
                               type_params=getattr(node, 'type_params', []))
    return ast.dump(node, include_attributes=False) == ast.dump(want, include_attributes=False)


def strip_doc(body):
    if body and isinstance(body[0], ast.Expr) and isinstance(body[0].value, ast.Constant) and isinstance(body[0].value.value, str):
        return body[1:]
    return body


T_GET_LIMITS = '''
def get_limits_and_funcs(self, expression, lower_str, upper_str, varscope, funcscope):
    lower, lower_used = evaluator(lower_str,
                                  variables=varscope,
                                  functions=funcscope,
                                  suffixes=self.suffixes,
                                  allow_inf=True)
    upper, upper_used = evaluator(upper_str,
                                  variables=varscope,
                                  functions=funcscope,
                                  suffixes=self.suffixes,
                                  allow_inf=True)
    expression_used = parse(expression)

    used_funcs = lower_used.functions_used.union(upper_used.functions_used, expression_used.functions_used)

    return lower, upper, used_funcs
'''
T_EVAL_SUMMAND = '''
def eval_summand(x):
    varscope[summation_var] = x
    value, _ = evaluator(summand_str,
                         variables=varscope,
                         functions=funcscope,
                         suffixes=self.suffixes)
    del varscope[summation_var]
    return value
'''
T_SUMMAND_SCOPE = ['summand_scope = varscope.copy()', 'summand_scope[summation_var] = 0',
                   'parse(summand_str).check_scope(summand_scope, funcscope, self.suffixes)']
T_SCOPE_DEFAULTS = ['varscope = {} if varscope is None else varscope', 'funcscope = {} if funcscope is None else funcscope']
T_LIMITS_CALL = 'lower, upper, used_funcs = self.get_limits_and_funcs(summand_str, lower_str, upper_str, varscope, funcscope)'
T_PERFORM_CALL = "result = self.perform_summation(eval_summand, lower, upper, self.config['even_odd'], infty_val)"
T_RETURN = 'return result, used_funcs'
T_SUM_TAIL = ['result = sum(evals)', 'return result']


def arg_names(fn):
    a = fn.args
    if a.vararg or a.kwarg or a.kwonlyargs or a.posonlyargs:
        raise Unsupported('signature of %s' % fn.name)
    return [x.arg for x in a.args]


def translate_perform(fn):
    if arg_names(fn) != ['eval_summand', 'lower', 'upper', 'even_odd', 'infty_val']:
        raise Unsupported('perform_summation signature %s' % arg_names(fn))
    if [ast.dump(d) for d in fn.decorator_list] != [ast.dump(ast.parse('staticmethod').body[0].value)]:
        raise Unsupported('perform_summation is expected to be a staticmethod')
    body = strip_doc(fn.body)
    if len(body) < 4:
        raise Unsupported('perform_summation body too short')
    head, comp, tail = body[:-3], body[-3], body[-2:]
    for node, src in zip(tail, T_SUM_TAIL):
        if not same(node, src):
            raise Unsupported('perform_summation tail differs from %r' % src)
    # evals = [eval_summand(n) for n in range(a, b, d)]
    ok = (isinstance(comp, ast.Assign) and len(comp.targets) == 1 and isinstance(comp.targets[0], ast.Name)
          and comp.targets[0].id == 'evals' and isinstance(comp.value, ast.ListComp))
    if ok:
        lc = comp.value
        ok = (len(lc.generators) == 1 and not lc.generators[0].ifs and not lc.generators[0].is_async
              and isinstance(lc.generators[0].target, ast.Name)
              and isinstance(lc.elt, ast.Call) and isinstance(lc.elt.func, ast.Name) and lc.elt.func.id == 'eval_summand'
              and len(lc.elt.args) == 1 and not lc.elt.keywords and isinstance(lc.elt.args[0], ast.Name)
              and lc.elt.args[0].id == lc.generators[0].target.id)
    if ok:
        it = lc.generators[0].iter
        ok = (isinstance(it, ast.Call) and isinstance(it.func, ast.Name) and it.func.id == 'range' and len(it.args) == 3
              and not it.keywords)
    if not ok:
        raise Unsupported('perform_summation: the evaluation loop is not `[eval_summand(n) for n in range(a, b, d)]`')
    tr = Tr(['lower', 'upper', 'even_odd', 'infty_val'])

    def final(defined, ind):
        a, b, d = [tr.expr(x, defined) for x in it.args]
        return '%sp_range %s %s %s' % (ind, a, b, d)
    term = tr.seq(head, set(tr.params), final, '  ')
    if tr.cfg or tr.flags:
        raise Unsupported('perform_summation reads configuration / membership tests')
    return ('Definition gen_summation_plan (v_lower v_upper v_even_odd v_infty_val : pyv) : outcome (Z * Z * Z) :=\n'
            + term + '.\n\n'
            'Definition gen_perform_summation {V : Type} (vzero : V) (vadd : V -> V -> V) (f : Z -> outcome V)\n'
            '    (v_lower v_upper v_even_odd v_infty_val : pyv) : outcome V :=\n'
            '  bind (gen_summation_plan v_lower v_upper v_even_odd v_infty_val) (sum_range vzero vadd f).\n')


def translate_evaluate(fn):
    if arg_names(fn) != ['self', 'summand_str', 'lower_str', 'upper_str', 'summation_var', 'varscope', 'funcscope']:
        raise Unsupported('evaluate_sum signature %s' % arg_names(fn))
    body = strip_doc(fn.body)
    i = 0
    for src in T_SCOPE_DEFAULTS:
        if i >= len(body) or not same(body[i], src):
            raise Unsupported('evaluate_sum: expected %r' % src)
        i += 1
    # 1. checks before the limits are evaluated
    pre = []
    while i < len(body) and isinstance(body[i], ast.If):
        pre.append(body[i])
        i += 1
    if i >= len(body) or not same(body[i], T_LIMITS_CALL):
        raise Unsupported('evaluate_sum: expected %r' % T_LIMITS_CALL)
    i += 1
    # 2. checks on the evaluated limits
    lim = []
    while i < len(body) and isinstance(body[i], ast.If):
        lim.append(body[i])
        i += 1
    # 2b. scope check of the summand (mirrored by hand in Model/Summation.v: an oracle call)
    for src in T_SUMMAND_SCOPE:
        if i >= len(body) or not same(body[i], src):
            raise Unsupported('evaluate_sum: expected %r after the limit checks' % src)
        i += 1
    if i >= len(body) or not same(body[i], T_EVAL_SUMMAND):
        raise Unsupported('evaluate_sum: the eval_summand closure differs from the template')
    i += 1
    # 3. cutoff choice
    cut = []
    while i < len(body) and isinstance(body[i], ast.If):
        cut.append(body[i])
        i += 1
    if i + 2 != len(body) or not same(body[i], T_PERFORM_CALL) or not same(body[i + 1], T_RETURN):
        raise Unsupported('evaluate_sum: expected the call of perform_summation and the return at the end')
    out = []

    tr = Tr([])
    term = tr.seq(pre, set(), lambda d, ind: ind + 'Ret tt', '  ')
    if tr.flags != ['c_summation_var_in_varscope'] or tr.cfg:
        raise Unsupported('evaluate_sum pre-checks use %s %s' % (tr.flags, tr.cfg))
    out.append('Definition gen_evaluate_sum_pre (c_summation_var_in_varscope : tbool) : outcome unit :=\n' + term + '.\n')

    tr = Tr(['lower', 'upper'])
    term = tr.seq(lim, {'lower', 'upper'}, lambda d, ind: ind + 'Ret tt', '  ')
    if tr.flags or tr.cfg:
        raise Unsupported('evaluate_sum limit checks use %s %s' % (tr.flags, tr.cfg))
    out.append('Definition gen_evaluate_sum_limits (v_lower v_upper : pyv) : outcome unit :=\n' + term + '.\n')

    tr = Tr([])

    def fin(d, ind):
        if 'infty_val' not in d:
            raise Unsupported('infty_val is not assigned before perform_summation')
        return ind + 'Ret v_infty_val'
    term = tr.seq(cut, set(), fin, '  ')
    if tr.flags != ['c_fact_in_used_funcs', 'c_factorial_in_used_funcs'] or tr.cfg != ['infty_val_fact', 'infty_val']:
        raise Unsupported('evaluate_sum cutoff choice uses %s %s' % (tr.flags, tr.cfg))
    out.append('Definition gen_evaluate_sum_cutoff (c_fact_in_used_funcs c_factorial_in_used_funcs : tbool)\n'
               '    (cfg_infty_val_fact cfg_infty_val : pyv) : outcome pyv :=\n' + term + '.\n')
    return '\n'.join(out)


def generate():
    tree = ast.parse(core.repo_source(SRC))
    glf = core.find_def(tree, 'SummationGraderBase.get_limits_and_funcs')
    if glf is None:
        raise Unsupported('SummationGraderBase.get_limits_and_funcs not found')
    glf.body = strip_doc(glf.body)
    if not same(glf, T_GET_LIMITS):
        raise Unsupported('get_limits_and_funcs differs from the template mirrored in Model/Summation.v')
    ps = core.find_def(tree, 'SumGrader.perform_summation')
    es = core.find_def(tree, 'SumGrader.evaluate_sum')
    if ps is None or es is None:
        raise Unsupported('SumGrader.perform_summation / evaluate_sum not found')
    out = ['(* GENERATED by translate/summation.py from %s -- do not edit *)' % SRC,
           'From Coq Require Import ZArith QArith List.',
           'From Verif.Lib Require Import SummationPy.',
           'Import ListNotations.', '',
           translate_perform(ps), translate_evaluate(es)]
    return '\n'.join(out)


if __name__ == '__main__':
    print(generate())
