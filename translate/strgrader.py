"""
strgrader.py -- regenerate coq/Gen/StrGrader.v from mitxgraders/stringgrader.py (translator A, property C18).

Translated, statement by statement, from the working tree:
  StringGrader.clean_input        -> gen_clean_input        : tables -> config -> str -> str
  StringGrader.construct_message  -> gen_construct_message  : config -> str -> explain -> outcome
  StringGrader.check_response     -> gen_check_response     : tables -> (str -> str -> bool) -> (str -> str -> bool)
                                                              -> config -> entry -> str -> str -> outcome
  StringGrader.__call__           -> gen_call_expect        : config -> option str -> option str
                                     (the `expect` handed on to ItemGrader.__call__)

Fail-closed: a typed, white-listed subset of Python.  Every variable has a declared type, every call is one of a
fixed list of shapes; anything else raises Unsupported and the check reports the obligation as broken.

Vocabulary emitted (Verif.Model.StrGrader): py_replace, py_lower, py_strip, re_sub_spaces, py_split, py_endswith,
py_dec, str_eqb, is_none, opt_truthy, opt_get, set_msg, explain_eqb, Ret/RaiseInvalid/RaiseConfig.
`re.match(p, s)` becomes the oracle argument `rematch p s`, `re.fullmatch(p, s)` the oracle argument `refull p s`.
"""
import ast
import re
from fractions import Fraction

from harness import core

SOURCE = 'mitxgraders/stringgrader.py'


class Unsupported(Exception):
    pass


CONFIG = {
    'debug': 'bool', 'case_sensitive': 'bool', 'strip': 'bool', 'strip_all': 'bool', 'clean_spaces': 'bool',
    'accept_any': 'bool', 'accept_nonempty': 'bool', 'min_length': 'int', 'min_words': 'int',
    'explain_minimums': 'explain', 'validation_pattern': 'optstr', 'explain_validation': 'explain',
    'invalid_msg': 'str',
}
ANSWER = {'expect': 'str', 'ok': 'okv', 'grade_decimal': 'q', 'msg': 'str'}


def strlit(s):
    if not isinstance(s, str):
        raise Unsupported('string constant expected, got %r' % (s,))
    if s == '':
        return '(@nil Z)'
    return '[' + '; '.join(str(ord(c)) for c in s) + ']'


def dump(e):
    return ast.dump(e)[:160]


class Fn:
    """Translation of one method body.  env: python name -> (type, coq term)."""

    def __init__(self, env, ret):
        self.env = dict(env)
        self.ret = ret                 # 'str' | 'outcome' | 'optstr'
        self.vartypes = {}             # locals that may be assigned: name -> type
        self.ncond = 0

    # -------------------------------------------------------------------------------- helpers
    def is_self_config(self, e):
        return (isinstance(e, ast.Subscript) and isinstance(e.value, ast.Attribute) and e.value.attr == 'config'
                and isinstance(e.value.value, ast.Name) and e.value.value.id == 'self'
                and isinstance(e.slice, ast.Constant) and isinstance(e.slice.value, str))

    def config(self, e, want):
        k = e.slice.value
        if k not in CONFIG:
            raise Unsupported('unknown config key %r' % k)
        if CONFIG[k] != want:
            raise Unsupported('config key %r has type %s, used as %s' % (k, CONFIG[k], want))
        return '(cfg_%s cfg)' % k

    def is_answer(self, e):
        return (isinstance(e, ast.Subscript) and isinstance(e.value, ast.Name) and e.value.id == 'answer'
                and 'answer' in self.env and isinstance(e.slice, ast.Constant) and e.slice.value in ANSWER)

    def answer(self, e, want):
        k = e.slice.value
        if ANSWER[k] != want:
            raise Unsupported("answer[%r] used as %s" % (k, want))
        if k == 'expect':
            return 'a_expect'
        return '(%s v_answer)' % {'ok': 'e_ok', 'grade_decimal': 'e_grade', 'msg': 'e_msg'}[k]

    def name(self, e, want):
        if e.id not in self.env:
            raise Unsupported('unknown name %r' % e.id)
        ty, term = self.env[e.id]
        if ty != want:
            raise Unsupported('name %r has type %s, used as %s' % (e.id, ty, want))
        return term

    def typeof(self, e):
        """type of an expression when it can be read off without translating it"""
        if isinstance(e, ast.Name) and e.id in self.env:
            return self.env[e.id][0]
        if self.is_self_config(e):
            return CONFIG.get(e.slice.value)
        if self.is_answer(e):
            return ANSWER[e.slice.value]
        if isinstance(e, ast.Constant):
            v = e.value
            if isinstance(v, bool):
                return 'bool'
            if isinstance(v, int):
                return 'int'
            if isinstance(v, str):
                return 'str'
            if v is None:
                return 'none'
        if isinstance(e, ast.Call) and isinstance(e.func, ast.Name) and e.func.id == 'len':
            return 'int'
        return None

    @staticmethod
    def method_call(e, attr, nargs):
        return (isinstance(e, ast.Call) and isinstance(e.func, ast.Attribute) and e.func.attr == attr
                and len(e.args) == nargs and not e.keywords)

    @staticmethod
    def module_call(e, mod, fn, nargs):
        return (isinstance(e, ast.Call) and isinstance(e.func, ast.Attribute) and e.func.attr == fn
                and isinstance(e.func.value, ast.Name) and e.func.value.id == mod
                and len(e.args) == nargs and not e.keywords)

    # -------------------------------------------------------------------------------- expressions
    def str_(self, e):
        if isinstance(e, ast.Constant):
            return strlit(e.value)
        if isinstance(e, ast.Name):
            return self.name(e, 'str')
        if self.is_self_config(e):
            return self.config(e, 'str')
        if self.is_answer(e):
            return self.answer(e, 'str')
        if isinstance(e, ast.BinOp) and isinstance(e.op, ast.Add):
            return '(%s ++ %s)' % (self.str_(e.left), self.str_(e.right))
        if isinstance(e, ast.Call):
            if isinstance(e.func, ast.Name) and e.func.id == 'str' and len(e.args) == 1 and not e.keywords:
                return self.str_(e.args[0])          # str(x) of a text string is x
            if self.method_call(e, 'replace', 2):
                old, new = e.args
                if not (isinstance(old, ast.Constant) and isinstance(old.value, str) and old.value != ''
                        and isinstance(new, ast.Constant) and isinstance(new.value, str)):
                    raise Unsupported('replace() with non-literal or empty pattern: ' + dump(e))
                return '(py_replace %s %s %s)' % (strlit(old.value), strlit(new.value), self.str_(e.func.value))
            if self.method_call(e, 'lower', 0):
                return '(py_lower T %s)' % self.str_(e.func.value)
            if self.method_call(e, 'strip', 0):
                return '(py_strip T %s)' % self.str_(e.func.value)
            if self.module_call(e, 're', 'sub', 3):
                p, r, x = e.args
                if not (isinstance(p, ast.Constant) and p.value == ' +' and isinstance(r, ast.Constant) and r.value == ' '):
                    raise Unsupported("re.sub other than re.sub(r' +', ' ', x): " + dump(e))
                return '(re_sub_spaces %s)' % self.str_(x)
            if (self.method_call(e, 'clean_input', 1) and isinstance(e.func.value, ast.Name)
                    and e.func.value.id == 'self'):
                return '(gen_clean_input T cfg %s)' % self.str_(e.args[0])
            if (isinstance(e.func, ast.Attribute) and e.func.attr == 'format' and isinstance(e.func.value, ast.Constant)
                    and isinstance(e.func.value.value, str) and not e.args):
                return self.format(e.func.value.value, {k.arg: k.value for k in e.keywords})
        raise Unsupported('string expression ' + dump(e))

    def format(self, template, kw):
        parts = re.split(r'\{([A-Za-z_][A-Za-z0-9_]*)\}', template)
        if '{' in ''.join(parts[0::2]) or '}' in ''.join(parts[0::2]):
            raise Unsupported('format template %r' % template)
        out, used = [], set()
        for i, p in enumerate(parts):
            if i % 2 == 0:
                if p:
                    out.append(strlit(p))
            else:
                if p not in kw or kw[p] is None:
                    raise Unsupported('format field %r not supplied' % p)
                used.add(p)
                out.append('(py_dec %s)' % self.int_(kw[p]))
        if used != set(kw):
            raise Unsupported('unused format arguments')
        return '(' + ' ++ '.join(out) + ')' if out else '(@nil Z)'

    def int_(self, e):
        if isinstance(e, ast.Constant) and isinstance(e.value, int) and not isinstance(e.value, bool):
            return '(%d)' % e.value if e.value < 0 else '%d' % e.value
        if isinstance(e, ast.Name):
            return self.name(e, 'int')
        if self.is_self_config(e):
            return self.config(e, 'int')
        if isinstance(e, ast.Call) and isinstance(e.func, ast.Name) and e.func.id == 'len' and len(e.args) == 1 \
                and not e.keywords:
            a = e.args[0]
            if self.method_call(a, 'split', 0):
                return '(Z.of_nat (length (py_split T %s)))' % self.str_(a.func.value)
            return '(Z.of_nat (length %s))' % self.str_(a)
        raise Unsupported('integer expression ' + dump(e))

    def explain_(self, e):
        if isinstance(e, ast.Constant):
            if e.value == 'err':
                return 'ExErr'
            if e.value == 'msg':
                return 'ExMsg'
            if e.value is None:
                return 'ExNone'
            raise Unsupported('explain constant %r' % (e.value,))
        if isinstance(e, ast.Name):
            return self.name(e, 'explain')
        if self.is_self_config(e):
            return self.config(e, 'explain')
        raise Unsupported('explain expression ' + dump(e))

    def optstr_(self, e):
        if isinstance(e, ast.Constant) and e.value is None:
            return '(@None str)'
        if isinstance(e, ast.Name) and self.env.get(e.id, (None,))[0] == 'optstr':
            return self.name(e, 'optstr')
        if self.is_self_config(e) and CONFIG.get(e.slice.value) == 'optstr':
            return self.config(e, 'optstr')
        return '(Some %s)' % self.str_(e)

    def bool_(self, e):
        if isinstance(e, ast.Constant) and isinstance(e.value, bool):
            return 'true' if e.value else 'false'
        if isinstance(e, ast.Name):
            ty = self.env.get(e.id, (None,))[0]
            if ty == 'optstr':                       # truth value of  None | str
                return '(opt_truthy %s)' % self.name(e, 'optstr')
            return self.name(e, 'bool')
        if self.is_self_config(e):
            return self.config(e, 'bool')
        if isinstance(e, ast.UnaryOp) and isinstance(e.op, ast.Not):
            return '(negb %s)' % self.bool_(e.operand)
        if isinstance(e, ast.BoolOp):
            j = ' && ' if isinstance(e.op, ast.And) else ' || '
            return '(' + j.join(self.bool_(v) for v in e.values) + ')'
        if self.method_call(e, 'endswith', 1):
            return '(py_endswith %s %s)' % (self.str_(e.func.value), self.str_(e.args[0]))
        if isinstance(e, ast.Compare) and len(e.ops) == 1:
            op, a, b = e.ops[0], e.left, e.comparators[0]
            if isinstance(op, (ast.Is, ast.IsNot)):
                if not (isinstance(b, ast.Constant) and b.value is None):
                    raise Unsupported('`is` with something other than None')
                if self.module_call(a, 're', 'match', 2):
                    t = '(rematch %s %s)' % (self.str_(a.args[0]), self.str_(a.args[1]))
                    return '(negb %s)' % t if isinstance(op, ast.Is) else t
                if self.module_call(a, 're', 'fullmatch', 2):
                    t = '(refull %s %s)' % (self.str_(a.args[0]), self.str_(a.args[1]))
                    return '(negb %s)' % t if isinstance(op, ast.Is) else t
                t = '(is_none %s)' % self.optstr_(a)
                return t if isinstance(op, ast.Is) else '(negb %s)' % t
            ta, tb = self.typeof(a), self.typeof(b)
            if 'int' in (ta, tb) and ta in ('int', None) and tb in ('int', None):
                x, y = self.int_(a), self.int_(b)
                table = {ast.Eq: '(%s =? %s)', ast.NotEq: '(negb (%s =? %s))', ast.Lt: '(%s <? %s)',
                         ast.LtE: '(%s <=? %s)', ast.Gt: '(%s >? %s)', ast.GtE: '(%s >=? %s)'}
                if type(op) not in table:
                    raise Unsupported('integer comparison ' + type(op).__name__)
                return table[type(op)] % (x, y)
            if ta == 'explain' or tb == 'explain':
                if not isinstance(op, (ast.Eq, ast.NotEq)):
                    raise Unsupported('explain comparison')
                t = '(explain_eqb %s %s)' % (self.explain_(a), self.explain_(b))
                return t if isinstance(op, ast.Eq) else '(negb %s)' % t
            if ta == 'str' and tb == 'str':
                if not isinstance(op, (ast.Eq, ast.NotEq)):
                    raise Unsupported('string comparison ' + type(op).__name__)
                t = '(str_eqb %s %s)' % (self.str_(a), self.str_(b))
                return t if isinstance(op, ast.Eq) else '(negb %s)' % t
        raise Unsupported('boolean expression ' + dump(e))

    def entry_(self, e):
        if isinstance(e, ast.Name):
            return self.name(e, 'entry')
        if isinstance(e, ast.Dict):
            keys = [k.value if isinstance(k, ast.Constant) else None for k in e.keys]
            if sorted(map(str, keys)) != ['grade_decimal', 'msg', 'ok']:
                raise Unsupported('result dictionary with keys %r' % (keys,))
            d = dict(zip(keys, e.values))
            return '(mkEntry %s %s %s)' % (self.okv_(d['ok']), self.q_(d['grade_decimal']), self.str_(d['msg']))
        raise Unsupported('result expression ' + dump(e))

    def okv_(self, e):
        if isinstance(e, ast.Constant):
            if e.value is True:
                return 'OkTrue'
            if e.value is False:
                return 'OkFalse'
            if e.value == 'partial':
                return 'OkPartial'
        if self.is_answer(e):
            return self.answer(e, 'okv')
        raise Unsupported('ok value ' + dump(e))

    def q_(self, e):
        if isinstance(e, ast.Constant) and isinstance(e.value, (int, float)) and not isinstance(e.value, bool):
            fr = Fraction(repr(e.value))
            return '(%d # %d)%%Q' % (fr.numerator, fr.denominator)
        if self.is_answer(e):
            return self.answer(e, 'q')
        raise Unsupported('grade value ' + dump(e))

    def outcome_(self, e):
        if (self.method_call(e, 'construct_message', 2) and isinstance(e.func.value, ast.Name)
                and e.func.value.id == 'self'):
            return '(gen_construct_message cfg %s %s)' % (self.str_msg(e.args[0]), self.explain_(e.args[1]))
        return '(Ret %s)' % self.entry_(e)

    def str_msg(self, e):
        """a message argument: a string, or a variable holding None|str inside the branch where it is truthy"""
        if isinstance(e, ast.Name) and self.env.get(e.id, (None,))[0] == 'optstr':
            return '(opt_get %s)' % self.name(e, 'optstr')
        return self.str_(e)

    def value(self, e, ty):
        return {'str': self.str_, 'int': self.int_, 'bool': self.bool_, 'explain': self.explain_,
                'optstr': self.optstr_, 'entry': self.entry_}[ty](e)

    # -------------------------------------------------------------------------------- statements
    def assign_target(self, s):
        """(name, type, coq-name, value-term) for the supported assignment statements"""
        if isinstance(s, ast.Assign) and len(s.targets) == 1:
            t = s.targets[0]
            if isinstance(t, ast.Name):
                if t.id not in self.vartypes:
                    raise Unsupported('assignment to undeclared local %r' % t.id)
                ty = self.vartypes[t.id]
                return t.id, ty, self.value(s.value, ty)
            if (isinstance(t, ast.Subscript) and isinstance(t.value, ast.Name)
                    and self.env.get(t.value.id, (None,))[0] == 'entry'
                    and isinstance(t.slice, ast.Constant) and t.slice.value == 'msg'):
                return t.value.id, 'entry', '(set_msg %s %s)' % (self.env[t.value.id][1], self.str_(s.value))
        if isinstance(s, ast.AugAssign) and isinstance(s.op, ast.Add) and isinstance(s.target, ast.Name):
            n = s.target.id
            if self.vartypes.get(n) != 'str' or n not in self.env:
                raise Unsupported('+= on %r' % n)
            return n, 'str', '(%s ++ %s)' % (self.env[n][1], self.str_(s.value))
        raise Unsupported('statement ' + dump(s))

    @staticmethod
    def is_doc(s):
        return isinstance(s, ast.Expr) and isinstance(s.value, ast.Constant) and isinstance(s.value.value, str)

    def pure(self, stmts):
        return all(isinstance(s, (ast.Assign, ast.AugAssign)) or self.is_doc(s) for s in stmts)

    def block(self, stmts, ind):
        if not stmts:
            raise Unsupported('control reaches the end of the function without return')
        s, rest = stmts[0], stmts[1:]
        if self.is_doc(s) or isinstance(s, ast.Pass):
            return self.block(rest, ind)
        if isinstance(s, (ast.Assign, ast.AugAssign)):
            n, ty, term = self.assign_target(s)
            saved = self.env.get(n)
            self.env[n] = (ty, 'v_' + n)
            out = '%slet v_%s := %s in\n%s' % (ind, n, term, self.block(rest, ind))
            if saved is None:
                del self.env[n]
            else:
                self.env[n] = saved
            return out
        if isinstance(s, ast.Return):
            if s.value is None:
                raise Unsupported('bare return')
            if self.ret == 'outcome':
                return ind + self.outcome_(s.value)
            if self.ret == 'optstr':
                # return super(StringGrader, self).__call__(expect, student_input, **kwargs)
                v = s.value
                if (isinstance(v, ast.Call) and isinstance(v.func, ast.Attribute) and v.func.attr == '__call__'
                        and isinstance(v.func.value, ast.Call) and isinstance(v.func.value.func, ast.Name)
                        and v.func.value.func.id == 'super' and len(v.args) == 2
                        and isinstance(v.args[0], ast.Name) and v.args[0].id == 'expect'
                        and isinstance(v.args[1], ast.Name) and v.args[1].id == 'student_input'
                        and len(v.keywords) == 1 and v.keywords[0].arg is None):
                    return ind + self.name(v.args[0], 'optstr')
                raise Unsupported('__call__ must end by delegating to ItemGrader.__call__: ' + dump(v))
            return ind + self.value(s.value, self.ret)
        if isinstance(s, ast.Raise):
            e = s.exc
            if isinstance(e, ast.Call) and isinstance(e.func, ast.Name) and len(e.args) == 1 and not e.keywords:
                if e.func.id == 'InvalidInput':
                    return ind + '(RaiseInvalid %s)' % self.str_msg(e.args[0])
                if e.func.id == 'ConfigError':
                    return ind + 'RaiseConfig'
            raise Unsupported('raise ' + dump(s))
        if isinstance(s, ast.If):
            # `if x is not None:` on a None|str value binds x as a string inside the branch
            t = s.test
            if (isinstance(t, ast.Compare) and len(t.ops) == 1 and isinstance(t.ops[0], ast.IsNot)
                    and isinstance(t.comparators[0], ast.Constant) and t.comparators[0].value is None
                    and isinstance(t.left, ast.Name) and self.env.get(t.left.id, (None,))[0] == 'optstr'):
                n = t.left.id
                saved = self.env[n]
                self.env[n] = ('str', 's_' + n)
                some = self.block(s.body + rest, ind + '    ')
                self.env[n] = saved
                none = self.block(s.orelse + rest, ind + '    ')
                return ('%smatch %s with\n%s| Some s_%s =>\n%s\n%s| None =>\n%s\n%send' %
                        (ind, saved[1], ind, n, some, ind, none, ind))
            if not s.orelse and self.pure(s.body):
                # conditional re-binding: the condition is evaluated once, before the assignments
                self.ncond += 1
                c = 'c%d' % self.ncond
                out = '%slet %s := %s in\n' % (ind, c, self.bool_(t))
                saved = {}
                for a in s.body:
                    if self.is_doc(a):
                        continue
                    n, ty, term = self.assign_target(a)
                    if n not in self.env:
                        raise Unsupported('conditional assignment to %r before it has a value' % n)
                    saved.setdefault(n, self.env[n])
                    out += '%slet v_%s := if %s then %s else %s in\n' % (ind, n, c, term, self.env[n][1])
                    self.env[n] = (ty, 'v_' + n)
                out += self.block(rest, ind)
                for n, v in saved.items():
                    self.env[n] = v
                return out
            return ('%sif %s then\n%s\n%selse\n%s' %
                    (ind, self.bool_(t), self.block(s.body + rest, ind + '  '), ind,
                     self.block(s.orelse + rest, ind + '  ')))
        raise Unsupported('statement ' + type(s).__name__)


def signature(fn, expected):
    a = fn.args
    if a.vararg or a.kwonlyargs or a.defaults or a.posonlyargs or fn.decorator_list:
        raise Unsupported('signature of %s' % fn.name)
    names = [x.arg for x in a.args]
    if names != expected:
        raise Unsupported('%s has parameters %r, expected %r' % (fn.name, names, expected))


def generate():
    tree = ast.parse(core.repo_source(SOURCE))

    def get(name):
        node = core.find_def(tree, 'StringGrader.' + name)
        if not isinstance(node, ast.FunctionDef):
            raise Unsupported('StringGrader.%s not found' % name)
        return node

    out = ['(* GENERATED by translate/strgrader.py from %s -- do not edit *)' % SOURCE,
           'From Coq Require Import ZArith QArith List Bool.',
           'From Verif.Model Require Import Result StrGrader.',
           'Import ListNotations.', 'Open Scope Z_scope.', '']

    # ---- clean_input(self, input)
    fn = get('clean_input')
    signature(fn, ['self', 'input'])
    if fn.args.kwarg:
        raise Unsupported('clean_input **kwargs')
    f = Fn({'input': ('str', 'v_input')}, 'str')
    f.vartypes = {'cleaned': 'str'}
    out.append('Definition gen_clean_input (T : tables) (cfg : config) (v_input : str) : str :=\n%s.\n'
               % f.block(fn.body, '  '))

    # ---- construct_message(self, msg, msg_type)
    fn = get('construct_message')
    signature(fn, ['self', 'msg', 'msg_type'])
    if fn.args.kwarg:
        raise Unsupported('construct_message **kwargs')
    f = Fn({'msg': ('str', 'v_msg'), 'msg_type': ('explain', 'v_msg_type')}, 'outcome')
    f.vartypes = {'invalid_response': 'entry'}
    out.append('Definition gen_construct_message (cfg : config) (v_msg : str) (v_msg_type : explain) : outcome :=\n%s.\n'
               % f.block(fn.body, '  '))

    # ---- check_response(self, answer, student_input, **kwargs)
    fn = get('check_response')
    signature(fn, ['self', 'answer', 'student_input'])
    f = Fn({'answer': ('answer', 'v_answer'), 'student_input': ('str', 'v_student_input')}, 'outcome')
    f.vartypes = {'expect': 'str', 'student': 'str', 'accept_any': 'bool', 'min_length': 'int', 'pattern': 'optstr',
                  'testpattern': 'str', 'msg': 'optstr', 'chars': 'int', 'words': 'int'}
    out.append('Definition gen_check_response (T : tables) (rematch refull : str -> str -> bool) (cfg : config)\n'
               '    (v_answer : entry) (a_expect : str) (v_student_input : str) : outcome :=\n%s.\n'
               % f.block(fn.body, '  '))

    # ---- __call__(self, expect, student_input, **kwargs)
    fn = get('__call__')
    signature(fn, ['self', 'expect', 'student_input'])
    if not fn.args.kwarg:
        raise Unsupported('__call__ without **kwargs')
    f = Fn({'expect': ('optstr', 'v_expect'), 'student_input': ('str', 'v_student_input')}, 'optstr')
    f.vartypes = {'expect': 'optstr'}
    out.append('Definition gen_call_expect (cfg : config) (v_expect : option str) : option str :=\n%s.\n'
               % f.block(fn.body, '  '))

    # the class must not define anything else that takes part in grading
    cls = core.find_def(tree, 'StringGrader')
    methods = sorted(n.name for n in cls.body if isinstance(n, ast.FunctionDef))
    expected = ['__call__', 'check_response', 'clean_input', 'construct_message', 'schema_config']
    if methods != expected:
        raise Unsupported('StringGrader defines methods %r, expected %r' % (methods, expected))
    return '\n'.join(out)
