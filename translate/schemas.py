"""schemas.py -- regenerate coq/Gen/Schemas.v from /repo (translator A of C20).

Fail-closed symbolic evaluator over the Python `ast` of
  * every `schema_config` (property or class attribute) of the public configurable classes, following
    `super(X, self).schema_config`, `.extend({...})`, `self.math_config_options`, `OtherClass.schema_config`,
  * ItemGrader.schema_answers / schema_answer / validate_expect_tuple / validate_expect (static forms),
  * the validatorfuncs combinators Positive, NonNegative, NumberRange, number_range_alternate, ListOfType,
    TupleOfType, is_shape_specification, Nullable and sampling.validate_user_constants / schema_user_functions*.
Output: Gallina terms of type Verif.Model.Schema.schema.  Any construct outside the subset raises Unsupported;
the driver then reports the obligations of C20 as broken instead of guessing.

Two functions are mirrored by hand-written constructors rather than translated (they contain try/except):
ItemGrader.validate_single_answer (SSingleAnswer) and FormulaGrader.validate_expect (SFormulaExpect); the
translator checks their normalised-AST hash and refuses to continue when they change.
"""
import ast
import hashlib
from fractions import Fraction

from harness import core


class Unsupported(Exception):
    pass


MODULES = [
    'mitxgraders/baseclasses.py', 'mitxgraders/helpers/validatorfuncs.py', 'mitxgraders/sampling.py',
    'mitxgraders/matrixsampling.py', 'mitxgraders/helpers/math_helpers.py', 'mitxgraders/stringgrader.py',
    'mitxgraders/listgrader.py', 'mitxgraders/formulagrader/formulagrader.py',
    'mitxgraders/formulagrader/matrixgrader.py', 'mitxgraders/formulagrader/intervalgrader.py',
    'mitxgraders/formulagrader/integralgrader.py', 'mitxgraders/attemptcredit.py',
    'mitxgraders/comparers/baseclasses.py', 'mitxgraders/comparers/linear_comparer.py',
]

# public configurable classes whose schema is emitted (emission order resolves dependencies on demand)
PUBLIC = [
    'RealInterval', 'IntegerRange', 'ComplexRectangle', 'ComplexSector', 'DiscreteSet', 'RandomFunction',
    'SpecificFunctions', 'DependentSampler',
    'RealVectors', 'ComplexVectors', 'RealTensors', 'ComplexTensors', 'RealMatrices', 'ComplexMatrices',
    'IdentityMatrixMultiples', 'SquareMatrices', 'OrthogonalMatrices', 'UnitaryMatrices',
    'LinearCredit', 'GeometricCredit', 'ReciprocalCredit', 'LinearComparer',
    'StringGrader', 'FormulaGrader', 'NumericalGrader', 'MatrixGrader', 'ListGrader', 'SingleListGrader',
    'IntervalGrader', 'IntegralGrader', 'SumGrader',
]

EXTERNAL_CLASSES = ['MathArray']            # classes used as types in schemas but defined outside MODULES
TAG_CALLABLE, TAG_NUMBER, TAG_REAL = 1, 2, 3
ORACLE_PERCENTAGE = 1

PYTYPES = {'bool': 'TBool', 'int': 'TInt', 'float': 'TFloat', 'str': 'TStr', 'list': 'TList', 'tuple': 'TTuple',
           'dict': 'TDict', 'object': 'TObject', 'Number': 'TNumber', 'Real': 'TReal'}

# normalised-AST hashes of the two functions mirrored by hand-written constructors (see module docstring)
MIRRORED_HASHES = {
    ('ItemGrader', 'validate_single_answer'): 'SSingleAnswer',
    ('FormulaGrader', 'validate_expect'): 'SFormulaExpect',
}


# ------------------------------------------------------------------------------------------------
# the parsed world
# ------------------------------------------------------------------------------------------------
class World:
    def __init__(self):
        self.classes, self.funcs, self.globals_ = {}, {}, {}
        for rel in MODULES:
            tree = ast.parse(core.repo_source(rel))
            for node in tree.body:
                if isinstance(node, ast.ClassDef):
                    if node.name in self.classes:
                        raise Unsupported('class %s defined twice' % node.name)
                    self.classes[node.name] = node
                elif isinstance(node, ast.FunctionDef):
                    if node.name in self.funcs:
                        raise Unsupported('function %s defined twice' % node.name)
                    self.funcs[node.name] = node
                elif isinstance(node, ast.Assign) and len(node.targets) == 1 and isinstance(node.targets[0], ast.Name):
                    name = node.targets[0].id
                    if name.startswith('__'):
                        continue
                    self.globals_[name] = node.value
        names = sorted(self.classes) + EXTERNAL_CLASSES
        self.class_ids = {n: 1000 + i for i, n in enumerate(names)}
        self._mro = {}

    def bases(self, name):
        out = []
        for b in self.classes[name].bases:
            if isinstance(b, ast.Name) and b.id in self.classes:
                out.append(b.id)
            elif isinstance(b, ast.Name) and b.id in ('object', 'Exception', 'str', 'dict'):
                continue
            elif isinstance(b, ast.Name):
                continue        # a class outside the parsed modules (exceptions): cannot carry a schema_config
            else:
                raise Unsupported('base class expression of %s' % name)
        return out

    def mro(self, name):
        if name in self._mro:
            return self._mro[name]
        seqs = [self.mro(b)[:] for b in self.bases(name)] + [self.bases(name)[:]]
        res = [name]
        while any(seqs):
            for s in seqs:
                if not s:
                    continue
                cand = s[0]
                if not any(cand in t[1:] for t in seqs):
                    break
            else:
                raise Unsupported('inconsistent MRO for %s' % name)
            res.append(cand)
            for t in seqs:
                if t and t[0] == cand:
                    del t[0]
        self._mro[name] = res
        return res

    def find_attr(self, cls, attr, after=None):
        """first definition of attr along the MRO of cls (after class `after` if given)"""
        mro = self.mro(cls)
        if after is not None:
            mro = mro[mro.index(after) + 1:]
        for k in mro:
            for node in self.classes[k].body:
                if isinstance(node, ast.FunctionDef) and node.name == attr:
                    return 'func', k, node
                if (isinstance(node, ast.Assign) and len(node.targets) == 1 and isinstance(node.targets[0], ast.Name)
                        and node.targets[0].id == attr):
                    return 'assign', k, node.value
        return None

    def tags(self, cls):
        """tags of an instance of cls: ids of the classes of its MRO (+ callable/arity are added by the harness
        for callables; the translator only needs tags of non-callable default/coerced objects)"""
        if self.find_attr(cls, '__call__'):
            raise Unsupported('default/coerced object of callable class %s' % cls)
        return [self.class_ids[k] for k in self.mro(cls)]


def ast_hash(node):
    node = core._strip_doc(ast.parse(ast.unparse(node)))
    return hashlib.sha256(ast.dump(node, include_attributes=False).encode()).hexdigest()[:16]


# hashes recorded from the tree the hand-written constructors were validated against
EXPECTED_HASH = {
    ('ItemGrader', 'validate_single_answer'): None,     # filled below (see _expected_hashes)
    ('FormulaGrader', 'validate_expect'): None,
}
_REFERENCE_SOURCES = {
    ('ItemGrader', 'validate_single_answer'): '''
def validate_single_answer(self, answer):
    try:
        validated_answer = self.schema_answer(answer)
    except MultipleInvalid:
        try:
            validated_answer = self.schema_answer({'expect': answer, 'ok': True})
        except MultipleInvalid:
            raise
    if validated_answer['ok'] == 'computed' or validated_answer['grade_decimal'] != 1:
        validated_answer['ok'] = self.grade_decimal_to_ok(validated_answer['grade_decimal'])
    return validated_answer
''',
    ('FormulaGrader', 'validate_expect'): '''
def validate_expect(self, expect):
    if isinstance(expect, str):
        return self.schema_expect({
            'comparer': self.default_comparer,
            'comparer_params': [expect]
            })
    try:
        return self.schema_expect(expect)
    except Invalid:
        if isinstance(expect, dict) and 'comparer' in expect:
            raise
        else:
            raise Invalid("Something's wrong with grader's 'answers' configuration key. "
                          "Please see documentation for accepted formats.")
''',
    ('AbstractGrader', 'grade_decimal_to_ok'): '''
@staticmethod
def grade_decimal_to_ok(grade):
    return {0: False, 1: True}.get(grade, 'partial')
''',
    ('RealInterval', '__init__'): '''
def __init__(self, config=None, **kwargs):
    super(RealInterval, self).__init__(config, **kwargs)
    if self.config['start'] > self.config['stop']:
        self.config['start'], self.config['stop'] = self.config['stop'], self.config['start']
''',
}


def reference_hash(key):
    fn = ast.parse(_REFERENCE_SOURCES[key]).body[0]
    return ast_hash(fn)


def check_mirrored(world, cls, attr):
    found = world.find_attr(cls, attr)
    if not found or found[0] != 'func' or found[1] != cls:
        raise Unsupported('%s.%s not found where the hand-written model mirrors it' % (cls, attr))
    if ast_hash(found[2]) != reference_hash((cls, attr)):
        raise Unsupported('%s.%s differs from the version mirrored by the hand-written model' % (cls, attr))


# ------------------------------------------------------------------------------------------------
# Gallina literals
# ------------------------------------------------------------------------------------------------
def g_str(s):
    if all(32 <= ord(c) <= 126 for c in s):
        return '(zs "%s")' % s.replace('"', '""')
    return '([' + '; '.join(str(ord(c)) for c in s) + '] : str)'


def g_z(n):
    return '(%d)' % n if n < 0 else '%d' % n


def g_q(x):
    fr = Fraction(x)
    return '(Qmake %s %d%%positive)' % (g_z(fr.numerator), fr.denominator)


def g_list(items):
    return '[' + '; '.join(items) + ']'


def g_pyval(v):
    """a concrete Python value (from ast.literal_eval-like evaluation) as a pyval term"""
    if v is None:
        return 'PNone'
    if v is True or v is False:
        return '(PBool %s)' % ('true' if v else 'false')
    if isinstance(v, int):
        return '(PInt %s)' % g_z(v)
    if isinstance(v, float):
        if v == float('inf'):
            return '(PInf false)'
        if v == float('-inf'):
            return '(PInf true)'
        if v != v:
            raise Unsupported('NaN literal')
        return '(PFloat %s)' % g_q(v)
    if isinstance(v, str):
        return '(PStr %s)' % g_str(v)
    if isinstance(v, list):
        return '(PList %s)' % g_list([g_pyval(x) for x in v])
    if isinstance(v, tuple):
        return '(PTuple %s)' % g_list([g_pyval(x) for x in v])
    if isinstance(v, dict):
        return '(PDict %s)' % g_list(['(%s, %s)' % (g_pyval(k), g_pyval(x)) for k, x in v.items()])
    raise Unsupported('value %r' % (v,))


# ------------------------------------------------------------------------------------------------
# the evaluator
# ------------------------------------------------------------------------------------------------
class Ctx:
    def __init__(self, dyn, defcls, locals_=None, params=None):
        self.dyn = dyn              # the concrete class whose instance `self` is
        self.defcls = defcls        # the class whose body we are reading
        self.locals = dict(locals_ or {})
        self.params = dict(params or {})    # helper parameters: name -> kind

    def child(self, **kw):
        c = Ctx(self.dyn, self.defcls, self.locals, self.params)
        for k, v in kw.items():
            setattr(c, k, v)
        return c


HELPER_SIGS = {
    # name: [(param, kind, default)]   kinds: pytype, pytypes, schema, optschema, Z, optZ, varpytypes
    'Positive': [('thetype', 'pytype', None)],
    'NonNegative': [('thetype', 'pytype', None)],
    'NumberRange': [('number_type', 'pytype', '<source>')],           # the default is read from the source
    'number_range_alternate': [('number_type', 'pytype', '<source>')],
    'ListOfType': [('given_type', 'pytype', None), ('validator', 'optschema', 'None')],
    'TupleOfType': [('given_types', 'pytypes', None), ('validator', 'optschema', 'None')],
    'is_shape_specification': [('min_dim', 'Z', '1'), ('max_dim', 'optZ', 'None')],
    'Nullable': [('schema', 'schema', None)],
    'validate_user_constants': [('allow_types', 'varpytypes', None)],
}
KIND_TYPE = {'pytype': 'pytype', 'pytypes': 'list pytype', 'varpytypes': 'list pytype', 'schema': 'schema',
             'optschema': 'option schema', 'Z': 'Z', 'optZ': 'option Z'}


class Translator:
    def __init__(self):
        self.w = World()
        self.out = []               # emitted definitions, in order
        self.emitted = {}           # class name -> gallina name
        self.helpers_done = False
        self.source_defaults = {}

    # -- names ---------------------------------------------------------------------------------
    def pytype_of_name(self, name, ctx):
        if name in ctx.params and ctx.params[name] == 'pytype':
            return 'p_' + name
        if name in PYTYPES:
            return PYTYPES[name]
        if name in self.w.class_ids:
            return '(TClass %d)' % self.w.class_ids[name]
        raise Unsupported('type name %s' % name)

    def pytype_arg(self, e, ctx):
        if isinstance(e, ast.Name):
            return self.pytype_of_name(e.id, ctx)
        if isinstance(e, ast.Attribute) and isinstance(e.value, ast.Name) and e.value.id == 'numbers' and e.attr == 'Number':
            return 'TNumber'
        raise Unsupported('type argument ' + ast.dump(e))

    # -- values (defaults) ---------------------------------------------------------------------
    def num_const(self, e):
        """numeric constant expression -> python number (np.pi allowed)"""
        if isinstance(e, ast.Constant) and isinstance(e.value, (int, float)) and not isinstance(e.value, bool):
            return e.value
        if isinstance(e, ast.Attribute) and isinstance(e.value, ast.Name) and e.value.id in ('np', 'numpy', 'math') and e.attr == 'pi':
            import math
            return math.pi
        if isinstance(e, ast.BinOp) and isinstance(e.op, (ast.Div, ast.Mult, ast.Add, ast.Sub)):
            a, b = self.num_const(e.left), self.num_const(e.right)
            if isinstance(e.op, ast.Div):
                return a / b
            if isinstance(e.op, ast.Mult):
                return a * b
            if isinstance(e.op, ast.Add):
                return a + b
            return a - b
        if isinstance(e, ast.UnaryOp) and isinstance(e.op, ast.USub):
            return -self.num_const(e.operand)
        if (isinstance(e, ast.Call) and isinstance(e.func, ast.Name) and e.func.id == 'float' and len(e.args) == 1
                and isinstance(e.args[0], ast.Constant) and e.args[0].value in ('inf', '-inf')):
            return float(e.args[0].value)
        raise Unsupported('numeric constant ' + ast.dump(e))

    def tr_value(self, e, ctx):
        if isinstance(e, ast.Constant):
            return g_pyval(e.value)
        if isinstance(e, ast.Name):
            if e.id in ctx.locals:
                return self.tr_value(ctx.locals[e.id], ctx)
            found = ctx.defcls and self.w.find_attr(ctx.defcls, e.id)
            if found and found[0] == 'assign':
                return self.tr_value(found[2], ctx)
            raise Unsupported('default value name %s' % e.id)
        if isinstance(e, ast.List):
            return '(PList %s)' % g_list([self.tr_value(x, ctx) for x in e.elts])
        if isinstance(e, ast.Tuple):
            return '(PTuple %s)' % g_list([self.tr_value(x, ctx) for x in e.elts])
        if isinstance(e, ast.Dict):
            items = []
            for k, v in zip(e.keys, e.values):
                if not (isinstance(k, ast.Constant) and isinstance(k.value, str)):
                    raise Unsupported('default dict key')
                items.append('(%s, %s)' % (g_pyval(k.value), self.tr_value(v, ctx)))
            return '(PDict %s)' % g_list(items)
        if isinstance(e, ast.Call) and isinstance(e.func, ast.Name) and not e.keywords:
            if e.func.id == 'tuple' and not e.args:
                return '(PTuple [])'
            if e.func.id in self.w.classes and not e.args:
                cls = e.func.id
                return '(default_obj %s %s %s)' % (g_list([str(t) for t in self.w.tags(cls)]),
                                                   self.class_ref(cls), self.post_of(cls))
        try:
            return g_pyval(self.num_const(e))
        except Unsupported:
            pass
        raise Unsupported('default value ' + ast.dump(e))

    # -- classes -------------------------------------------------------------------------------
    def class_ref(self, cls):
        return '(%s dc)' % self.emit_class(cls)

    def post_of(self, cls):
        """what __init__ does to the validated config of a coerced/default sampling set"""
        found = self.w.find_attr(cls, '__init__')
        if not found or found[1] == 'ObjectWithSchema':
            return 'PostId'
        if found[1] in ('RealInterval', 'IntegerRange'):
            ref = ast.parse(_REFERENCE_SOURCES[('RealInterval', '__init__')].replace('RealInterval', found[1])).body[0]
            if ast_hash(found[2]) == ast_hash(ref):
                return 'PostSwap'
        raise Unsupported('__init__ of coerced/default class %s' % cls)

    def emit_class(self, cls):
        if cls in self.emitted:
            return self.emitted[cls]
        name = 'gen_schema_' + cls
        self.emitted[cls] = name          # (no recursion through a class's own schema exists)
        body = self.schema_of_class(cls, cls)
        self.out.append('Definition %s (dc : pyval) : schema :=\n  %s.\n' % (name, body))
        return name

    def schema_of_class(self, dyn, cls, after=None):
        found = self.w.find_attr(cls, 'schema_config', after=after)
        if not found:
            raise Unsupported('%s has no schema_config' % cls)
        kind, k, node = found
        ctx = Ctx(dyn, k)
        if kind == 'assign':
            return self.tr_schema(node, ctx)
        return self.eval_property(node, ctx)

    def eval_property(self, fn, ctx):
        for d in fn.decorator_list:
            ok = (isinstance(d, ast.Name) and d.id == 'property') or \
                 (isinstance(d, ast.Attribute) and d.attr == 'abstractmethod') or \
                 (isinstance(d, ast.Name) and d.id == 'abstractmethod')
            if not ok:
                raise Unsupported('decorator on %s' % fn.name)
        if [a.arg for a in fn.args.args] != ['self'] or fn.args.vararg or fn.args.kwarg:
            raise Unsupported('signature of %s' % fn.name)
        ctx = ctx.child()
        for s in fn.body:
            if isinstance(s, ast.Expr) and isinstance(s.value, ast.Constant) and isinstance(s.value.value, str):
                continue
            if isinstance(s, ast.Assign) and len(s.targets) == 1 and isinstance(s.targets[0], ast.Name):
                name = s.targets[0].id
                # evaluate eagerly when it is a schema expression that mentions the previous binding of the name
                if self.is_schema_expr(s.value):
                    ctx.locals[name] = ('gallina', self.tr_schema(s.value, ctx))
                else:
                    ctx.locals[name] = s.value
                continue
            if isinstance(s, ast.Return) and s.value is not None:
                return self.tr_schema(s.value, ctx)
            raise Unsupported('statement %s in %s.%s' % (type(s).__name__, ctx.defcls, fn.name))
        raise Unsupported('%s.%s does not return' % (ctx.defcls, fn.name))

    @staticmethod
    def is_schema_expr(e):
        """super(..).schema_config / x.extend(..) / Schema(..)"""
        if isinstance(e, ast.Attribute) and e.attr == 'schema_config':
            return True
        if isinstance(e, ast.Call) and isinstance(e.func, ast.Attribute) and e.func.attr == 'extend':
            return True
        if isinstance(e, ast.Call) and isinstance(e.func, ast.Name) and e.func.id == 'Schema':
            return True
        return False

    # -- dict schemas --------------------------------------------------------------------------
    def tr_entries(self, d, ctx):
        entries, extra = [], None
        seen = set()
        dict_valued = set()
        for k, v in zip(d.keys, d.values):
            if isinstance(k, ast.Name) and k.id == 'Extra':
                if extra is not None:
                    raise Unsupported('two Extra keys')
                extra = self.tr_schema(v, ctx)
                continue
            if not (isinstance(k, ast.Call) and isinstance(k.func, ast.Name) and k.func.id in ('Required', 'Optional')
                    and len(k.args) == 1 and isinstance(k.args[0], ast.Constant) and isinstance(k.args[0].value, str)):
                raise Unsupported('schema key ' + ast.dump(k))
            key = k.args[0].value
            if key in seen:
                raise Unsupported('duplicate schema key %s' % key)
            seen.add(key)
            default = 'None'
            for kw in k.keywords:
                if kw.arg != 'default':
                    raise Unsupported('keyword %s on %s(%r)' % (kw.arg, k.func.id, key))
                default = '(Some %s)' % self.tr_value(kw.value, ctx)
            if isinstance(v, ast.Dict):
                dict_valued.add(key)
            required = 'true' if k.func.id == 'Required' else 'false'
            entries.append('(%s, %s, %s, %s)' % (g_str(key), required, default, self.tr_schema(v, ctx)))
        self.last_dict_valued = dict_valued
        return entries, extra

    def resolve_dict(self, e, ctx):
        """the ast.Dict an extend() argument denotes"""
        if isinstance(e, ast.Dict):
            return e, ctx
        if isinstance(e, ast.Name) and e.id in ctx.locals and isinstance(ctx.locals[e.id], ast.Dict):
            return ctx.locals[e.id], ctx
        if isinstance(e, ast.Attribute) and isinstance(e.value, ast.Name) and e.value.id == 'self':
            found = self.w.find_attr(ctx.dyn, e.attr)
            if found and found[0] == 'assign' and isinstance(found[2], ast.Dict):
                return found[2], Ctx(ctx.dyn, found[1])
        raise Unsupported('extend() argument ' + ast.dump(e))

    # -- schema expressions --------------------------------------------------------------------
    def tr_schema(self, e, ctx):
        if isinstance(e, tuple) and e[0] == 'gallina':
            return e[1]
        if isinstance(e, ast.Constant):
            if isinstance(e.value, (bool, int, float, str)) or e.value is None:
                return '(SLit %s)' % g_pyval(e.value)
            raise Unsupported('constant %r' % (e.value,))
        if isinstance(e, ast.Name):
            n = e.id
            if n in ctx.locals:
                return self.tr_schema(ctx.locals[n], ctx)
            if n in ctx.params:
                kind = ctx.params[n]
                if kind == 'pytype':
                    return '(SType p_%s)' % n
                if kind in ('schema', 'optschema_some'):
                    return 'p_' + n
                raise Unsupported('parameter %s of kind %s in schema position' % (n, kind))
            if n in PYTYPES or n in self.w.class_ids:
                return '(SType %s)' % self.pytype_of_name(n, ctx)
            if n == 'PercentageString':
                self.w.funcs[n]       # must exist
                return '(SOracle %d)' % ORACLE_PERCENTAGE
            if n == 'all_unique':
                self.w.funcs[n]
                return 'SAllUnique'
            if n == 'is_callable':
                self.w.funcs[n]
                return 'SCallable'
            if n in self.w.globals_:
                return self.tr_schema(self.w.globals_[n], Ctx(None, None))
            raise Unsupported('name %s' % n)
        if isinstance(e, ast.Attribute):
            if isinstance(e.value, ast.Name) and e.value.id == 'numbers' and e.attr == 'Number':
                return '(SType TNumber)'
            if e.attr == 'schema_config':
                v = e.value
                if isinstance(v, ast.Name) and v.id in self.w.classes:
                    return self.schema_of_class(v.id, v.id)
                if (isinstance(v, ast.Call) and isinstance(v.func, ast.Name) and v.func.id == 'super' and len(v.args) == 2
                        and isinstance(v.args[0], ast.Name) and isinstance(v.args[1], ast.Name) and v.args[1].id == 'self'):
                    if v.args[0].id != ctx.defcls:
                        raise Unsupported('super(%s, self) inside %s' % (v.args[0].id, ctx.defcls))
                    return self.schema_of_class(ctx.dyn, ctx.dyn, after=ctx.defcls)
                raise Unsupported('schema_config of ' + ast.dump(v))
            if isinstance(e.value, ast.Name) and e.value.id == 'self':
                return self.tr_self_attr(e.attr, ctx)
            raise Unsupported('attribute ' + ast.dump(e))
        if isinstance(e, ast.List):
            return '(SList %s)' % g_list([self.tr_schema(x, ctx) for x in e.elts])
        if isinstance(e, ast.Tuple):
            return '(STuple %s)' % g_list([self.tr_schema(x, ctx) for x in e.elts])
        if isinstance(e, ast.Dict):
            entries, extra = self.tr_entries(e, ctx)
            out = '(SDict %s %s)' % (g_list(entries), '(Some %s)' % extra if extra else 'None')
            if not hasattr(self, 'dict_valued'):
                self.dict_valued = {}
            self.dict_valued[out] = set(self.last_dict_valued)
            return out
        if isinstance(e, ast.Lambda):
            a = e.args
            if (len(a.args) == 1 and not a.vararg and not a.kwarg and not a.defaults and isinstance(e.body, ast.Tuple)
                    and len(e.body.elts) == 1 and isinstance(e.body.elts[0], ast.Name) and e.body.elts[0].id == a.args[0].arg):
                return 'SWrapAlways'
            raise Unsupported('lambda ' + ast.unparse(e))
        if isinstance(e, ast.Call):
            return self.tr_call(e, ctx)
        raise Unsupported('schema expression ' + type(e).__name__)

    def tr_self_attr(self, attr, ctx):
        if ctx.dyn is None:
            raise Unsupported('self.%s outside a class' % attr)
        found = self.w.find_attr(ctx.dyn, attr)
        if not found:
            raise Unsupported('self.%s not found' % attr)
        kind, k, node = found
        if kind == 'assign':
            return self.tr_schema(node, Ctx(ctx.dyn, k))
        if attr == 'validate_single_answer':
            check_mirrored(self.w, 'ItemGrader', 'validate_single_answer')
            check_mirrored(self.w, 'AbstractGrader', 'grade_decimal_to_ok')
            if k != 'ItemGrader':
                raise Unsupported('validate_single_answer overridden in %s' % k)
            return '(SSingleAnswer %s)' % self.tr_self_attr('schema_answer', ctx)
        if attr == 'validate_expect' and k == 'FormulaGrader':
            check_mirrored(self.w, 'FormulaGrader', 'validate_expect')
            return '(SFormulaExpect dc %s)' % self.tr_self_attr('schema_expect', ctx)
        if any(isinstance(d, ast.Name) and d.id == 'property' for d in node.decorator_list):
            return self.eval_property(node, Ctx(ctx.dyn, k))
        return self.tr_validator_function(node, Ctx(ctx.dyn, k))

    def kwargs(self, e, allowed):
        out = {}
        for kw in e.keywords:
            if kw.arg not in allowed:
                raise Unsupported('keyword %s in %s' % (kw.arg, ast.unparse(e)))
            out[kw.arg] = kw.value
        return out

    def bound(self, e):
        if isinstance(e, ast.Constant) and e.value is None:
            return 'BNone'
        v = self.num_const(e)
        if v == float('inf'):
            return 'BPosInf'
        if v != v or v == float('-inf'):
            raise Unsupported('Range bound')
        return '(BQ %s)' % g_q(v)

    def optz(self, e, ctx):
        if e is None or (isinstance(e, ast.Constant) and e.value is None):
            return 'None'
        if isinstance(e, ast.Constant) and isinstance(e.value, int) and not isinstance(e.value, bool):
            return '(Some %s)' % g_z(e.value)
        if isinstance(e, ast.Name) and ctx.params.get(e.id) == 'Z':
            return '(Some p_%s)' % e.id
        if isinstance(e, ast.Name) and ctx.params.get(e.id) == 'optZ':
            return 'p_' + e.id
        raise Unsupported('Length bound ' + ast.dump(e))

    def tr_call(self, e, ctx):
        f = e.func
        if isinstance(f, ast.Attribute) and f.attr == 'extend':
            if len(e.args) != 1 or e.keywords:
                raise Unsupported('extend() with options')
            base = self.tr_schema(f.value, ctx)
            base_dicts = set(getattr(self, 'dict_valued', {}).get(base, ()))
            d, dctx = self.resolve_dict(e.args[0], ctx)
            dctx = dctx.child(locals=ctx.locals) if dctx is not ctx else ctx
            entries, extra = self.tr_entries(d, dctx)
            # voluptuous merges recursively when BOTH the old and the new value of a key are dictionaries; the model's
            # sextend replaces -- refuse the case instead of guessing
            if base_dicts & self.last_dict_valued:
                raise Unsupported('extend() overrides dictionary-valued keys %s with dictionaries' % sorted(base_dicts & self.last_dict_valued))
            if not hasattr(self, 'dict_valued'):
                self.dict_valued = {}
            merged = base_dicts | self.last_dict_valued
            if extra:
                out = '(sextend_extra %s %s (Some %s))' % (base, g_list(entries), extra)
            else:
                out = '(sextend %s %s)' % (base, g_list(entries))
            self.dict_valued[out] = merged
            return out
        if not isinstance(f, ast.Name):
            raise Unsupported('call ' + ast.unparse(e))
        n = f.id
        if n == 'Schema':
            if len(e.args) != 1 or e.keywords:
                raise Unsupported('Schema() with options')
            return self.tr_schema(e.args[0], ctx)
        if n in ('Any', 'All'):
            self.kwargs(e, ['msg'] if n == 'Any' else [])
            parts = []
            for a in e.args:
                if isinstance(a, ast.Starred):
                    if isinstance(a.value, ast.Name) and ctx.params.get(a.value.id) in ('pytypes', 'varpytypes'):
                        if len(e.args) != 1:
                            raise Unsupported('starred argument mixed with others')
                        return '(S%s (map SType p_%s))' % (n, a.value.id)
                    raise Unsupported('starred argument')
                parts.append(self.tr_schema(a, ctx))
            return '(S%s %s)' % (n, g_list(parts))
        if n == 'Range':
            if e.keywords or len(e.args) != 2:
                raise Unsupported('Range form ' + ast.unparse(e))
            return '(SRange %s %s)' % (self.bound(e.args[0]), self.bound(e.args[1]))
        if n == 'Length':
            if e.args:
                raise Unsupported('positional Length')
            kw = self.kwargs(e, ['min', 'max'])
            return '(SLength %s %s)' % (self.optz(kw.get('min'), ctx), self.optz(kw.get('max'), ctx))
        if n == 'NotIn':
            if len(e.args) != 1 or e.keywords or not isinstance(e.args[0], ast.List):
                raise Unsupported('NotIn form')
            return '(SNotIn %s)' % g_list([self.tr_value(x, ctx) for x in e.args[0].elts])
        if n == 'Coerce':
            if len(e.args) != 1 or e.keywords or not isinstance(e.args[0], ast.Name):
                raise Unsupported('Coerce form')
            t = e.args[0].id
            if t == 'tuple':
                return 'SCoerceTuple'
            if t in self.w.classes:
                return '(SCoerceObj %s %s %s)' % (g_list([str(x) for x in self.w.tags(t)]), self.class_ref(t),
                                                    self.post_of(t))
            raise Unsupported('Coerce(%s)' % t)
        if n == 'is_callable_with_args':
            if len(e.args) != 1 or not isinstance(e.args[0], ast.Constant) or not isinstance(e.args[0].value, int):
                raise Unsupported('is_callable_with_args form')
            self.w.funcs[n]
            return '(SCallableArgs %d)' % e.args[0].value
        if n == 'has_keys_of_type':
            if len(e.args) != 1 or not isinstance(e.args[0], ast.Name) or e.args[0].id != 'str':
                raise Unsupported('has_keys_of_type form')
            self.w.funcs[n]
            return 'SKeysStr'
        if n in HELPER_SIGS:
            return self.helper_call(n, e, ctx)
        raise Unsupported('call to %s' % n)

    # -- helper combinators --------------------------------------------------------------------
    def helper_call(self, n, e, ctx):
        self.emit_helpers()
        sig = HELPER_SIGS[n]
        args = list(e.args)
        kws = {kw.arg: kw.value for kw in e.keywords}
        vals = []
        for i, (p, kind, default) in enumerate(sig):
            if kind == 'varpytypes':
                vals.append(g_list([self.pytype_arg(a, ctx) for a in args[i:]]))
                args = args[:i]
                break
            a = args[i] if i < len(args) else kws.pop(p, None)
            if a is None:
                if default is None:
                    raise Unsupported('missing argument %s of %s' % (p, n))
                vals.append(self.source_defaults.get((n, p), default) if default == '<source>' else default)
                continue
            if kind == 'pytype':
                vals.append(self.pytype_arg(a, ctx))
            elif kind == 'pytypes':
                elts = a.elts if isinstance(a, ast.Tuple) else [a]
                vals.append(g_list([self.pytype_arg(x, ctx) for x in elts]))
            elif kind == 'schema':
                vals.append(self.tr_schema(a, ctx))
            elif kind == 'optschema':
                vals.append('None' if isinstance(a, ast.Constant) and a.value is None else '(Some %s)' % self.tr_schema(a, ctx))
            elif kind == 'Z':
                if not (isinstance(a, ast.Constant) and isinstance(a.value, int)):
                    raise Unsupported('integer argument of %s' % n)
                vals.append(g_z(a.value))
            elif kind == 'optZ':
                vals.append(self.optz(a, ctx))
        if len(args) > len(sig) or kws:
            raise Unsupported('arguments of %s' % n)
        return '(gen_%s %s)' % (n, ' '.join(vals))

    def emit_helpers(self):
        if self.helpers_done:
            return
        self.helpers_done = True
        order = ['Positive', 'NonNegative', 'number_range_alternate', 'NumberRange', 'ListOfType', 'TupleOfType',
                 'is_shape_specification', 'Nullable', 'validate_user_constants']
        for n in order:
            fn = self.w.funcs.get(n)
            if fn is None:
                raise Unsupported('helper %s not found' % n)
            sig = HELPER_SIGS[n]
            # signature must be what the table says
            a = fn.args
            names = [x.arg for x in a.args] + ([a.vararg.arg] if a.vararg else [])
            if names != [p for p, _, _ in sig] or a.kwarg or a.kwonlyargs:
                raise Unsupported('signature of %s changed: %s' % (n, names))
            dflts = [None] * (len(a.args) - len(a.defaults)) + list(a.defaults)
            for (p, kind, default), d in zip(sig, dflts):
                if (default is None) != (d is None):
                    raise Unsupported('default of %s.%s' % (n, p))
                if d is not None:
                    got = None
                    if isinstance(d, ast.Name) and d.id in PYTYPES:
                        got = PYTYPES[d.id]
                    elif isinstance(d, ast.Constant) and d.value is None:
                        got = 'None'
                    elif isinstance(d, ast.Constant) and isinstance(d.value, int):
                        got = str(d.value)
                    if default == '<source>':
                        if got is None or kind != 'pytype':
                            raise Unsupported('default of %s.%s' % (n, p))
                        self.source_defaults[(n, p)] = got
                    elif got != default:
                        raise Unsupported('default of %s.%s changed' % (n, p))
            ctx = Ctx(None, None, params={p: kind for p, kind, _ in sig})
            body = self.helper_body(fn, ctx)
            params = ' '.join('(p_%s : %s)' % (p, KIND_TYPE[kind]) for p, kind, _ in sig)
            self.out.append('Definition gen_%s %s : schema :=\n  %s.\n' % (n, params, body))

    def helper_body(self, fn, ctx):
        stmts = [s for s in fn.body
                 if not (isinstance(s, ast.Expr) and isinstance(s.value, ast.Constant) and isinstance(s.value.value, str))]
        # message text is not modelled: `msg = <anything>` is skipped (msg is only accepted as the msg= keyword)
        stmts = [s for s in stmts if not (isinstance(s, ast.Assign) and len(s.targets) == 1
                                          and isinstance(s.targets[0], ast.Name) and s.targets[0].id == 'msg')]
        # `if not isinstance(P, tuple): P = (P,)` on a pytypes parameter: call sites are normalised by the translator
        if stmts and self.is_wrap(stmts[0]) and ctx.params.get(self.is_wrap(stmts[0])[0]) == 'pytypes':
            stmts = stmts[1:]
        if len(stmts) == 1 and isinstance(stmts[0], ast.Return):
            return self.tr_schema(stmts[0].value, ctx)
        if len(stmts) == 1 and isinstance(stmts[0], ast.If):
            s = stmts[0]
            t = s.test
            if (isinstance(t, ast.Compare) and len(t.ops) == 1 and isinstance(t.ops[0], ast.Eq) and isinstance(t.left, ast.Name)
                    and ctx.params.get(t.left.id) == 'pytype' and isinstance(t.comparators[0], ast.Name)
                    and len(s.body) == 1 and isinstance(s.body[0], ast.Return)
                    and len(s.orelse) == 1 and isinstance(s.orelse[0], ast.Return)):
                return 'if pytype_eqb p_%s %s then %s else %s' % (
                    t.left.id, self.pytype_of_name(t.comparators[0].id, ctx),
                    self.tr_schema(s.body[0].value, ctx), self.tr_schema(s.orelse[0].value, ctx))
            raise Unsupported('if in helper %s' % fn.name)
        if (len(stmts) == 2 and isinstance(stmts[0], ast.FunctionDef) and isinstance(stmts[1], ast.Return)
                and isinstance(stmts[1].value, ast.Name) and stmts[1].value.id == stmts[0].name):
            return self.tr_validator_function(stmts[0], ctx)
        raise Unsupported('body of helper %s' % fn.name)

    @staticmethod
    def is_wrap(s):
        """`if not isinstance(x, list|tuple): x = [x] | (x,)`  ->  (x, kind)"""
        if not (isinstance(s, ast.If) and not s.orelse and len(s.body) == 1):
            return None
        t = s.test
        if not (isinstance(t, ast.UnaryOp) and isinstance(t.op, ast.Not) and isinstance(t.operand, ast.Call)
                and isinstance(t.operand.func, ast.Name) and t.operand.func.id == 'isinstance' and len(t.operand.args) == 2
                and isinstance(t.operand.args[0], ast.Name) and isinstance(t.operand.args[1], ast.Name)):
            return None
        x, ty = t.operand.args[0].id, t.operand.args[1].id
        b = s.body[0]
        if not (isinstance(b, ast.Assign) and len(b.targets) == 1 and isinstance(b.targets[0], ast.Name) and b.targets[0].id == x):
            return None
        v = b.value
        if ty == 'list' and isinstance(v, ast.List) and len(v.elts) == 1 and isinstance(v.elts[0], ast.Name) and v.elts[0].id == x:
            return x, 'KList'
        if ty == 'tuple' and isinstance(v, ast.Tuple) and len(v.elts) == 1 and isinstance(v.elts[0], ast.Name) and v.elts[0].id == x:
            return x, 'KTuple'
        return None

    def tr_validator_function(self, fn, ctx):
        """a plain callable used as validator:  [wrap]; [schema = Schema(E) | if P: schema = Schema(A) else: ... ];
        return schema(x) | return Schema(E)(x) | the [a, b] -> {'start','stop'} form"""
        a = fn.args
        params = [x.arg for x in a.args]
        if params and params[0] == 'self':
            params = params[1:]
        if len(params) != 1 or a.vararg or a.kwarg or a.defaults:
            raise Unsupported('signature of validator %s' % fn.name)
        for d in fn.decorator_list:
            if not (isinstance(d, ast.Name) and d.id == 'staticmethod'):
                raise Unsupported('decorator on %s' % fn.name)
        x = params[0]
        stmts = [s for s in fn.body
                 if not (isinstance(s, ast.Expr) and isinstance(s.value, ast.Constant) and isinstance(s.value.value, str))]
        steps = []
        if stmts and self.is_wrap(stmts[0]) and self.is_wrap(stmts[0])[0] == x:
            steps.append('(SWrap %s)' % self.is_wrap(stmts[0])[1])
            stmts = stmts[1:]
        ctx = ctx.child()

        def schema_call(e, name=None):
            """Schema(E)(x) or <name>(x)  ->  E"""
            if not (isinstance(e, ast.Call) and len(e.args) == 1 and not e.keywords and isinstance(e.args[0], ast.Name)
                    and e.args[0].id == x):
                return None
            if isinstance(e.func, ast.Name) and e.func.id in ctx.locals:
                return self.tr_schema(ctx.locals[e.func.id], ctx)
            if isinstance(e.func, ast.Call) and isinstance(e.func.func, ast.Name) and e.func.func.id == 'Schema':
                return self.tr_schema(e.func, ctx)
            return None

        # optional binding of a local schema
        if stmts and isinstance(stmts[0], ast.Assign) and len(stmts[0].targets) == 1 and isinstance(stmts[0].targets[0], ast.Name) \
                and self.is_schema_expr(stmts[0].value):
            ctx.locals[stmts[0].targets[0].id] = ('gallina', self.tr_schema(stmts[0].value, ctx))
            stmts = stmts[1:]
        elif stmts and isinstance(stmts[0], ast.If) and isinstance(stmts[0].test, ast.Name) \
                and ctx.params.get(stmts[0].test.id) == 'optschema':
            s = stmts[0]
            p = s.test.id

            def branch(body, some):
                if not (len(body) == 1 and isinstance(body[0], ast.Assign) and len(body[0].targets) == 1
                        and isinstance(body[0].targets[0], ast.Name) and self.is_schema_expr(body[0].value)):
                    raise Unsupported('branch of `if %s` in %s' % (p, fn.name))
                c = ctx.child()
                c.params = dict(ctx.params)
                c.params[p] = 'optschema_some' if some else 'none'
                return body[0].targets[0].id, self.tr_schema(body[0].value, c)
            n1, a1 = branch(s.body, True)
            n2, a2 = branch(s.orelse, False)
            if n1 != n2:
                raise Unsupported('branches bind different names in %s' % fn.name)
            ctx.locals[n1] = ('gallina', '(match p_%s with Some p_%s => %s | None => %s end)' % (p, p, a1, a2))
            stmts = stmts[1:]
        if len(stmts) == 1 and isinstance(stmts[0], ast.Return):
            inner = schema_call(stmts[0].value)
            if inner is None:
                raise Unsupported('return of validator %s' % fn.name)
            steps.append(inner)
        elif (len(stmts) == 2 and isinstance(stmts[0], ast.Assign) and isinstance(stmts[1], ast.Return)
              and len(stmts[0].targets) == 1 and isinstance(stmts[0].targets[0], ast.Name) and stmts[0].targets[0].id == x):
            inner = schema_call(stmts[0].value)
            r = stmts[1].value
            ok = (inner is not None and isinstance(r, ast.Dict) and len(r.keys) == 2
                  and [k.value if isinstance(k, ast.Constant) else None for k in r.keys] == ['start', 'stop']
                  and all(isinstance(v, ast.Subscript) and isinstance(v.value, ast.Name) and v.value.id == x
                          and isinstance(v.slice, ast.Constant) and v.slice.value == i for i, v in enumerate(r.values)))
            if not ok:
                raise Unsupported('body of validator %s' % fn.name)
            steps += [inner, 'SStartStop']
        else:
            raise Unsupported('body of validator %s' % fn.name)
        return steps[0] if len(steps) == 1 else '(SAll %s)' % g_list(steps)

    # -- the sample_from schema built inside MathMixin.validate_math_config ------------------------
    def emit_sample_from(self):
        found = self.w.find_attr('MathMixin', 'validate_math_config')
        if not found or found[0] != 'func':
            raise Unsupported('MathMixin.validate_math_config not found')
        comp = None
        for s in ast.walk(found[2]):
            if (isinstance(s, ast.Assign) and len(s.targets) == 1 and isinstance(s.targets[0], ast.Name)
                    and s.targets[0].id == 'schema_sample_from'):
                v = s.value
                if (isinstance(v, ast.Call) and isinstance(v.func, ast.Name) and v.func.id == 'Schema' and len(v.args) == 1
                        and not v.keywords and isinstance(v.args[0], ast.DictComp)):
                    comp = v.args[0]
        if comp is None or len(comp.generators) != 1:
            raise Unsupported('schema_sample_from is not Schema({... for ...})')
        g = comp.generators[0]
        want = "self.config['variables'] + self.config['numbered_vars']"
        if g.ifs or g.is_async or not isinstance(g.target, ast.Name) or ast.unparse(g.iter) != want:
            raise Unsupported('schema_sample_from generator: ' + ast.unparse(g.iter))
        k = comp.key
        if not (isinstance(k, ast.Call) and isinstance(k.func, ast.Name) and k.func.id == 'Required' and len(k.args) == 1
                and isinstance(k.args[0], ast.Name) and k.args[0].id == g.target.id and len(k.keywords) == 1
                and k.keywords[0].arg == 'default'):
            raise Unsupported('schema_sample_from key')
        ctx = Ctx('MathMixin', 'MathMixin')
        self.out.append('Definition gen_sample_from_default (dc : pyval) : pyval :=\n  %s.\n'
                        % self.tr_value(k.keywords[0].value, ctx))
        self.out.append('Definition gen_sample_from_value (dc : pyval) : schema :=\n  %s.\n'
                        % self.tr_schema(comp.value, ctx))

    # -- output --------------------------------------------------------------------------------
    def generate(self):
        self.emit_helpers()
        for cls in PUBLIC:
            self.emit_class(cls)
        self.emit_sample_from()
        w = self.w
        rows = []
        for cls in PUBLIC:
            tags = [w.class_ids[k] for k in w.mro(cls)]
            rows.append('  (%s, %s, %s)' % (g_str(cls), g_list([str(t) for t in tags]), self.emitted[cls]))
        head = ['(* GENERATED by translate/schemas.py from %d modules of mitxgraders -- do not edit *)' % len(MODULES),
                'From Coq Require Import ZArith QArith List Bool String.',
                'From Verif.Model Require Import Result Schema.',
                'Import ListNotations.',
                'Open Scope string_scope.', 'Open Scope list_scope.', 'Open Scope Z_scope.', '']
        ids = '\n'.join('(* class id %d = %s *)' % (i, n) for n, i in sorted(w.class_ids.items(), key=lambda x: x[1]))
        table = ('Definition gen_classes : list (str * list Z * (pyval -> schema)) :=\n[\n' + ';\n'.join(rows) + '\n].\n')
        return '\n'.join(head) + ids + '\n\n' + '\n'.join(self.out) + '\n' + table


def generate():
    return Translator().generate()


def world():
    return World()
