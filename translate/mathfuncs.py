"""
mathfuncs.py -- regenerate coq/Gen/MathFuncs.v from /repo (translator A for C15), fail-closed.

Sources and the subset translated:
  mitxgraders/helpers/calc/mathfuncs.py
     * the derived functions sec..arccoth, arctan2, kronecker, cross, real, imag, array_abs:
       bodies made of `return e`, `if c: ... [else: ...]`, `raise FunctionEvalError(...)`, message assignments;
       expressions over numeric literals, parameters, + - * / unary -, np.pi, calls of the named numpy primitives,
       a[k] on a parameter, MathArray([...]) as a returned vector; conditions  a < b, a == b, `and`,
       `isinstance(obj, MathArray) and obj.ndim > k`
     * the decorators `@SpecifyDomain.make_decorator(shape, ...)` and the three helper decorators
     * the dict literals / the dict comprehension / the item assignments / merge_dicts(...) that build the tables,
       DEFAULT_VARIABLES
  mitxgraders/helpers/calc/expressions.py
     * the handlers of MathExpression.eval_function, validate_function_call, handle_np_floating_errors, np.seterr(...)
  mitxgraders/helpers/math_helpers.py, mitxgraders/formulagrader/matrixgrader.py
     * which table each grader family starts from
Anything else raises Unsupported; the driver then reports the C15 obligations as broken.
"""
import ast
from fractions import Fraction

from harness import core

SRC = 'mitxgraders/helpers/calc/mathfuncs.py'
EXPR = 'mitxgraders/helpers/calc/expressions.py'


class Unsupported(Exception):
    pass


UNARY_NP = {'cos', 'sin', 'tan', 'arccos', 'arcsin', 'arctan', 'cosh', 'sinh', 'tanh', 'arccosh', 'arcsinh', 'arctanh',
            'real', 'imag', 'conj', 'transpose'}
DERIVED = ['sec', 'csc', 'cot', 'arcsec', 'arccsc', 'arccot', 'sech', 'csch', 'coth', 'arcsech', 'arccsch', 'arccoth',
           'arctan2', 'kronecker', 'real', 'imag', 'cross', 'array_abs']
OPAQUE_LOCAL = {'factorial'}           # excluded from the property (scipy); kept as a named target only
EXC = {'FunctionEvalError': 'XFunctionEvalError', 'ArgumentError': 'XArgumentError',
       'ArgumentShapeError': 'XArgumentShapeError', 'CalcZeroDivisionError': 'XCalcZeroDivisionError',
       'CalcOverflowError': 'XCalcOverflowError', 'ZeroDivisionError': 'XZeroDivisionError',
       'OverflowError': 'XOverflowError', 'ValueError': 'XValueError', 'TypeError': 'XTypeError',
       'Exception': 'XException', 'StudentFacingError': 'XStudentFacing'}
CONTENT_IF_0D = ("IfExp(test=BoolOp(op=And(), values=[Call(func=Name(id='isinstance', ctx=Load()), args=[Name(id='obj', ctx=Load()), "
                 "Attribute(value=Name(id='np', ctx=Load()), attr='ndarray', ctx=Load())], keywords=[]), Compare(left=Attribute("
                 "value=Name(id='obj', ctx=Load()), attr='ndim', ctx=Load()), ops=[Eq()], comparators=[Constant(value=0)])]), "
                 "body=Call(func=Attribute(value=Name(id='obj', ctx=Load()), attr='item', ctx=Load()), args=[], keywords=[]), "
                 "orelse=Name(id='obj', ctx=Load()))")


def cstr(s):
    if '"' in s or '\\' in s or any(ord(c) > 126 or ord(c) < 32 for c in s):
        raise Unsupported('string %r' % s)
    return '"%s"' % s


def qconst(v):
    if isinstance(v, bool) or not isinstance(v, (int, float)):
        raise Unsupported('constant %r' % (v,))
    fr = Fraction(repr(v)) if isinstance(v, float) else Fraction(v)
    n = '(%d)' % fr.numerator if fr.numerator < 0 else '%d' % fr.numerator
    return '(p_num P (%s # %d))' % (n, fr.denominator)


def attr_chain(e):
    out = []
    while isinstance(e, ast.Attribute):
        out.append(e.attr)
        e = e.value
    if isinstance(e, ast.Name):
        out.append(e.id)
        return list(reversed(out))
    return None


class FnTr:
    """one derived function"""

    def __init__(self, fn, allow_0d):
        self.fn = fn
        a = fn.args
        if a.vararg or a.kwarg or a.kwonlyargs or a.defaults or a.posonlyargs:
            raise Unsupported('signature of %s' % fn.name)
        self.params = [x.arg for x in a.args]
        self.indexed = set()
        self.msgs = set()
        self.raises = any(isinstance(n, ast.Raise) for n in ast.walk(fn))
        self.vector_result = False
        self.allow_0d = allow_0d

    def ex(self, e):
        if isinstance(e, ast.Constant):
            return qconst(e.value)
        if isinstance(e, ast.Name):
            if e.id in self.params and e.id not in self.indexed:
                return 'v_' + e.id
            raise Unsupported('name %s in %s' % (e.id, self.fn.name))
        if isinstance(e, ast.UnaryOp) and isinstance(e.op, ast.USub):
            return '(p_neg P %s)' % self.ex(e.operand)
        if isinstance(e, ast.BinOp):
            op = {ast.Add: 'p_add', ast.Sub: 'p_sub', ast.Mult: 'p_mul', ast.Div: 'p_div'}.get(type(e.op))
            if op is None:
                raise Unsupported('operator %s' % type(e.op).__name__)
            return '(%s P %s %s)' % (op, self.ex(e.left), self.ex(e.right))
        if isinstance(e, ast.Attribute):
            if attr_chain(e) == ['np', 'pi']:
                return '(p_pi P)'
            raise Unsupported('attribute ' + ast.dump(e))
        if isinstance(e, ast.Subscript):
            if (isinstance(e.value, ast.Name) and e.value.id in self.params and isinstance(e.slice, ast.Constant)
                    and isinstance(e.slice.value, int) and not isinstance(e.slice.value, bool) and 0 <= e.slice.value < 100):
                self.indexed.add(e.value.id)
                return '(v_%s %d%%nat)' % (e.value.id, e.slice.value)
            raise Unsupported('subscript ' + ast.dump(e))
        if isinstance(e, ast.Call) and not e.keywords:
            ch = attr_chain(e.func)
            if ch and len(ch) == 2 and ch[0] == 'np' and ch[1] in UNARY_NP and len(e.args) == 1:
                return '(p_%s P %s)' % (ch[1], self.ex(e.args[0]))
            if ch == ['np', 'arctan2'] and len(e.args) == 2:
                return '(p_arctan2 P %s %s)' % (self.ex(e.args[0]), self.ex(e.args[1]))
            if ch == ['np', 'linalg', 'norm'] and len(e.args) == 1:
                return '(p_norm P %s)' % self.ex(e.args[0])
            if ch == ['content_if_0d_array'] and len(e.args) == 1 and self.allow_0d:
                return self.ex(e.args[0])          # unwrapping a 0-d array is the identity on values
            raise Unsupported('call ' + ast.dump(e.func))
        raise Unsupported('expression %s in %s' % (type(e).__name__, self.fn.name))

    def cond(self, e):
        if isinstance(e, ast.BoolOp) and isinstance(e.op, ast.And):
            # isinstance(obj, MathArray) and obj.ndim > k
            if (len(e.values) == 2 and isinstance(e.values[0], ast.Call) and attr_chain(e.values[0].func) == ['isinstance']
                    and len(e.values[0].args) == 2 and isinstance(e.values[0].args[0], ast.Name)
                    and e.values[0].args[0].id in self.params and attr_chain(e.values[0].args[1]) == ['MathArray']
                    and isinstance(e.values[1], ast.Compare) and len(e.values[1].ops) == 1
                    and isinstance(e.values[1].ops[0], ast.Gt)
                    and attr_chain(e.values[1].left) == [e.values[0].args[0].id, 'ndim']
                    and isinstance(e.values[1].comparators[0], ast.Constant)
                    and isinstance(e.values[1].comparators[0].value, int)):
                return '(p_ndim_gtb P v_%s %d%%nat)' % (e.values[0].args[0].id, e.values[1].comparators[0].value)
            return '(' + ' && '.join(self.cond(v) for v in e.values) + ')'
        if isinstance(e, ast.Compare) and len(e.ops) == 1:
            a, b = self.ex(e.left), self.ex(e.comparators[0])
            if isinstance(e.ops[0], ast.Lt):
                return '(p_ltb P %s %s)' % (a, b)
            if isinstance(e.ops[0], ast.Gt):
                return '(p_ltb P %s %s)' % (b, a)
            if isinstance(e.ops[0], ast.Eq):
                return '(p_eqb P %s %s)' % (a, b)
            raise Unsupported('comparison %s' % type(e.ops[0]).__name__)
        raise Unsupported('condition %s' % type(e).__name__)

    def is_message(self, e):
        if isinstance(e, ast.Constant) and isinstance(e.value, str):
            return True
        if isinstance(e, ast.Call) and isinstance(e.func, ast.Attribute) and e.func.attr == 'format':
            return self.is_message(e.func.value)
        return False

    def ret(self, e):
        if (isinstance(e, ast.Call) and attr_chain(e.func) == ['MathArray'] and len(e.args) == 1 and not e.keywords
                and isinstance(e.args[0], ast.List)):
            self.vector_result = True
            body = '[' + '; '.join(self.ex(x) for x in e.args[0].elts) + ']'
        else:
            body = self.ex(e)
        return ('(Val %s)' % body) if self.raises else body

    def block(self, stmts, ind):
        if not stmts:
            raise Unsupported('control reaches the end of %s without return' % self.fn.name)
        s, rest = stmts[0], stmts[1:]
        if isinstance(s, ast.Expr) and isinstance(s.value, ast.Constant) and isinstance(s.value.value, str):
            return self.block(rest, ind)
        if isinstance(s, ast.Return) and s.value is not None:
            return ind + self.ret(s.value)
        if isinstance(s, ast.Assign) and len(s.targets) == 1 and isinstance(s.targets[0], ast.Name) and self.is_message(s.value):
            self.msgs.add(s.targets[0].id)
            return self.block(rest, ind)
        if isinstance(s, ast.Raise) and s.cause is None and isinstance(s.exc, ast.Call) and isinstance(s.exc.func, ast.Name) \
                and s.exc.func.id in EXC and len(s.exc.args) == 1 and not s.exc.keywords \
                and (self.is_message(s.exc.args[0]) or (isinstance(s.exc.args[0], ast.Name) and s.exc.args[0].id in self.msgs)):
            return ind + '(Raise %s)' % EXC[s.exc.func.id]
        if isinstance(s, ast.If):
            then_falls = not isinstance(s.body[-1], (ast.Return, ast.Raise))
            else_falls = (not s.orelse) or not isinstance(s.orelse[-1], (ast.Return, ast.Raise))
            return ('%sif %s then\n%s\n%selse\n%s' %
                    (ind, self.cond(s.test), self.block(s.body + (rest if then_falls else []), ind + '  '), ind,
                     self.block(s.orelse + (rest if else_falls else []), ind + '  ')))
        raise Unsupported('statement %s in %s' % (type(s).__name__, self.fn.name))

    def text(self):
        body = self.block(self.fn.body, '    ')
        ps = ' '.join('(v_%s : %s)' % (p, 'nat -> V' if p in self.indexed else 'V') for p in self.params)
        rt = 'list V' if self.vector_result else 'V'
        if self.raises:
            rt = 'outcome (%s)' % rt
        return '  Definition gen_%s %s : %s :=\n%s.\n' % (self.fn.name, ps, rt, body)


# ---------------------------------------------------------------------------------------------
def shape_term(e):
    if isinstance(e, ast.Constant) and e.value == 'square':
        return 'ShSquare'
    if isinstance(e, ast.Tuple) and e.elts and all(isinstance(x, ast.Constant) and isinstance(x.value, int)
                                                   and not isinstance(x.value, bool) and 0 < x.value < 1000 for x in e.elts):
        dims = [x.value for x in e.elts]
        if dims == [1]:
            return 'ShScalar'
        if len(dims) == 1:
            return '(ShVector %d)' % dims[0]
        return '(ShArray [%s])' % '; '.join('%d' % d for d in dims)
    raise Unsupported('shape ' + ast.dump(e))


def make_decorator_call(e, name_param=None, name_value=None):
    """SpecifyDomain.make_decorator(shape..., display_name=..., min_length=...) -> domspec term"""
    if not (isinstance(e, ast.Call) and attr_chain(e.func) == ['SpecifyDomain', 'make_decorator']):
        raise Unsupported('decorator ' + ast.dump(e))
    shapes = [shape_term(a) for a in e.args]
    name, minlen = 'None', 'None'
    for kw in e.keywords:
        if kw.arg == 'display_name':
            if isinstance(kw.value, ast.Constant) and isinstance(kw.value.value, str):
                name = '(Some %s)' % cstr(kw.value.value)
            elif isinstance(kw.value, ast.Name) and kw.value.id == name_param and name_value is not None:
                name = '(Some %s)' % cstr(name_value)
            else:
                raise Unsupported('display_name ' + ast.dump(kw.value))
        elif kw.arg == 'min_length' and isinstance(kw.value, ast.Constant) and isinstance(kw.value.value, int) \
                and not isinstance(kw.value.value, bool) and kw.value.value > 0:
            minlen = '(Some %d%%nat)' % kw.value.value
        else:
            raise Unsupported('decorator keyword %s' % kw.arg)
    if minlen != 'None' and len(shapes) != 1:
        raise Unsupported('min_length with %d shapes' % len(shapes))
    return '(mkSpec [%s] %s %s)' % ('; '.join(shapes), minlen, name)


class Module:
    def __init__(self):
        self.tree = ast.parse(core.repo_source(SRC))
        self.defs = {n.name: n for n in self.tree.body if isinstance(n, ast.FunctionDef)}
        self.assigns = {}
        self.item_assigns = []
        for n in self.tree.body:
            if isinstance(n, ast.Assign) and len(n.targets) == 1:
                t = n.targets[0]
                if isinstance(t, ast.Name):
                    if t.id in self.assigns:
                        raise Unsupported('%s assigned twice' % t.id)
                    self.assigns[t.id] = n.value
                elif isinstance(t, ast.Subscript) and isinstance(t.value, ast.Name) and isinstance(t.slice, ast.Constant) \
                        and isinstance(t.slice.value, str):
                    self.item_assigns.append((t.value.id, t.slice.value, n.value, n.lineno))
                else:
                    raise Unsupported('module-level assignment target line %d' % n.lineno)
            elif isinstance(n, (ast.AugAssign, ast.Delete, ast.For, ast.While, ast.If, ast.With, ast.Try)):
                raise Unsupported('module-level statement %s line %d' % (type(n).__name__, n.lineno))
            elif isinstance(n, ast.Expr) and not (isinstance(n.value, ast.Constant) and isinstance(n.value.value, str)):
                raise Unsupported('module-level expression line %d' % n.lineno)
        self.lambdas = []
        self.helpers = {}
        self.local_specs = {}

    # -- helper decorators:  def has_one_scalar_input(display_name): return SpecifyDomain.make_decorator(...)
    def helper(self, name, display):
        fn = self.defs.get(name)
        if fn is None or len(fn.args.args) != 1 or fn.decorator_list:
            raise Unsupported('helper %s' % name)
        body = [s for s in fn.body if not (isinstance(s, ast.Expr) and isinstance(s.value, ast.Constant))]
        if len(body) != 1 or not isinstance(body[0], ast.Return):
            raise Unsupported('helper %s body' % name)
        return make_decorator_call(body[0].value, fn.args.args[0].arg, display)

    def local_entry(self, name):
        if name in OPAQUE_LOCAL:
            if name not in self.defs:
                raise Unsupported('local %s missing' % name)
            return '(mkF (TLocal %s) None)' % cstr(name)
        if name not in DERIVED or name not in self.defs:
            raise Unsupported('table refers to unknown local %s' % name)
        fn = self.defs[name]
        if not fn.decorator_list:
            return '(mkF (TLocal %s) None)' % cstr(name)
        if len(fn.decorator_list) != 1:
            raise Unsupported('decorators of %s' % name)
        return '(mkF (TLocal %s) (Some %s))' % (cstr(name), make_decorator_call(fn.decorator_list[0]))

    def value(self, e, key):
        ch = attr_chain(e)
        if ch:
            if len(ch) == 2 and ch[0] == 'np':
                return '(mkF (TNp %s) None)' % cstr(ch[1])
            if len(ch) == 4 and ch[:3] == ['np', 'lib', 'scimath']:
                return '(mkF (TScimath %s) None)' % cstr(ch[3])
            if len(ch) == 3 and ch[:2] == ['np', 'linalg']:
                return '(mkF (TLinalg %s) None)' % cstr(ch[2])
            if len(ch) == 1:
                if ch[0] in ('min', 'max') and ch[0] not in self.defs and ch[0] not in self.assigns:
                    return '(mkF (TBuiltin %s) None)' % cstr(ch[0])
                return self.local_entry(ch[0])
            raise Unsupported('table value ' + '.'.join(ch))
        if isinstance(e, ast.Lambda):
            a = e.args
            if a.vararg or a.kwarg or a.kwonlyargs or a.defaults or len(a.args) != 1:
                raise Unsupported('lambda signature')
            fake = ast.FunctionDef(name='lambda_' + key, args=a, body=[ast.Return(value=e.body)], decorator_list=[])
            self.lambdas.append(FnTr(fake, False).text())
            return '(mkF (TLambda %s) None)' % cstr(key)
        # helper(name)(inner)
        if isinstance(e, ast.Call) and isinstance(e.func, ast.Call) and isinstance(e.func.func, ast.Name) \
                and len(e.func.args) == 1 and isinstance(e.func.args[0], ast.Constant) and isinstance(e.func.args[0].value, str) \
                and len(e.args) == 1 and not e.keywords and not e.func.keywords:
            spec = self.helper(e.func.func.id, e.func.args[0].value)
            inner = self.value(e.args[0], key)
            if not inner.endswith(' None)'):
                raise Unsupported('decorating an already decorated function for %s' % key)
            return inner[:-len(' None)')] + ' (Some %s))' % spec
        raise Unsupported('table value for %s: %s' % (key, type(e).__name__))

    def dict_literal(self, name):
        e = self.assigns.get(name)
        if not isinstance(e, ast.Dict):
            raise Unsupported('%s is not a dict literal' % name)
        rows = []
        for k, v in zip(e.keys, e.values):
            if not (isinstance(k, ast.Constant) and isinstance(k.value, str)):
                raise Unsupported('key in %s' % name)
            rows.append('(%s, %s)' % (cstr(k.value), self.value(v, k.value)))
        return rows

    def undecorated(self, rows, name):
        for r in rows:
            if not r.endswith(' None))'):
                raise Unsupported('%s holds an already decorated function: %s' % (name, r))
        return rows

    def scalar_functions(self):
        """{key: has_one_scalar_input(key)(ELEMENTWISE_FUNCTIONS[key]) for key in ELEMENTWISE_FUNCTIONS} + item assignments"""
        e = self.assigns.get('SCALAR_FUNCTIONS')
        ok = (isinstance(e, ast.DictComp) and len(e.generators) == 1 and not e.generators[0].ifs
              and isinstance(e.generators[0].target, ast.Name) and isinstance(e.generators[0].iter, ast.Name)
              and e.generators[0].iter.id == 'ELEMENTWISE_FUNCTIONS' and isinstance(e.key, ast.Name)
              and e.key.id == e.generators[0].target.id)
        if not ok:
            raise Unsupported('SCALAR_FUNCTIONS is not the expected comprehension')
        k = e.key.id
        v = e.value
        ok = (isinstance(v, ast.Call) and isinstance(v.func, ast.Call) and isinstance(v.func.func, ast.Name)
              and len(v.func.args) == 1 and isinstance(v.func.args[0], ast.Name) and v.func.args[0].id == k
              and len(v.args) == 1 and isinstance(v.args[0], ast.Subscript) and isinstance(v.args[0].value, ast.Name)
              and v.args[0].value.id == 'ELEMENTWISE_FUNCTIONS' and isinstance(v.args[0].slice, ast.Name)
              and v.args[0].slice.id == k and not v.keywords and not v.func.keywords)
        if not ok:
            raise Unsupported('SCALAR_FUNCTIONS comprehension body')
        helper = v.func.func.id
        # the spec of helper(key) with the key left symbolic: instantiate per key in Coq by mapping over the list
        probe = self.helper(helper, '@KEY@')
        if probe.count(cstr('@KEY@')) > 1:
            raise Unsupported('helper uses its argument more than once')
        if cstr('@KEY@') in probe:
            spec_fun = '(fun k : string => %s)' % probe.replace('(Some %s)' % cstr('@KEY@'), '(Some k)')
        else:
            spec_fun = '(fun k : string => %s)' % probe
        extra = []
        for tbl, key, val, line in self.item_assigns:
            if tbl != 'SCALAR_FUNCTIONS':
                raise Unsupported('item assignment into %s line %d' % (tbl, line))
            extra.append('(%s, %s)' % (cstr(key), self.value(val, key)))
        return spec_fun, extra

    def merge(self, name):
        e = self.assigns.get(name)
        if not (isinstance(e, ast.Call) and attr_chain(e.func) == ['merge_dicts'] and not e.keywords
                and all(isinstance(a, ast.Name) for a in e.args)):
            raise Unsupported('%s is not merge_dicts(names...)' % name)
        return [a.id for a in e.args]

    def check_merge_dicts(self):
        fn = self.defs.get('merge_dicts')
        want = ("[Assign(targets=[Name(id='target', ctx=Store())], value=Dict(keys=[], values=[])), For(target=Name(id='source', "
                "ctx=Store()), iter=Name(id='source_dicts', ctx=Load()), body=[Expr(value=Call(func=Attribute(value=Name(id='target', "
                "ctx=Load()), attr='update', ctx=Load()), args=[Name(id='source', ctx=Load())], keywords=[]))], orelse=[]), "
                "Return(value=Name(id='target', ctx=Load()))]")
        if fn is None or fn.args.vararg is None or fn.args.vararg.arg != 'source_dicts' or fn.args.args:
            raise Unsupported('merge_dicts signature')
        body = [s for s in fn.body if not (isinstance(s, ast.Expr) and isinstance(s.value, ast.Constant))]
        got = '[' + ', '.join(ast.dump(s) for s in body) + ']'
        if got != want:
            raise Unsupported('merge_dicts body changed')

    def constants(self):
        e = self.assigns.get('DEFAULT_VARIABLES')
        if not isinstance(e, ast.Dict):
            raise Unsupported('DEFAULT_VARIABLES')
        rows = []
        for k, v in zip(e.keys, e.values):
            if not (isinstance(k, ast.Constant) and isinstance(k.value, str)):
                raise Unsupported('constant key')
            ch = attr_chain(v)
            if ch == ['np', 'e']:
                t = 'KNpE'
            elif ch == ['np', 'pi']:
                t = 'KNpPi'
            elif (isinstance(v, ast.Call) and attr_chain(v.func) == ['complex'] and len(v.args) == 2 and not v.keywords
                  and all(isinstance(a, ast.Constant) and isinstance(a.value, int) and not isinstance(a.value, bool) for a in v.args)):
                t = '(KComplex %d %d)' % (v.args[0].value, v.args[1].value)
            else:
                raise Unsupported('constant %s' % k.value)
            rows.append('(%s, %s)' % (cstr(k.value), t))
        return rows


def expressions_part():
    tree = ast.parse(core.repo_source(EXPR))
    out = []
    # --- eval_function
    fn = core.find_def(tree, 'MathExpression.eval_function')
    if fn is None:
        raise Unsupported('eval_function not found')
    body = [s for s in fn.body if not (isinstance(s, ast.Expr) and isinstance(s.value, ast.Constant))]
    if len(body) != 4:
        raise Unsupported('eval_function has %d statements' % len(body))
    a0, a1, guard, tr = body
    want0 = "Assign(targets=[Tuple(elts=[Name(id='name', ctx=Store()), Name(id='args', ctx=Store())], ctx=Store())], value=Name(id='parse_result', ctx=Load()))"
    want1 = "Assign(targets=[Name(id='func', ctx=Store())], value=Subscript(value=Name(id='functions', ctx=Load()), slice=Name(id='name', ctx=Load()), ctx=Load()))"
    wantg = ("If(test=UnaryOp(op=Not(), operand=Call(func=Name(id='getattr', ctx=Load()), args=[Name(id='func', ctx=Load()), "
             "Constant(value='validated'), Constant(value=False)], keywords=[])), body=[Expr(value=Call(func=Attribute(value=Name("
             "id='MathExpression', ctx=Load()), attr='validate_function_call', ctx=Load()), args=[Name(id='func', ctx=Load()), "
             "Name(id='name', ctx=Load()), Name(id='args', ctx=Load())], keywords=[]))], orelse=[])")
    if ast.dump(a0) != want0 or ast.dump(a1) != want1 or ast.dump(guard) != wantg:
        raise Unsupported('eval_function preamble changed')
    wantt = "[Return(value=Call(func=Name(id='func', ctx=Load()), args=[Starred(value=Name(id='args', ctx=Load()), ctx=Load())], keywords=[]))]"
    if not isinstance(tr, ast.Try) or tr.orelse or tr.finalbody or '[' + ', '.join(ast.dump(s) for s in tr.body) + ']' != wantt:
        raise Unsupported('eval_function try body changed')
    rows = []
    for h in tr.handlers:
        if not isinstance(h.type, ast.Name) or h.type.id not in EXC or h.name is not None:
            raise Unsupported('eval_function handler type')
        hb = h.body
        if len(hb) == 1 and isinstance(hb[0], ast.Raise) and hb[0].exc is None:
            rows.append('(%s, None)' % cstr(h.type.id))
            continue
        if (len(hb) == 2 and isinstance(hb[0], ast.Assign) and isinstance(hb[1], ast.Raise) and hb[1].cause is None
                and isinstance(hb[1].exc, ast.Call) and isinstance(hb[1].exc.func, ast.Name) and hb[1].exc.func.id in EXC):
            rows.append('(%s, Some %s)' % (cstr(h.type.id), EXC[hb[1].exc.func.id]))
            continue
        raise Unsupported('eval_function handler body for %s' % h.type.id)
    out.append('Definition gen_eval_function_handlers : handlers :=\n  [%s].\n' % '; '.join(rows))
    # --- validate_function_call
    vf = core.find_def(tree, 'MathExpression.validate_function_call')
    if vf is None:
        raise Unsupported('validate_function_call not found')
    ifs = [s for s in vf.body if isinstance(s, ast.If)]
    if len(ifs) != 1 or ast.dump(ifs[0].test) != ("Compare(left=Name(id='expected', ctx=Load()), ops=[NotEq()], "
                                                  "comparators=[Name(id='num_args', ctx=Load())])"):
        raise Unsupported('validate_function_call test changed')
    assigns = {s.targets[0].id: ast.dump(s.value) for s in vf.body if isinstance(s, ast.Assign) and isinstance(s.targets[0], ast.Name)}
    if assigns.get('num_args') != "Call(func=Name(id='len', ctx=Load()), args=[Name(id='args', ctx=Load())], keywords=[])" or \
            assigns.get('expected') != "Call(func=Name(id='get_number_of_args', ctx=Load()), args=[Name(id='func', ctx=Load())], keywords=[])":
        raise Unsupported('validate_function_call operands changed')
    rs = [s for s in ifs[0].body if isinstance(s, ast.Raise)]
    if len(rs) != 1 or not (isinstance(rs[0].exc, ast.Call) and isinstance(rs[0].exc.func, ast.Name) and rs[0].exc.func.id in EXC):
        raise Unsupported('validate_function_call raise')
    out.append('Definition gen_arity_mismatch : pyexc := %s.\n' % EXC[rs[0].exc.func.id])
    # --- numpy error state
    hf = core.find_def(tree, 'handle_np_floating_errors')
    if hf is None:
        raise Unsupported('handle_np_floating_errors not found')
    rows, node, default = [], [s for s in hf.body if isinstance(s, ast.If)], None
    if len(node) != 1:
        raise Unsupported('handle_np_floating_errors shape')
    cur = node[0]
    while True:
        t = cur.test
        if not (isinstance(t, ast.Compare) and len(t.ops) == 1 and isinstance(t.ops[0], ast.In) and isinstance(t.left, ast.Constant)
                and isinstance(t.left.value, str) and isinstance(t.comparators[0], ast.Name) and t.comparators[0].id == 'err'):
            raise Unsupported('handle_np_floating_errors test')
        if len(cur.body) != 1 or not isinstance(cur.body[0], ast.Raise) or not isinstance(cur.body[0].exc, ast.Name) \
                or cur.body[0].exc.id not in EXC:
            raise Unsupported('handle_np_floating_errors body')
        rows.append('(%s, %s)' % (cstr(t.left.value), EXC[cur.body[0].exc.id]))
        if len(cur.orelse) == 1 and isinstance(cur.orelse[0], ast.If):
            cur = cur.orelse[0]
            continue
        if len(cur.orelse) == 1 and isinstance(cur.orelse[0], ast.Raise) and isinstance(cur.orelse[0].exc, ast.Call) \
                and isinstance(cur.orelse[0].exc.func, ast.Name) and cur.orelse[0].exc.func.id in EXC:
            default = EXC[cur.orelse[0].exc.func.id]
            break
        raise Unsupported('handle_np_floating_errors else branch')
    out.append('Definition gen_np_handler : list (string * pyexc) :=\n  [%s].\nDefinition gen_np_handler_default : pyexc := %s.\n'
               % ('; '.join(rows), default))
    seterr, setcall = None, False
    for s in tree.body:
        if isinstance(s, ast.Expr) and isinstance(s.value, ast.Call):
            ch = attr_chain(s.value.func)
            if ch == ['np', 'seterr']:
                if seterr is not None or s.value.args:
                    raise Unsupported('np.seterr called twice / positionally')
                seterr = []
                for kw in s.value.keywords:
                    if not (isinstance(kw.value, ast.Constant) and isinstance(kw.value.value, str)):
                        raise Unsupported('np.seterr argument')
                    seterr.append('(%s, %s)' % (cstr(kw.arg), cstr(kw.value.value)))
            if ch == ['np', 'seterrcall']:
                if len(s.value.args) != 1 or attr_chain(s.value.args[0]) != ['handle_np_floating_errors']:
                    raise Unsupported('np.seterrcall argument')
                setcall = True
    for n in ast.walk(tree):       # no other place may touch the error state
        if isinstance(n, ast.Call):
            ch = attr_chain(n.func)
            if ch and ch[0] == 'np' and ch[-1] in ('seterr', 'seterrcall', 'errstate') and not any(
                    isinstance(s, ast.Expr) and s.value is n for s in tree.body):
                raise Unsupported('numpy error state changed inside a function')
    if seterr is None:
        seterr = []
    out.append('Definition gen_seterr : list (string * string) :=\n  [%s].\nDefinition gen_seterrcall_installed : bool := %s.\n'
               % ('; '.join(seterr), 'true' if setcall else 'false'))
    return out


def grader_tables():
    """which table the grader families start from"""
    mh = ast.parse(core.repo_source('mitxgraders/helpers/math_helpers.py'))
    mm = core.find_def(mh, 'MathMixin')
    got = None
    for s in getattr(mm, 'body', []):
        if isinstance(s, ast.Assign) and isinstance(s.targets[0], ast.Name) and s.targets[0].id == 'default_functions':
            got = ast.dump(s.value)
    if got != "Call(func=Attribute(value=Name(id='DEFAULT_FUNCTIONS', ctx=Load()), attr='copy', ctx=Load()), args=[], keywords=[])":
        raise Unsupported('MathMixin.default_functions is not DEFAULT_FUNCTIONS.copy()')
    for rel, cls in (('mitxgraders/formulagrader/formulagrader.py', 'FormulaGrader'),
                     ('mitxgraders/formulagrader/formulagrader.py', 'NumericalGrader')):
        t = ast.parse(core.repo_source(rel))
        c = core.find_def(t, cls)
        if c is None:
            raise Unsupported('%s not found' % cls)
        for n in ast.walk(c):
            if isinstance(n, (ast.Assign, ast.AugAssign)):
                tg = n.targets if isinstance(n, ast.Assign) else [n.target]
                for x in tg:
                    ch = attr_chain(x) or []
                    if ch and ch[-1] == 'default_functions':
                        raise Unsupported('%s rebinds default_functions' % cls)
    mg = ast.parse(core.repo_source('mitxgraders/formulagrader/matrixgrader.py'))
    c = core.find_def(mg, 'MatrixGrader')
    got = None
    for s in getattr(c, 'body', []):
        if isinstance(s, ast.Assign) and isinstance(s.targets[0], ast.Name) and s.targets[0].id == 'default_functions':
            got = ast.dump(s.value)
    want = ("Call(func=Name(id='merge_dicts', ctx=Load()), args=[Attribute(value=Name(id='FormulaGrader', ctx=Load()), "
            "attr='default_functions', ctx=Load()), Name(id='ARRAY_ONLY_FUNCTIONS', ctx=Load())], keywords=[])")
    if got != want:
        raise Unsupported('MatrixGrader.default_functions is not merge_dicts(FormulaGrader.default_functions, ARRAY_ONLY_FUNCTIONS)')


def generate():
    m = Module()
    m.check_merge_dicts()
    c0 = m.defs.get('content_if_0d_array')
    allow_0d = False
    if c0 is not None:
        rets = [s for s in c0.body if isinstance(s, ast.Return)]
        allow_0d = len(rets) == 1 and ast.dump(rets[0].value) == CONTENT_IF_0D and len(c0.args.args) == 1
    out = ['(* GENERATED by translate/mathfuncs.py from mitxgraders/helpers/calc/{mathfuncs,expressions}.py -- do not edit *)',
           'From Coq Require Import ZArith QArith List String Bool.',
           'From Verif.Lib Require Import MathFuncsBase.',
           'Import ListNotations.', 'Open Scope string_scope.', 'Open Scope bool_scope.', '',
           'Section Defs.', '  Context {V : Type} (P : prims V).', '']
    for name in DERIVED:
        if name not in m.defs:
            raise Unsupported('function %s not found' % name)
        out.append(FnTr(m.defs[name], allow_0d).text())
    elementwise = m.undecorated(m.dict_literal('ELEMENTWISE_FUNCTIONS'), 'ELEMENTWISE_FUNCTIONS')
    spec_fun, scalar_extra = m.scalar_functions()
    multi = m.dict_literal('MULTI_SCALAR_FUNCTIONS')
    array = m.dict_literal('ARRAY_FUNCTIONS')
    array_only = m.dict_literal('ARRAY_ONLY_FUNCTIONS')
    out += m.lambdas
    out += ['End Defs.', '']
    if m.merge('DEFAULT_FUNCTIONS') != ['SCALAR_FUNCTIONS', 'MULTI_SCALAR_FUNCTIONS', 'ARRAY_FUNCTIONS']:
        raise Unsupported('DEFAULT_FUNCTIONS merge order changed: %s' % m.merge('DEFAULT_FUNCTIONS'))
    grader_tables()

    def tbl(name, rows):
        return 'Definition %s : table :=\n  [ %s ].\n' % (name, '\n  ; '.join(rows))
    out.append(tbl('gen_elementwise_functions', elementwise))
    out.append('Definition gen_scalar_spec : string -> domspec := %s.\n' % spec_fun)
    out.append('Definition gen_scalar_functions : table :=\n  (map (fun kv => (fst kv, mkF (fe_target (snd kv)) (Some (gen_scalar_spec (fst kv)))))'
               ' gen_elementwise_functions\n  ++ [ %s ])%%list.\n' % '\n     ; '.join(scalar_extra))
    out.append(tbl('gen_multi_scalar_functions', multi))
    out.append(tbl('gen_array_functions', array))
    out.append(tbl('gen_array_only_functions', array_only))
    out.append('Definition gen_default_functions : table := (gen_scalar_functions ++ gen_multi_scalar_functions ++ gen_array_functions)%list.\n')
    out.append('Definition gen_matrix_functions : table := (gen_default_functions ++ gen_array_only_functions)%list.\n')
    out.append('Definition gen_default_variables : list (string * constant) :=\n  [ %s ].\n' % '; '.join(m.constants()))
    out += expressions_part()
    return '\n'.join(out)
