(* Model/Summation.v -- executable model of SumGrader (mitxgraders/formulagrader/integralgrader.py), C19.
   No proofs here.

   Straight-line parts (perform_summation, the limit checks and the cutoff choice of evaluate_sum) are
   written in the shape translate/summation.py regenerates from the source (Bridge/Summation.v: equal by
   reflexivity).  The rest (SummationGraderBase.check / structure_and_validate_input /
   validate_user_dummy_variable / validate_input_positions, MathMixin.raw_check via
   gen_var_and_func_samples, SumGrader.gen_evaluations, consolidate_results with answer=None, and the error
   rewrapping of AbstractGrader.__call__) is hand-written and tied by the differential correspondence.

   Oracles (Section variables, never axioms): the expression parser/evaluator, the tolerance comparison,
   the variable-name syntax test.  *)
From Coq Require Import ZArith QArith Qabs Qreduction Bool List.
From Verif.Lib Require Import SummationPy.
Import ListNotations.
Open Scope Z_scope.

(* ------------------------------------------------------------------------------------------------ *)
(* SumGrader.perform_summation (lines 798-854)                                                        *)
(* ------------------------------------------------------------------------------------------------ *)
Definition parity_adjust (lower residue : pyv) : outcome pyv :=
  tif (p_ne (p_abs (p_mod lower (p_lit 2))) residue) (Ret (p_add lower (p_lit 1))) (Ret lower).

Definition summation_plan (lower upper even_odd infty_val : pyv) : outcome (Z * Z * Z) :=
  (* sort the limits *)
  bind (tif (p_gt lower upper) (Ret (upper, lower)) (Ret (lower, upper))) (fun '(lower, upper) =>
  (* handle infinities *)
  bind (tif (p_eq lower (p_neg p_inf)) (Ret (p_neg infty_val)) (Ret lower)) (fun lower =>
  bind (tif (p_eq upper p_inf) (Ret infty_val) (Ret upper)) (fun upper =>
  bind (tif (p_eq upper (p_neg p_inf)) (Raise (ESummation MNegInf)) (Ret tt)) (fun _ =>
  bind (tif (p_eq lower p_inf) (Raise (ESummation MPosInf)) (Ret tt)) (fun _ =>
  (* even / odd numbers only *)
  bind (tif (p_eq even_odd (p_lit 1))
         (bind (parity_adjust lower (p_lit 1)) (fun lower => Ret (p_lit 2, lower)))
         (bind (tif (p_eq even_odd (p_lit 2))
                  (bind (parity_adjust lower (p_lit 0)) (fun lower => Ret (p_lit 2, lower)))
                  (Ret (p_lit 1, lower)))
               (fun '(delta, lower) => Ret (delta, lower))))
       (fun '(delta, lower) =>
  p_range (p_int lower) (p_int (p_add upper (p_lit 1))) delta)))))).

Definition perform_summation {V : Type} (vzero : V) (vadd : V -> V -> V) (f : Z -> outcome V)
    (lower upper even_odd infty_val : pyv) : outcome V :=
  bind (summation_plan lower upper even_odd infty_val) (sum_range vzero vadd f).

(* ------------------------------------------------------------------------------------------------ *)
(* SumGrader.evaluate_sum (lines 746-796): the translated fragments                                  *)
(* ------------------------------------------------------------------------------------------------ *)
Definition evaluate_sum_pre (var_in_scope : tbool) : outcome unit :=
  bind (tif var_in_scope (Raise (ESummation MConflict)) (Ret tt)) (fun _ => Ret tt).

Definition evaluate_sum_limits (lower upper : pyv) : outcome unit :=
  bind (tif (t_or (p_is_complex lower) (p_is_complex upper)) (Raise (ESummation MComplex)) (Ret tt)) (fun _ =>
  bind (tif (t_and (p_ne (p_abs lower) p_inf) (p_ne (p_int lower) lower)) (Raise (ESummation MLowerInt)) (Ret tt)) (fun _ =>
  bind (tif (t_and (p_ne (p_abs upper) p_inf) (p_ne (p_int upper) upper)) (Raise (ESummation MUpperInt)) (Ret tt)) (fun _ =>
  Ret tt))).

Definition evaluate_sum_cutoff (uses_fact uses_factorial : tbool) (infty_val_fact infty_val : pyv) : outcome pyv :=
  bind (tif (t_or uses_fact uses_factorial) (Ret infty_val_fact) (Ret infty_val)) (fun v => Ret v).

(* ------------------------------------------------------------------------------------------------ *)
(* strings                                                                                            *)
(* ------------------------------------------------------------------------------------------------ *)
Fixpoint str_eqb (a b : str) : bool :=
  match a, b with
  | [], [] => true
  | x :: a', y :: b' => (x =? y) && str_eqb a' b'
  | _, _ => false
  end.
Definition mem (s : str) (l : list str) : bool := existsb (str_eqb s) l.

(* str.isspace() code points; `x.strip() == ''` *)
Definition is_space (c : Z) : bool :=
  ((9 <=? c) && (c <=? 13)) || ((28 <=? c) && (c <=? 32)) || (c =? 133) || (c =? 160) || (c =? 5760)
  || ((8192 <=? c) && (c <=? 8202)) || (c =? 8232) || (c =? 8233) || (c =? 8239) || (c =? 8287) || (c =? 12288).
Definition is_blank (s : str) : bool := forallb is_space s.
Definition is_empty (s : str) : bool := match s with [] => true | _ => false end.

(* ------------------------------------------------------------------------------------------------ *)
(* SummationGraderBase.validate_input_positions (lines 109-131), run by the constructor             *)
(* ------------------------------------------------------------------------------------------------ *)
Fixpoint somes (l : list (option Z)) : list Z :=
  match l with [] => [] | Some z :: r => z :: somes r | None :: r => somes r end.
Fixpoint zmem (z : Z) (l : list Z) : bool := match l with [] => false | x :: r => (x =? z) || zmem z r end.
Fixpoint has_dup (l : list Z) : bool := match l with [] => false | x :: r => zmem x r || has_dup r end.
(* set(used) == set(range(1, len(set)+1)) for a duplicate-free list: every value lies in 1..n *)
Definition consecutive_from_1 (l : list Z) : bool :=
  forallb (fun z => (1 <=? z) && (z <=? Z.of_nat (length l))) l.

Definition validate_input_positions (pos : list (option Z)) : outcome (list (option Z)) :=
  let used := somes pos in
  if has_dup used then Raise EConfig
  else if negb (consecutive_from_1 used) then Raise EConfig
  else Ret (map (option_map (fun z => z - 1)) pos).

(* ------------------------------------------------------------------------------------------------ *)
(* The grader                                                                                         *)
(* ------------------------------------------------------------------------------------------------ *)
Record config := mkConfig {
  c_positions : list (option Z);   (* author's input_positions: lower, upper, summand, summation_variable (1-based) *)
  c_answers   : list str;          (* author's lower, upper, summand, summation_variable                           *)
  c_instructor : list str;         (* instructor_vars                                                               *)
  c_even_odd  : pyv;
  c_infty_val : pyv;
  c_infty_val_fact : pyv;
  c_samples   : nat;
  c_failable  : nat;               (* failable_evals                                                                *)
  c_scope     : list str;          (* names bound in every sample dictionary: variables and constants               *)
  c_reserved  : list str           (* self.functions, self.random_funcs, self.constants                             *)
}.

Section Grader.
  Context {V : Type}.
  Variable vzero : V.
  Variable vadd : V -> V -> V.
  (* oracles *)
  Variable within : V -> V -> bool.                                    (* within_tolerance(author, student, tolerance) *)
  Variable parses : str -> outcome unit.                               (* calc.parse(expr) succeeds / raises           *)
  Variable uses_fact : str -> bool.                                    (* 'fact' in parse(expr).functions_used          *)
  Variable uses_factorial : str -> bool.
  Variable eval_limit : str -> list str -> nat -> outcome pyv.         (* evaluator(expr, scope of sample i, allow_inf) *)
  (* parse(summand).check_scope(scope + {var: 0}, functions, suffixes): every name the summand uses is available *)
  Variable scope_check : str -> list str -> str -> outcome unit.
  Variable eval_term : str -> list str -> str -> Z -> nat -> outcome V. (* evaluator(expr, scope + {var: n})             *)
  Variable valid_name : str -> outcome bool.                           (* is_valid_variable_name                        *)

  Variable cfg : config.

  (* ---- SumGrader.evaluate_sum with SummationGraderBase.get_limits_and_funcs ---- *)
  (* everything up to the arguments of range(): dummy-variable check, limits, parse of the summand,
     limit checks, scope check of the summand, cutoff choice, then perform_summation's plan *)
  Definition evaluate_sum_plan (summand lower upper var : str) (scope : list str) (i : nat) : outcome (Z * Z * Z) :=
    bind (evaluate_sum_pre (tb (mem var scope))) (fun _ =>
    bind (eval_limit lower scope i) (fun lo =>
    bind (eval_limit upper scope i) (fun hi =>
    bind (parses summand) (fun _ =>
    bind (evaluate_sum_limits lo hi) (fun _ =>
    (* the summand's names are checked even when no term will be summed (parse hits the cache) *)
    bind (parses summand) (fun _ =>
    bind (scope_check summand scope var) (fun _ =>
    bind (evaluate_sum_cutoff (tb (uses_fact lower || uses_fact upper || uses_fact summand))
                              (tb (uses_factorial lower || uses_factorial upper || uses_factorial summand))
                              (c_infty_val_fact cfg) (c_infty_val cfg)) (fun cut =>
    summation_plan lo hi (c_even_odd cfg) cut)))))))).

  (* = ... perform_summation eval_summand lo hi even_odd cut (Proofs/Summation.v: evaluate_sum_unfold) *)
  Definition evaluate_sum (summand lower upper var : str) (scope : list str) (i : nat) : outcome V :=
    bind (evaluate_sum_plan summand lower upper var scope i)
         (sum_range vzero vadd (fun n => eval_term summand scope var n i)).

  (* fields: [lower; upper; summand; variable] *)
  Definition f_lower (l : list str) := nth 0 l [].
  Definition f_upper (l : list str) := nth 1 l [].
  Definition f_summand (l : list str) := nth 2 l [].
  Definition f_var (l : list str) := nth 3 l [].

  Definition evaluate_fields (fields : list str) (scope : list str) (i : nat) : outcome V :=
    evaluate_sum (f_summand fields) (f_lower fields) (f_upper fields) (f_var fields) scope i.

  (* ---- SumGrader.gen_evaluations ---- *)
  Definition blacklist : list str := filter (fun v => mem v (c_scope cfg)) (c_instructor cfg).
  Definition student_scope : list str := filter (fun v => negb (mem v blacklist)) (c_scope cfg).

  Definition author_eval (i : nat) : outcome V :=
    match evaluate_fields (c_answers cfg) (c_scope cfg) i with
    | Ret v => Ret v
    | Raise e => if is_mitx e then Raise EConfig else Raise e       (* except MITxError -> ConfigError *)
    end.

  (* an instructor variable (deleted from the student's scope) cannot be the student's summation variable *)
  Definition student_eval (student : list str) (i : nat) : outcome V :=
    if mem (f_var student) blacklist then Raise (ESummation MConflict)
    else evaluate_fields student student_scope i.

  Fixpoint gen_evaluations (student : list str) (todo : list nat) : outcome (list (V * V)) :=
    match todo with
    | [] => Ret []
    | i :: rest =>
        bind (author_eval i) (fun a =>
        bind (student_eval student i) (fun s =>
        bind (gen_evaluations student rest) (fun r => Ret ((a, s) :: r))))
    end.

  (* ---- MathMixin.consolidate_results(results, None, failable_evals) ---- *)
  Fixpoint consolidate_go (results : list bool) (failures : nat) (single : bool) (failable : nat) : bool :=
    match results with
    | [] => true
    | true :: r => consolidate_go r failures single failable
    | false :: r =>
        let failures := S failures in
        if single || (failable <? failures)%nat then false else consolidate_go r failures single failable
    end.
  Definition consolidate (results : list bool) (failable : nat) : bool :=
    consolidate_go results 0 (length results =? 1)%nat failable.

  (* ---- MathMixin.gen_var_and_func_samples: every non-blank expression of author and student is parsed ---- *)
  Fixpoint parse_all (l : list str) : outcome unit :=
    match l with
    | [] => Ret tt
    | s :: r => if is_blank s then parse_all r else bind (parses s) (fun _ => parse_all r)
    end.

  (* ---- SummationGraderBase.raw_check ---- *)
  Definition raw_check (student : list str) : outcome bool :=
    bind (parse_all (c_answers cfg ++ student)) (fun _ =>
    bind (gen_evaluations student (seq 0 (c_samples cfg))) (fun evals =>
    Ret (consolidate (map (fun p => within (fst p) (snd p)) evals) (c_failable cfg)))).

  (* ---- SummationGraderBase.structure_and_validate_input / transform_list_to_dict ---- *)
  Definition count_used (tp : list (option Z)) : nat := length (somes tp).
  Definition structure_input (tp : list (option Z)) (inputs : list str) : outcome (list str) :=
    if negb (count_used tp =? length inputs)%nat then Raise EConfig
    else Ret (map (fun pa => match fst pa with
                             | Some k => nth (Z.to_nat k) inputs []
                             | None => snd pa
                             end) (combine tp (c_answers cfg))).

  (* ---- SummationGraderBase.validate_user_dummy_variable ---- *)
  Definition validate_dummy (v : str) : outcome unit :=
    if mem v (c_reserved cfg) then Raise EInvalid
    else bind (valid_name v) (fun ok => if ok then Ret tt else Raise EInvalid).

  (* ---- SummationGraderBase.check ---- *)
  Definition check (tp : list (option Z)) (inputs : list str) : outcome bool :=
    bind (structure_input tp inputs) (fun fields =>
    if existsb is_empty fields then Raise EMissing
    else bind (validate_dummy (f_var fields)) (fun _ => raw_check fields)).

  (* ---- AbstractGrader.__call__ (debug off): library errors keep their class, anything else becomes
          StudentFacingError("Invalid Input: Could not check input(s) ...") ---- *)
  Definition call (tp : list (option Z)) (inputs : list str) : outcome bool :=
    match check tp inputs with
    | Raise EOther => Raise EGeneric
    | x => x
    end.

  (* ---- SumGrader(config)(None, inputs) ---- *)
  Definition grade (inputs : list str) : outcome bool :=
    bind (validate_input_positions (c_positions cfg)) (fun tp => call tp inputs).
End Grader.

(* ------------------------------------------------------------------------------------------------ *)
(* Concrete value domain used by the correspondence: numbers and arrays over the Gaussian rationals, *)
(* flattened to the list of their real and imaginary parts; [] is Python's integer 0 that sum()      *)
(* starts from (MathArray accepts adding the number 0).                                              *)
(* ------------------------------------------------------------------------------------------------ *)
Open Scope Q_scope.
Fixpoint qv_add (a b : list Q) : list Q :=
  match a, b with
  | [], _ => b
  | _, [] => a
  | x :: a', y :: b' => Qred (x + y) :: qv_add a' b'
  end.
Fixpoint qv_sub (a b : list Q) : list Q :=
  match a, b with
  | [], _ => map Qopp b
  | _, [] => a
  | x :: a', y :: b' => (x - y) :: qv_sub a' b'
  end.
Definition qv_norm2 (a : list Q) : Q := fold_left (fun acc x => acc + x * x) a 0.

Inductive tolerance := TolAbs (t : Q) | TolPct (p : Q).    (* a number, or 'p%' given as the fraction p/100 *)

(* within_tolerance(x, y, tol): |x - y| <= tol, resp. <= pct * |x|  (Frobenius norm; decided on squares) *)
Definition qv_within (tol : tolerance) (x y : list Q) : bool :=
  match tol with
  | TolAbs t => Qle_bool (qv_norm2 (qv_sub x y)) (t * t)
  | TolPct p => Qle_bool (qv_norm2 (qv_sub x y)) (p * p * qv_norm2 x)
  end.
