(* SchemaInit.v -- hand-written model of the cross-option rules applied by the constructors AFTER validate_config
   (mirrors, tied by differential correspondence and source fingerprints):
     math_helpers.validate_blacklist_whitelist_config, warn_if_override, validate_no_collisions,
     MathMixin.validate_math_config (config-affecting part), ListGrader.__init__/schema_answers/
     create_grouping_map/validate_grouping, SingleListGrader.__init__ (nested delimiters).
   No proofs here. *)
From Coq Require Import ZArith QArith List Bool String.
From Verif.Model Require Import Result Schema.
Import ListNotations.
Open Scope string_scope.
Open Scope list_scope.
Open Scope Z_scope.

(* ------------------------------------------------------------------------------------------------ *)
(* names                                                                                             *)
(* ------------------------------------------------------------------------------------------------ *)
Definition name_in (x : pyval) (names : list pyval) : bool := existsb (py_eqb x) names.

(* set(config[key]) for a list (its items) or a dict (its keys) *)
Definition names_of (v : pyval) : list pyval :=
  match v with
  | PList l | PTuple l => l
  | PDict items => keys_of items
  | _ => []
  end.

Definition cfg_get (k : string) (cfg : list (pyval * pyval)) : pyval :=
  match dict_get (zs k) cfg with Some v => v | None => PNone end.

Definition truthy (v : pyval) : bool :=
  match v with
  | PNone => false
  | PBool b => b
  | PInt z => negb (z =? 0)
  | PFloat q => negb (Qeq_bool q 0)
  | PInf _ => true
  | PStr s => negb (Nat.eqb (List.length s) 0)
  | PList l | PTuple l => negb (Nat.eqb (List.length l) 0)
  | PDict l => negb (Nat.eqb (List.length l) 0)
  | PObj _ _ => true
  end.

Fixpoint nodup_names (l : list pyval) : list pyval :=
  match l with
  | [] => []
  | x :: r => if name_in x r then nodup_names r else x :: nodup_names r
  end.

(* ------------------------------------------------------------------------------------------------ *)
(* math_helpers.validate_blacklist_whitelist_config                                                  *)
(* ------------------------------------------------------------------------------------------------ *)
Definition whitelist_blacklist_ok (dfuncs : list pyval) (blacklist whitelist : pyval) : bool :=
  negb (truthy blacklist && truthy whitelist)
  && forallb (fun f => name_in f dfuncs) (names_of blacklist)
  && (py_eqb whitelist (PList [PNone]) || forallb (fun f => name_in f dfuncs) (names_of whitelist)).

(* math_helpers.warn_if_override: an entry that is also a default needs suppress_warnings *)
Definition override_ok (suppress : bool) (entries : pyval) (defaults : list pyval) : bool :=
  suppress || negb (existsb (fun d => name_in d (names_of entries)) defaults).

(* math_helpers.validate_no_collisions on two fields *)
Definition no_collision (a b : pyval) : bool :=
  negb (existsb (fun x => name_in x (names_of b)) (names_of a)).

(* user constants given as None delete the default of that name (and themselves) *)
Definition removed_constants (uc : list (pyval * pyval)) : list pyval :=
  keys_of (filter (fun kv => match snd kv with PNone => true | _ => false end) uc).
Definition kept_constants (uc : list (pyval * pyval)) : list (pyval * pyval) :=
  filter (fun kv => match snd kv with PNone => false | _ => true end) uc.

Definition sample_from_schema (sf_default : pyval) (sf_value : schema) (vars : list pyval) : schema :=
  SDict (map (fun v => (match v with PStr s => s | _ => [] end, true, Some sf_default, sf_value)) (nodup_names vars)) None.

(* MathMixin.validate_math_config: dfuncs/dvars = names of the class's default functions / variables
   (dvars already contains 'infty' when allow_inf); returns the final config *)
Definition math_rules (orc : Z -> pyval -> outcome pyval) (dfuncs dvars : list pyval)
           (sf_default : pyval) (sf_value : schema) (cfg : pyval) : outcome pyval :=
  match cfg with
  | PDict c =>
      if negb (whitelist_blacklist_ok dfuncs (cfg_get "blacklist" c) (cfg_get "whitelist" c)) then Raise EConfig
      else
        match cfg_get "user_constants" c with
        | PDict uc =>
            let dvars' := filter (fun d => negb (name_in d (removed_constants uc))) dvars in
            let c1 := dict_set (zs "user_constants") (PDict (kept_constants uc)) c in
            let sup := truthy (cfg_get "suppress_warnings" c1) in
            if negb (override_ok sup (cfg_get "variables" c1) dvars'
                     && override_ok sup (cfg_get "numbered_vars" c1) dvars'
                     && override_ok sup (cfg_get "user_constants" c1) dvars'
                     && override_ok sup (cfg_get "user_functions" c1) dfuncs) then Raise EConfig
            else if negb (no_collision (cfg_get "variables" c1) (cfg_get "user_constants" c1)) then Raise EConfig
            else
              let vars := names_of (cfg_get "variables" c1) ++ names_of (cfg_get "numbered_vars" c1) in
              match validate orc (sample_from_schema sf_default sf_value vars) (cfg_get "sample_from" c1) with
              | Ret sf => Ret (PDict (dict_set (zs "sample_from") sf c1))
              | Raise e => Raise e
              end
        | _ => Raise EOther
        end
  | _ => Raise EOther
  end.

(* ------------------------------------------------------------------------------------------------ *)
(* ListGrader                                                                                        *)
(* ------------------------------------------------------------------------------------------------ *)
Definition tag_of_class (c : Z) (v : pyval) : bool := has_tag c v.

Definition py_length (v : pyval) : nat :=
  match v with PList l | PTuple l => List.length l | PDict l => List.length l | PStr s => List.length s | _ => O end.

(* set(grouping) == set(range(1, max(grouping) + 1)), for a non-empty list of positive integers *)
Definition group_numbers (grouping : list pyval) : list Z :=
  flat_map (fun g => match g with PInt z => [z] | PBool b => [if b then 1 else 0] | _ => [] end) grouping.

Definition zmax_list (l : list Z) : Z := fold_right Z.max 0 l.

Definition grouping_contiguous (g : list Z) : bool :=
  forallb (fun k => existsb (Z.eqb k) g) (map Z.of_nat (seq 1 (Z.to_nat (zmax_list g))))
  && forallb (fun z => (1 <=? z) && (z <=? zmax_list g)) g.

Definition group_size (g : list Z) (k : Z) : nat := List.length (filter (Z.eqb k) g).

Definition group_sizes (g : list Z) : list nat :=
  map (fun k => group_size g (Z.of_nat k)) (seq 1 (Z.to_nat (zmax_list g))).

Definition all_same_nat (l : list nat) : bool :=
  match l with [] => true | x :: r => forallb (Nat.eqb x) r end.

(* validate_grouping.  sub_list: the subgraders when a list was given; sub_single_is_list: the single
   subgrader is a ListGrader *)
Definition grouping_ok (cls_ListGrader : Z) (ordered : bool) (subgraders : pyval) (g : list Z) : bool :=
  grouping_contiguous g
  && (match subgraders with PList _ => true | s => tag_of_class cls_ListGrader s end)
  && (ordered || all_same_nat (group_sizes g))
  && (match subgraders with
      | PList subs =>
          Nat.eqb (List.length (group_sizes g)) (List.length subs)
          && forallb (fun p => Nat.leb (fst p) 1 || tag_of_class cls_ListGrader (snd p)) (combine (group_sizes g) subs)
      | _ => true
      end).

Inductive answers_shape :=
| AEmpty                       (* answers == []: nothing to check (nested grader) *)
| ASingleItem                  (* a list with one item: refused *)
| ALists (ls : list pyval).    (* the tuple of answer lists *)

Definition shape_of_answers (a : pyval) : answers_shape :=
  match a with
  | PList [] => AEmpty
  | PList [_] => ASingleItem
  | PList _ => ALists [a]
  | PTuple ls => ALists ls
  | _ => ALists []
  end.

(* ListGrader.__init__ after validate_config.  norm = what running every answer through its subgrader's
   schema_answers and post_schema_ans_val produced (an oracle: the subgraders are arbitrary graders) *)
Definition list_rules (cls_ListGrader : Z) (cfg : pyval) (norm : outcome pyval) : outcome pyval :=
  match cfg with
  | PDict c =>
      let ordered := truthy (cfg_get "ordered" c) in
      let subs := cfg_get "subgraders" c in
      let step2 : outcome pyval :=
        match shape_of_answers (cfg_get "answers" c) with
        | ASingleItem => Raise EConfig
        | AEmpty => Ret (PTuple [])
        | ALists [] => match subs with
                       | PList _ => Raise EOther          (* answers == (): answers_tuple[0] is an IndexError *)
                       | _ => norm
                       end
        | ALists (first :: rest) =>
            if negb (forallb (fun l => Nat.eqb (py_length l) (py_length first)) rest) then Raise EConfig
            else match subs with
                 | PList sl =>
                     if negb (Nat.eqb (List.length sl) (py_length first)) then Raise EConfig
                     else if negb ordered then Raise EConfig
                     else norm
                 | _ => norm
                 end
        end in
      match step2 with
      | Raise e => Raise e
      | Ret answers =>
          let c' := dict_set (zs "answers") answers c in
          match cfg_get "grouping" c with
          | PList [] => Ret (PDict c')
          | PList g => if grouping_ok cls_ListGrader ordered subs (group_numbers g) then Ret (PDict c') else Raise EConfig
          | _ => Ret (PDict c')
          end
      end
  | _ => Raise EOther
  end.

(* ------------------------------------------------------------------------------------------------ *)
(* SingleListGrader: nested delimiters                                                               *)
(* ------------------------------------------------------------------------------------------------ *)
(* the delimiters of the chain of nested SingleListGraders below (and including) obj *)
Fixpoint delimiter_chain (fuel : nat) (cls_SLG : Z) (obj : pyval) : list pyval :=
  match fuel with
  | O => []
  | S f =>
      match obj with
      | PObj tags (PDict c) =>
          if existsb (Z.eqb cls_SLG) tags
          then cfg_get "delimiter" c :: delimiter_chain f cls_SLG (cfg_get "subgrader" c)
          else []
      | _ => []
      end
  end.

(* the loop of SingleListGrader.__init__: refuse at the first delimiter already seen *)
Fixpoint delimiters_distinct (seen : list pyval) (chain : list pyval) : bool :=
  match chain with
  | [] => true
  | d :: r => if name_in d seen then false else delimiters_distinct (seen ++ [d]) r
  end.

Definition single_list_rules (cls_SLG : Z) (cfg : pyval) : outcome pyval :=
  match cfg with
  | PDict c =>
      if delimiters_distinct [cfg_get "delimiter" c] (delimiter_chain 64 cls_SLG (cfg_get "subgrader" c))
      then Ret cfg else Raise EConfig
  | _ => Raise EOther
  end.
