(* Lexer.v -- character level of the formula parser (mitxgraders/helpers/calc/expressions.py).
   No proofs here.  Rules: DESIGN.md Appendix A.

   EXPORTS (used by Model/Parser.v, Model/Eval.v and by the owners of C10 / C09):
     str                      = list Z  (code points; from Model/Result.v)
     token                    TNum text suffix | TName n | punctuation
     strip_spaces : str -> str                 MathParser.parse: expression.replace(' ', '')
     bracket_error, check_brackets : str -> option bracket_error      BracketValidator.validate
     lex : str -> option (list token)          scannerless details of get_grammar reproduced:
         - TAB / LF / CR are skipped between tokens only (pyparsing's default whitespace minus the
           already deleted U+0020); they are also skipped between a numeral and its suffix and
           between the two '|' of the parallel operator (two TPipe tokens)
         - numeral: digits ['.' [digits]] | '.' digits, then an exponent (e|E) [+|-|em-dash] digits
           only if all of it is present; the text is recorded with 'E' and with '-' for the em-dash
         - suffix: maximal run of letters and '%' directly after the numeral (after optional TAB/LF/CR)
         - name: letter alnum* , then EITHER a maximal run u of alnum|'_' (u non-empty, next char not
           '{') OR an optional _{[-]alnum+} followed by an optional ^{[-]alnum+}; then any number of '
         - '-' and em-dash (U+2014) both give TMinus; any other character fails
     print_token, print_tokens : the canonical text of a token list (used by the round-trip lemmas) *)
From Coq Require Import ZArith List Bool.
From Verif.Model Require Import Result.
Import ListNotations.
Local Open Scope Z_scope.

(* ---------- character classes (pyparsing: nums, alphas, alphanums are ASCII) ---------- *)
Definition is_digit (c : Z) : bool := (48 <=? c) && (c <=? 57).
Definition is_upper (c : Z) : bool := (65 <=? c) && (c <=? 90).
Definition is_lower (c : Z) : bool := (97 <=? c) && (c <=? 122).
Definition is_alpha (c : Z) : bool := is_upper c || is_lower c.
Definition is_alnum (c : Z) : bool := is_alpha c || is_digit c.
Definition is_ws (c : Z) : bool := (c =? 9) || (c =? 10) || (c =? 13).
Definition is_suffix_char (c : Z) : bool := is_alpha c || (c =? 37).
Definition is_sub_char (c : Z) : bool := is_alnum c || (c =? 95).
Definition is_prime (c : Z) : bool := c =? 39.

Definition ch_space := 32. Definition ch_dot := 46. Definition ch_minus := 45. Definition ch_plus := 43.
Definition ch_emdash := 8212. Definition ch_E := 69. Definition ch_e := 101.
Definition ch_us := 95. Definition ch_caret := 94. Definition ch_lbrace := 123. Definition ch_rbrace := 125.

Inductive token :=
| TNum (text : str) (suffix : option str)
| TName (n : str)
| TLP | TRP | TLB | TRB | TComma | TPlus | TMinus | TStar | TSlash | TCaret | TPipe.

(* ---------- pre-pass ---------- *)
Definition strip_spaces (s : str) : str := filter (fun c => negb (c =? ch_space)) s.

Inductive bracket_error := CloseWithoutOpen | WrongCloser | OpenWithoutClose.

Definition is_opener (c : Z) : bool := (c =? 40) || (c =? 91) || (c =? 123).
Definition opener_of (c : Z) : option Z :=
  if c =? 41 then Some 40 else if c =? 93 then Some 91 else if c =? 125 then Some 123 else None.

Fixpoint brackets (stack : list Z) (s : str) : option bracket_error :=
  match s with
  | [] => match stack with [] => None | _ => Some OpenWithoutClose end
  | c :: r =>
      if is_opener c then brackets (c :: stack) r
      else match opener_of c with
           | None => brackets stack r
           | Some o => match stack with
                       | [] => Some CloseWithoutOpen
                       | o' :: st => if o' =? o then brackets st r else Some WrongCloser
                       end
           end
  end.

Definition check_brackets (s : str) : option bracket_error := brackets [] s.

(* ---------- maximal runs ---------- *)
Fixpoint span (p : Z -> bool) (s : str) : str * str :=
  match s with
  | c :: r => if p c then let (a, b) := span p r in (c :: a, b) else ([], s)
  | [] => ([], [])
  end.

Definition skip_ws (s : str) : str := snd (span is_ws s).

(* ---------- numerals ---------- *)
(* mantissa: digits ['.' [digits]] | '.' digits *)
Definition lex_mantissa (s : str) : option (str * str) :=
  let (ip, r1) := span is_digit s in
  match ip with
  | [] => match r1 with
          | c :: r2 => if c =? ch_dot
                       then let (fp, r3) := span is_digit r2 in
                            match fp with [] => None | _ => Some (ch_dot :: fp, r3) end
                       else None
          | [] => None
          end
  | _ => match r1 with
         | c :: r2 => if c =? ch_dot
                      then let (fp, r3) := span is_digit r2 in Some (ip ++ ch_dot :: fp, r3)
                      else Some (ip, r1)
         | [] => Some (ip, r1)
         end
  end.

(* exponent: (e|E) [+|-|em-dash] digits, all or nothing; recorded as 'E' sign digits *)
Definition lex_exponent (s : str) : str * str :=
  match s with
  | c :: r =>
      if (c =? ch_e) || (c =? ch_E) then
        let '(sg, r1) := match r with
                         | d :: r' => if d =? ch_plus then ([ch_plus], r')
                                      else if (d =? ch_minus) || (d =? ch_emdash) then ([ch_minus], r')
                                      else ([], r)
                         | [] => ([], r)
                         end in
        let (ds, r2) := span is_digit r1 in
        match ds with [] => ([], s) | _ => (ch_E :: sg ++ ds, r2) end
      else ([], s)
  | [] => ([], s)
  end.

Definition lex_suffix (s : str) : option str * str :=
  let s' := skip_ws s in
  let (u, r) := span is_suffix_char s' in
  match u with [] => (None, s) | _ => (Some u, r) end.

Definition lex_number (s : str) : option (token * str) :=
  match lex_mantissa s with
  | None => None
  | Some (m, r1) =>
      let (e, r2) := lex_exponent r1 in
      let (suf, r3) := lex_suffix r2 in
      Some (TNum (m ++ e) suf, r3)
  end.

(* ---------- names ---------- *)
(* '_{' ['-'] alnum+ '}'  resp.  '^{' ['-'] alnum+ '}' with the given leading character *)
Definition lex_index (lead : Z) (s : str) : str * str :=
  match s with
  | c :: b :: r =>
      if (c =? lead) && (b =? ch_lbrace) then
        let '(sg, r1) := match r with
                         | d :: r' => if d =? ch_minus then ([ch_minus], r') else ([], r)
                         | [] => ([], r)
                         end in
        let (w, r2) := span is_alnum r1 in
        match w, r2 with
        | _ :: _, cl :: r3 => if cl =? ch_rbrace then (c :: b :: sg ++ w ++ [ch_rbrace], r3) else ([], s)
        | _, _ => ([], s)
        end
      else ([], s)
  | _ => ([], s)
  end.

(* s must start with a letter *)
Definition lex_name (s : str) : str * str :=
  let (front, r1) := span is_alnum s in
  let (u, r2) := span is_sub_char r1 in
  let '(mid, r3) :=
    match u, r2 with
    | _ :: _, c :: _ => if c =? ch_lbrace then
                          let (lo, ra) := lex_index ch_us r1 in
                          let (up, rb) := lex_index ch_caret ra in (lo ++ up, rb)
                        else (u, r2)
    | _ :: _, [] => (u, r2)
    | [], _ => let (lo, ra) := lex_index ch_us r1 in
               let (up, rb) := lex_index ch_caret ra in (lo ++ up, rb)
    end in
  let (pr, r4) := span is_prime r3 in
  (front ++ mid ++ pr, r4).

(* ---------- punctuation ---------- *)
Definition punct (c : Z) : option token :=
  if c =? 40 then Some TLP else if c =? 41 then Some TRP
  else if c =? 91 then Some TLB else if c =? 93 then Some TRB
  else if c =? 44 then Some TComma else if c =? 43 then Some TPlus
  else if (c =? ch_minus) || (c =? ch_emdash) then Some TMinus
  else if c =? 42 then Some TStar else if c =? 47 then Some TSlash
  else if c =? ch_caret then Some TCaret else if c =? 124 then Some TPipe
  else None.

(* ---------- the token stream ---------- *)
Fixpoint lex_loop (fuel : nat) (s : str) : option (list token) :=
  match fuel with
  | O => None
  | S f =>
      match skip_ws s with
      | [] => Some []
      | c :: r =>
          if is_digit c || (c =? ch_dot) then
            match lex_number (c :: r) with
            | Some (t, r') => option_map (cons t) (lex_loop f r')
            | None => None
            end
          else if is_alpha c then
            let (n, r') := lex_name (c :: r) in option_map (cons (TName n)) (lex_loop f r')
          else match punct c with
               | Some t => option_map (cons t) (lex_loop f r)
               | None => None
               end
      end
  end.

(* every token consumes at least one character *)
Definition lex (s : str) : option (list token) := lex_loop (S (length s)) s.

(* ---------- canonical printing ---------- *)
Definition print_token (t : token) : str :=
  match t with
  | TNum x None => x
  | TNum x (Some u) => x ++ u
  | TName n => n
  | TLP => [40] | TRP => [41] | TLB => [91] | TRB => [93] | TComma => [44]
  | TPlus => [43] | TMinus => [45] | TStar => [42] | TSlash => [47] | TCaret => [94] | TPipe => [124]
  end.

Definition print_tokens (ts : list token) : str := flat_map print_token ts.

Definition token_eqb (a b : token) : bool :=
  match a, b with
  | TNum x None, TNum y None => str_eqb x y
  | TNum x (Some u), TNum y (Some v) => str_eqb x y && str_eqb u v
  | TName x, TName y => str_eqb x y
  | TLP, TLP | TRP, TRP | TLB, TLB | TRB, TRB | TComma, TComma | TPlus, TPlus | TMinus, TMinus
  | TStar, TStar | TSlash, TSlash | TCaret, TCaret | TPipe, TPipe => true
  | _, _ => false
  end.
