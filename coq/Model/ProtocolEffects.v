(* ProtocolEffects.v -- the reviewed table behind C11's frame conditions.

   Gen/Protocol.v lists every write site of mitxgraders/ (see translate/protocol.py, part 2).  A row is
   harmless by construction when it rebinds an attribute of `self`, or changes a container held directly in
   an attribute of `self` that is not a class-level (shared) object.  Every other row must appear below with
   the reason it cannot change an author's object, another grader, or a process-wide setting -- or be
   marked as a defect.  No proofs here. *)
From Coq Require Import List Bool String.
From Verif.Lib Require Import ProtocolSyntax.
Import ListNotations.
Open Scope string_scope.

Inductive why :=
| WResultOfThisCall    (* a result / grade entry built by the library during the current grading call *)
| WValidatedCopy       (* the copy of the configuration or answers made by coerce2unicode + schema validation *)
| WCallerScratch       (* the caller passes a list / dict / array it has just created *)
| WRegistryAPI         (* author-facing API whose purpose is to change a process-wide default; not used by grading/construction *)
| WSwitchRestored      (* MathArray.enable_negative_powers: undone in `finally` (switch_restored) *)
| WImportTime          (* executed once, when the module is imported *)
| WOwnMatrices         (* Munkres' scratch matrices, rebuilt by every compute() *)
| WLogHandle           (* the parent's debug log handed to its subgraders *)
| WAuthorObject.       (* DEFECT: an object supplied by the author is modified *)

Record reviewed := mkRev { v_file : string; v_func : string; v_target : string; v_why : why }.

Definition base := "mitxgraders/baseclasses.py".
Definition lstg := "mitxgraders/listgrader.py".
Definition ivlg := "mitxgraders/formulagrader/intervalgrader.py".
Definition intg := "mitxgraders/formulagrader/integralgrader.py".
Definition mnk := "mitxgraders/helpers/munkres.py".

Definition reviewed_rows : list reviewed := [
  (* results of the running call *)
  mkRev base "AbstractGrader.apply_attempt_based_credit" "results_dict['grade_decimal']" WResultOfThisCall;
  mkRev base "AbstractGrader.apply_attempt_based_credit" "results_dict['ok']" WResultOfThisCall;
  mkRev base "AbstractGrader.apply_attempt_based_credit" "result['grade_decimal']" WResultOfThisCall;
  mkRev base "AbstractGrader.apply_attempt_based_credit" "result['ok']" WResultOfThisCall;
  mkRev base "AbstractGrader.apply_attempt_based_credit" "result[key]" WResultOfThisCall;
  mkRev base "AbstractGrader.format_messages" "result['overall_message']" WResultOfThisCall;
  mkRev base "AbstractGrader.format_messages" "subresult['msg']" WResultOfThisCall;
  mkRev base "AbstractGrader.format_messages" "result['msg']" WResultOfThisCall;
  mkRev ivlg "IntervalGrader.grade_bracket" "grade_entry['grade_decimal']" WResultOfThisCall;
  mkRev ivlg "IntervalGrader.grade_bracket" "grade_entry['ok']" WResultOfThisCall;
  mkRev ivlg "IntervalGrader.grade_bracket" "grade_entry['msg']" WResultOfThisCall;
  mkRev lstg "find_optimal_order.calculate_cost" "result['grade_decimal']" WResultOfThisCall;
  (* validated copies *)
  mkRev lstg "ListGrader.schema_answers" "answer_list[idx]" WValidatedCopy;
  mkRev lstg "SingleListGrader.post_schema_ans_val" "entry['expect']" WValidatedCopy;
  mkRev lstg "SingleListGrader.post_schema_ans_val" "expect[index]" WValidatedCopy;
  mkRev ivlg "IntervalGrader.post_schema_ans_val" "entry['expect']" WValidatedCopy;
  mkRev ivlg "IntervalGrader.post_schema_ans_val" "expect[index]" WValidatedCopy;
  mkRev "mitxgraders/helpers/math_helpers.py" "MathMixin.validate_math_config" "self.config['user_constants'][entry]" WValidatedCopy;
  (* scratch objects of the caller *)
  mkRev lstg "consolidate_grades" "grade_decimals" WCallerScratch;
  mkRev intg "IntegralGrader.evaluate_int" "varscope[integration_var]" WCallerScratch;
  mkRev intg "IntegralGrader.evaluate_int.raw_integrand" "varscope[integration_var]" WCallerScratch;
  mkRev intg "SumGrader.evaluate_sum.eval_summand" "varscope[summation_var]" WCallerScratch;
  mkRev "mitxgraders/helpers/calc/expressions.py" "MathExpression.eval_array" "metadata_dict['max_array_dim_used']" WCallerScratch;
  mkRev "mitxgraders/matrixsampling.py" "SquareMatrices.make_det_zero" "array[index, index]" WCallerScratch;
  (* Munkres *)
  mkRev mnk "Munkres.__convert_path" "self.marked[path[i][0]][path[i][1]]" WOwnMatrices;
  mkRev mnk "Munkres.__erase_primes" "self.marked[i][j]" WOwnMatrices;
  mkRev mnk "Munkres.__step1" "self.C[i][j]" WOwnMatrices;
  mkRev mnk "Munkres.__step2" "self.marked[i][j]" WOwnMatrices;
  mkRev mnk "Munkres.__step4" "self.marked[row][col]" WOwnMatrices;
  mkRev mnk "Munkres.__step5" "path[count][0]" WOwnMatrices;
  mkRev mnk "Munkres.__step5" "path[count][1]" WOwnMatrices;
  mkRev mnk "Munkres.__step6" "self.C[i][j]" WOwnMatrices;
  (* the debug log of a ListGrader is shared with its subgraders for the duration of the check *)
  mkRev lstg "ListGrader.check" "subgrader.debuglog" WLogHandle;
  mkRev lstg "ListGrader.check" "self.config['subgraders'].debuglog" WLogHandle;
  mkRev lstg "SingleListGrader.check_response" "self.config['subgrader'].debuglog" WLogHandle;
  (* process-wide defaults: the author-facing API *)
  mkRev base "ObjectWithSchema.register_defaults" "cls.default_values" WRegistryAPI;
  mkRev base "ObjectWithSchema.clear_registered_defaults" "cls.default_values" WRegistryAPI;
  mkRev "mitxgraders/formulagrader/formulagrader.py" "FormulaGrader.set_default_comparer" "cls.default_comparer" WRegistryAPI;
  mkRev "mitxgraders/formulagrader/formulagrader.py" "FormulaGrader.reset_default_comparer" "cls.set_default_comparer(equality_comparer)" WRegistryAPI;
  mkRev "mitxgraders/sampling.py" "set_seed" "random.seed(seed)" WRegistryAPI;
  mkRev "mitxgraders/sampling.py" "set_seed" "np.random.seed(seed)" WRegistryAPI;
  mkRev "mitxgraders/__init__.py" "import_plugins" "globals()" WRegistryAPI;
  mkRev "mitxgraders/__init__.py" "import_zip_plugins" "globals()" WRegistryAPI;
  (* the negative-powers switch *)
  mkRev "mitxgraders/helpers/calc/math_array.py" "MathArray.enable_negative_powers" "cls._negative_powers" WSwitchRestored;
  (* import time *)
  mkRev "mitxgraders/__init__.py" "<module>" "import_zip_plugins()" WImportTime;
  mkRev "mitxgraders/__init__.py" "<module>" "import_plugins()" WImportTime;
  mkRev "mitxgraders/helpers/calc/expressions.py" "<module>" "np.seterrcall(handle_np_floating_errors)" WImportTime;
  mkRev "mitxgraders/helpers/calc/expressions.py" "<module>" "np.seterr(divide='call', over='call', invalid='call')" WImportTime;
  mkRev "mitxgraders/helpers/calc/mathfuncs.py" "<module>" "SCALAR_FUNCTIONS['arctan2']" WImportTime;
  mkRev "mitxgraders/helpers/calc/mathfuncs.py" "<module>" "SCALAR_FUNCTIONS['kronecker']" WImportTime
  (* no site is currently marked WAuthorObject: IntervalGrader.__init__ used to store the default subgrader in the
     author's dictionary (fixed in ff4d9d4: it now works on a copy, so the row is gone from the inventory) *)
].

(* rows that need no review *)
Definition own_state (r : row) : bool :=
  match r_root r, r_shape r, r_flag r with
  | RSelf, (ShAttr | ShItem), (FPlain | FRebound) => String.eqb (r_via r) ""
  | _, _, _ => false
  end.

Definition matches (r : row) (v : reviewed) : bool :=
  String.eqb (r_file r) (v_file v) && String.eqb (r_func r) (v_func v) && String.eqb (r_target r) (v_target v).

Definition review_of (r : row) : option why :=
  match find (matches r) reviewed_rows with Some v => Some (v_why v) | None => None end.

(* import-time reasons only excuse import-time rows; API reasons only rows outside the grading/construction entry points *)
Definition entry_point (f : string) : bool :=
  existsb (fun s => if String.index 0 s f then true else false)
          ["__init__"; "__call__"; "check"; "validate"; "schema_answers"; "post_schema_ans_val"; "gen_sample"; "create_debuglog"].

Definition reason_fits (r : row) (w : why) : bool :=
  match w with
  | WImportTime => match r_flag r with FImport => true | _ => false end
  | WRegistryAPI => negb (entry_point (r_func r))
  | WSwitchRestored => String.eqb (r_func r) "MathArray.enable_negative_powers"
  | WOwnMatrices => String.eqb (r_file r) mnk
  | _ => true
  end.

Definition is_defect (w : why) : bool := match w with WAuthorObject => true | _ => false end.

(* every write site is own state or reviewed with a fitting reason (defects included: they are reviewed, not excused) *)
Definition accounted (r : row) : bool :=
  own_state r || match review_of r with Some w => reason_fits r w | None => false end.

(* ... and is not a defect *)
Definition harmless (r : row) : bool :=
  own_state r || match review_of r with Some w => reason_fits r w && negb (is_defect w) | None => false end.

Definition defects (rows : list row) : list row :=
  filter (fun r => negb (own_state r) && match review_of r with Some w => is_defect w | None => false end) rows.

(* who may write which process-wide setting *)
Definition setting_writer_ok (r : row) : bool :=
  match r_setting r with
  | SNone => true
  | SDefaultValues =>
      existsb (String.eqb (r_func r))
              ["ObjectWithSchema.register_defaults"; "ObjectWithSchema.clear_registered_defaults"; "DefaultValuesMeta.__init__"]
  | SNegPowers => String.eqb (r_func r) "MathArray.enable_negative_powers"
  | SDefaultTables =>
      (* import-time construction of the tables, or an instance attribute (re)bound to a fresh copy *)
      match r_flag r, r_root r, r_shape r with
      | FImport, _, _ => true
      | FRebound, RSelf, _ => true
      | FPlain, RSelf, ShAttr => true
      | _, _, _ => false
      end
  | SNumpyErr => match r_flag r with FImport => true | _ => false end
  | SRandomSeed => String.eqb (r_func r) "set_seed"
  | SNamespace =>
      existsb (String.eqb (r_func r)) ["import_plugins"; "import_zip_plugins"; "<module>"]
  | SDefaultComparer =>
      existsb (String.eqb (r_func r))
              ["FormulaGrader.set_default_comparer"; "FormulaGrader.reset_default_comparer"; "MatrixGrader.__init__"]
  | SOtherProcess => false
  end.
