(* Model/ListGraderAgree.v -- definitions used by the C05 correspondence cases (harness/props/c05.py):
   the item-grader oracle as a recorded table, and the agreement predicates evaluated by vm_compute.
   Definitions only. *)
From Coq Require Import ZArith QArith Qabs List Bool Arith.
From Verif.Lib Require Import QRound.
From Verif.Model Require Import Result Munkres ListGrader.
Import ListNotations.

Fixpoint zlist_eqb (a b : list Z) : bool :=
  match a, b with
  | [], [] => true
  | x :: a', y :: b' => Z.eqb x y && zlist_eqb a' b'
  | _, _ => false
  end.

Definition ginput_eqb (a b : ginput Z) : bool :=
  match a, b with
  | GOne x, GOne y => Z.eqb x y
  | GMany xs, GMany ys => zlist_eqb xs ys
  | _, _ => false
  end.

Fixpoint sibs_eqb (a b : list (nat * ginput Z)) : bool :=
  match a, b with
  | [], [] => true
  | (g, x) :: a', (h, y) :: b' => Nat.eqb g h && ginput_eqb x y && sibs_eqb a' b'
  | _, _ => false
  end.

Definition osibs_eqb (a b : option (list (nat * ginput Z))) : bool :=
  match a, b with
  | None, None => true
  | Some x, Some y => sibs_eqb x y
  | _, _ => false
  end.

(* one recorded call of an item grader's check: (grader id, answer id, input, siblings) -> outcome
   (None = it raised) *)
Definition rec_row := (nat * nat * ginput Z * option (list (nat * ginput Z)) * option entry)%type.

Fixpoint table_lookup (tbl : list rec_row) (g a : nat) (x : ginput Z) (s : option (list (nat * ginput Z)))
  : option entry :=
  match tbl with
  | [] => None
  | (g', a', x', s', out) :: r =>
      if Nat.eqb g g' && Nat.eqb a a' && ginput_eqb x x' && osibs_eqb s s' then out
      else table_lookup r g a x s
  end.

Definition table_oracle (tbl : list rec_row) : item_oracle := table_lookup tbl.

Definition entry_eqb (a b : entry) : bool :=
  okv_eqb (e_ok a) (e_ok b) && Qeq_bool (e_grade a) (e_grade b) && str_eqb (e_msg a) (e_msg b).

Fixpoint entries_eqb (a b : list entry) : bool :=
  match a, b with
  | [], [] => true
  | x :: a', y :: b' => entry_eqb x y && entries_eqb a' b'
  | _, _ => false
  end.

Fixpoint lists_eqb (a b : list (list entry)) : bool :=
  match a, b with
  | [], [] => true
  | x :: a', y :: b' => entries_eqb x y && lists_eqb a' b'
  | _, _ => false
  end.

Definition lg_fuel : nat := 8.

(* the per-answer-list results of the TOP-LEVEL grader (perform_check, before get_best_result and zeroing) *)
Definition lg_performs (item : item_oracle) (solve : list (list Q) -> option (list (nat * nat)))
           (g : gtree) (a : atree) (xs : list Z) : option (list (list entry)) :=
  match g, a with
  | TList _ c subs, AAlts alts =>
      all_some (map (fun al => perform_check Z atree 0%Z (sub_closure (run item solve lg_fuel) subs) solve c al xs) alts)
  | _, _ => None
  end.

(* exact stream: every entry equal, the intermediate per-list results equal.
   case = (grader tree, answer tree, inputs, recorded item calls, observed per-list results, observed output) *)
Definition lg_case := (gtree * atree * list Z * list rec_row * option (list (list entry)) * option (list entry))%type.

Definition oeq {T} (eqb : T -> T -> bool) (a b : option T) : bool :=
  match a, b with None, None => true | Some x, Some y => eqb x y | _, _ => false end.

Definition agree_exact (c : lg_case) : bool :=
  match c with
  | (g, a, xs, tbl, performs, out) =>
      oeq entries_eqb (lg_call (table_oracle tbl) solveZ lg_fuel g a xs) out
      && match performs with
         | None => true                      (* not observed (a perform_check raised) *)
         | Some p => oeq lists_eqb (lg_performs (table_oracle tbl) solveZ g a xs) (Some p)
         end
  end.

(* rounded stream: same shape, totals within eps, zeroing decision identical; entry-by-entry only for ordered
   graders is decided by the harness choosing agree_exact there *)
Definition eps_total : Q := 1 # 1000000000.
Definition agree_total (c : lg_case) : bool :=
  match c with
  | (g, a, xs, tbl, _, out) =>
      match lg_call (table_oracle tbl) solveZ lg_fuel g a xs, out with
      | None, None => true
      | Some es, Some es' =>
          Nat.eqb (length es) (length es')
          && Qle_bool (Qabs (total es - total es')) eps_total
      | _, _ => false
      end
  end.

(* ---------- compact constructors for the case files (argument scopes follow the argument types) ---------- *)
Definition eT (n : Z) (d : positive) (m : list Z) : entry := mkEntry OkTrue (Qmake n d) m.
Definition eF (n : Z) (d : positive) (m : list Z) : entry := mkEntry OkFalse (Qmake n d) m.
Definition eP (n : Z) (d : positive) (m : list Z) : entry := mkEntry OkPartial (Qmake n d) m.
Definition o1 (z : Z) : ginput Z := GOne z.
Definition om (l : list Z) : ginput Z := GMany l.
Definition sb (g : nat) (x : ginput Z) : nat * ginput Z := (g, x).
Definition rw (g a : nat) (x : ginput Z) (s : option (list (nat * ginput Z))) (o : option entry) : rec_row :=
  (g, a, x, s, o).
Definition cfg (ordered partial sublist : bool) (nsubs : nat) (grouping : list nat) : lgcfg :=
  mkLgCfg ordered partial sublist nsubs grouping.
Definition mkcase (g : gtree) (a : atree) (xs : list Z) (tbl : list rec_row)
           (performs : option (list (list entry))) (out : option (list entry)) : lg_case :=
  (g, a, xs, tbl, performs, out).
