(* Model/SingleList.v -- executable model of mitxgraders/listgrader.py, class SingleListGrader, together
   with the module-level helpers it uses:
     get_padded_lists, padded_check, find_optimal_order, consolidate_grades, consolidate_single_return,
     SingleListGrader.check_response / process_grade_list / infer_from_expect / post_schema_ans_val,
   and of the two layers of baseclasses.py the call goes through: ItemGrader.check (best alternative,
   wrong_msg) and AbstractGrader.__call__ (key filter, <br/> formatting).

   Oracles are function arguments, never axioms:
     cr    : the subgrader's `check(answer, item)` (a result or an exception) -- item credits are arbitrary;
     solve : the assignment solver called by find_optimal_order on the cost matrix `1 - grade`.
   The executable instance of `solve` is Model.Munkres.computeZ on the integer-scaled costs (bottom of this file).
   No proofs here. *)
From Coq Require Import ZArith QArith List Bool Arith.
From Verif.Lib Require Import QRound.
From Verif.Model Require Import Result Munkres.
Import ListNotations.
Open Scope Q_scope.

(* ------------------------------------------------------------------------------------------------
   strings: Python's  s.split(d)  for a non-empty delimiter, '\n'.join, str.strip() == ''
   ------------------------------------------------------------------------------------------------ *)
Fixpoint prefixb (p s : str) : bool :=
  match p, s with
  | [], _ => true
  | x :: p', y :: s' => Z.eqb x y && prefixb p' s'
  | _ :: _, [] => false
  end.

(* leftmost, non-overlapping occurrences; `cur` is the current item, reversed.
   fuel = length s suffices (every step consumes at least one character when d is non-empty) *)
Fixpoint split_fuel (fuel : nat) (d s cur : str) : list str :=
  match fuel with
  | O => [rev cur ++ s]
  | S f =>
      match s with
      | [] => [rev cur]
      | c :: s' =>
          if prefixb d s then rev cur :: split_fuel f d (skipn (length d) s) []
          else split_fuel f d s' (c :: cur)
      end
  end.

(* an empty delimiter is a ValueError in Python; the model returns the string unsplit (never exercised) *)
Definition split (d s : str) : list str :=
  match d with [] => [s] | _ => split_fuel (length s) d s [] end.

Fixpoint join (d : str) (l : list str) : str :=
  match l with
  | [] => []
  | [x] => x
  | x :: r => x ++ d ++ join d r
  end.

(* the characters str.strip() removes (Py_UNICODE_ISSPACE); checked exhaustively against Python by the harness *)
Definition is_space (c : Z) : bool :=
  ((9 <=? c) && (c <=? 13) || (28 <=? c) && (c <=? 32) || (c =? 133) || (c =? 160) || (c =? 5760)
   || (8192 <=? c) && (c <=? 8202) || (c =? 8232) || (c =? 8233) || (c =? 8239) || (c =? 8287) || (c =? 12288))%Z.

Definition is_blank (s : str) : bool := forallb is_space s.       (* item.strip() == '' *)

Definition is_empty (s : str) : bool := match s with [] => true | _ => false end.

Definition nl : str := [10%Z].

(* ------------------------------------------------------------------------------------------------
   results and errors
   ------------------------------------------------------------------------------------------------ *)
(* what one `check` returns to a list grader: grade_decimal, msg, and the 'all_awarded' key that nested
   SingleListGraders consult ('ok' is always recomputed from the grade) *)
Record sres := mkSres { sr_grade : Q; sr_msg : str; sr_all : bool }.

Inductive err :=
| ErrLength (expected got : nat)     (* MissingInput: 'List length error: Expected {} terms in the list, but received {}. ...' *)
| ErrMissing (positions : list nat)  (* MissingInput: 'List error: Empty entr(y|ies) detected in position(s) ...' (1-based) *)
| ErrSub (tag : Z)                   (* whatever the subgrader's check raised *)
| ErrNoAnswers                       (* ConfigError: 'Expected at least one answer in answers' *)
| ErrNoResults                       (* max() of an empty list: every expect tuple empty *)
| ErrSolver                          (* the assignment solver did not return a result (never observed) *)
| ErrConfig.                         (* ConfigError while turning a string into answers (blank entry with missing_error) *)

Definition res (T : Type) : Type := (T + err)%type.

(* evaluate left to right; the first exception aborts (Python list comprehension) *)
Fixpoint mapM {X Y : Type} (f : X -> res Y) (l : list X) : res (list Y) :=
  match l with
  | [] => inl []
  | x :: r =>
      match f x with
      | inr e => inr e
      | inl y => match mapM f r with inr e => inr e | inl ys => inl (y :: ys) end
      end
  end.

Record cfg := mkCfg {
  c_delim : str;            (* config['delimiter'] *)
  c_ordered : bool;
  c_length_error : bool;
  c_missing_error : bool;
  c_partial : bool;         (* config['partial_credit'] *)
  c_nested : bool;          (* isinstance(config['subgrader'], SingleListGrader) *)
  c_wrong_msg : str
}.

(* ------------------------------------------------------------------------------------------------
   module-level helpers of listgrader.py
   ------------------------------------------------------------------------------------------------ *)
Definition qsum (l : list Q) : Q := fold_right Qplus 0 l.

(* consolidate_grades(grade_decimals, n_expect) *)
Definition consolidate_grades (gs : list Q) (n_expect : nat) : Q :=
  let n_extra := (Z.of_nat (length gs) - Z.of_nat n_expect)%Z in
  let gs' :=
    if (0 <? n_extra)%Z then gs ++ repeat (-(1)) (Z.to_nat n_extra)
    else if (n_extra <? 0)%Z then gs ++ repeat 0 (Z.to_nat (Z.abs n_extra))
    else gs in
  Qmax 0 (qsum gs' / inject_Z (Z.of_nat n_expect)).

(* '\n'.join([message for message in messages if message != '']) *)
Definition join_msgs (ms : list str) : str := join nl (filter (fun m => negb (is_empty m)) ms).

(* consolidate_single_return(input_list, n_expect, partial_credit): (grade_decimal, msg) *)
Definition consolidate_single (rs : list sres) (n_expect : nat) (partial : bool) : Q * str :=
  let g := consolidate_grades (map sr_grade rs) n_expect in
  ((if negb partial && Qltb g 1 then 0 else g), join_msgs (map sr_msg rs)).

(* get_padded_lists: pad with _AutomaticFailure (None) to the longer length *)
Definition pad {T : Type} (n : nat) (l : list T) : list (option T) := map Some l ++ repeat None (n - length l).

Definition auto_fail : sres := mkSres 0 [] false.   (* {'ok': False, 'msg': '', 'grade_decimal': 0, 'all_awarded': False} *)

Section Grader.
  Variable A : Type.                                   (* one expected item, as handed to the subgrader *)
  Variable cr : A -> str -> res sres.                  (* subgrader.check(answer, item) *)
  Variable solve : list (list Q) -> option (list (nat * nat)).   (* Munkres().compute(cost_matrix) *)

  (* padded_check(check) *)
  Definition checker (a : option A) (i : option str) : res sres :=
    match a, i with
    | Some a', Some i' => cr a' i'
    | _, _ => inl auto_fail
    end.

  (* find_optimal_order(checker, pad_ans, pad_stud):
       result_matrix = [[check(a, i) for a in answers] for i in student_list]      rows = submitted items
       cost = 1 - grade;  indexes = Munkres().compute(cost);  [result_matrix[i][j] for i, j in indexes] *)
  Definition result_matrix (pa : list (option A)) (ps : list (option str)) : res (list (list sres)) :=
    mapM (fun i => mapM (fun a => checker a i) pa) ps.
  Definition cost_matrix (m : list (list sres)) : list (list Q) := map (map (fun r => 1 - sr_grade r)) m.
  Definition pick (m : list (list sres)) (p : nat * nat) : sres := nth (snd p) (nth (fst p) m []) auto_fail.
  Definition optimal_order (pa : list (option A)) (ps : list (option str)) : res (list sres) :=
    match result_matrix pa ps with
    | inr e => inr e
    | inl m => match solve (cost_matrix m) with
               | None => inr ErrSolver
               | Some idx => inl (map (pick m) idx)
               end
    end.

  (* one list of expected items with the credit and message of the answer it belongs to (`answercopy`) *)
  Record alt := mkAlt { al_items : list A; al_credit : Q; al_msg : str }.

  (* 1-based positions of the items with item.strip() == '' *)
  Fixpoint blank_positions_from (k : nat) (items : list str) : list nat :=
    match items with
    | [] => []
    | it :: r => if is_blank it then k :: blank_positions_from (S k) r else blank_positions_from (S k) r
    end.
  Definition blank_positions (items : list str) : list nat := blank_positions_from 1 items.

  (* the list of item results that check_response hands to process_grade_list *)
  Definition grade_list (c : cfg) (a : alt) (items : list str) : res (list sres) :=
    let n := Nat.max (length (al_items a)) (length items) in
    let pa := pad n (al_items a) in
    let ps := pad n items in
    if c_ordered c then mapM (fun p => checker (fst p) (snd p)) (combine pa ps)
    else optimal_order pa ps.

  Definition all_awarded (nested : bool) (rs : list sres) : bool :=
    if nested then forallb sr_all rs else forallb (fun r => Qltb 0 (sr_grade r)) rs.

  Definition add_msg (m msg : str) : str := if is_empty m then msg else m ++ nl ++ msg.

  (* process_grade_list(grade_list, num_answers, msg, grade_decimal) *)
  Definition process (c : cfg) (rs : list sres) (n_expect : nat) (msg : str) (credit : Q) : sres :=
    let gm := consolidate_single rs n_expect (c_partial c) in
    let aw := all_awarded (c_nested c) rs in
    mkSres (fst gm * credit)
           (if aw && negb (is_empty msg) then add_msg (snd gm) msg else snd gm)
           aw.

  (* check_response after the split *)
  Definition check_items (c : cfg) (a : alt) (items : list str) : res sres :=
    let ne := length (al_items a) in
    let ns := length items in
    if c_length_error c && negb (ne =? ns)%nat then inr (ErrLength ne ns)
    else
      let bad := blank_positions items in
      if c_missing_error c && negb (match bad with [] => true | _ => false end) then inr (ErrMissing bad)
      else
        match grade_list c a items with
        | inr e => inr e
        | inl rs => inl (process c rs ne (al_msg a) (al_credit a))
        end.

  Definition check_response (c : cfg) (a : alt) (s : str) : res sres :=
    check_items c a (split (c_delim c) s).

  (* ----------------------------------------------------------------------------------------------
     ItemGrader.check: every list of every answer, best grade, first longest message, wrong_msg
     ---------------------------------------------------------------------------------------------- *)
  (* one entry of config['answers']: {'expect': (list_1, list_2, ...), 'grade_decimal', 'msg'} *)
  Record answer := mkAnswer { an_lists : list (list A); an_credit : Q; an_msg : str }.

  Definition alts_of (a : answer) : list alt := map (fun l => mkAlt l (an_credit a) (an_msg a)) (an_lists a).
  Definition all_alts (answers : list answer) : list alt := flat_map alts_of answers.

  (* Python's max(): the current maximum is replaced only by a strictly greater item *)
  Fixpoint best_grade (cur : Q) (rs : list sres) : Q :=
    match rs with
    | [] => cur
    | r :: t => best_grade (if Qltb cur (sr_grade r) then sr_grade r else cur) t
    end.
  Fixpoint longest (cur : sres) (rs : list sres) : sres :=
    match rs with
    | [] => cur
    | r :: t => longest (if (length (sr_msg cur) <? length (sr_msg r))%nat then r else cur) t
    end.
  Definition select (rs : list sres) : option sres :=
    match rs with
    | [] => None
    | r0 :: t =>
        let best := best_grade (sr_grade r0) t in
        match filter (fun r => Qeq_bool (sr_grade r) best) rs with
        | [] => None
        | b0 :: bt => Some (longest b0 bt)
        end
    end.
  Definition with_wrong_msg (c : cfg) (r : sres) : sres :=
    if is_empty (sr_msg r) && Qeq_bool (sr_grade r) 0 then mkSres (sr_grade r) (c_wrong_msg c) (sr_all r) else r.

  Definition check (c : cfg) (answers : list answer) (s : str) : res sres :=
    match answers with
    | [] => inr ErrNoAnswers
    | _ =>
        match mapM (fun a => check_response c a s) (all_alts answers) with
        | inr e => inr e
        | inl rs => match select rs with
                    | None => inr ErrNoResults
                    | Some r => inl (with_wrong_msg c r)
                    end
        end
    end.

  (* the per-alternative results, in listing order (what the correspondence compares at trace level) *)
  Definition check_trace (c : cfg) (answers : list answer) (s : str) : list (res sres) :=
    map (fun a => check_response c a s) (all_alts answers).
End Grader.

Arguments mkAlt {A}. Arguments al_items {A}. Arguments al_credit {A}. Arguments al_msg {A}.
Arguments mkAnswer {A}. Arguments an_lists {A}. Arguments an_credit {A}. Arguments an_msg {A}.
Arguments checker {A}. Arguments result_matrix {A}. Arguments optimal_order {A}. Arguments grade_list {A}.
Arguments check_items {A}. Arguments check_response {A}. Arguments alts_of {A}. Arguments all_alts {A}.
Arguments check {A}. Arguments check_trace {A}.

(* ------------------------------------------------------------------------------------------------
   AbstractGrader.__call__ (debug off, no attempt-based credit): keep ok / grade_decimal / msg,
   format_messages replaces every newline by '<br/>\n'
   ------------------------------------------------------------------------------------------------ *)
Definition br : str := [60; 98; 114; 47; 62; 10]%Z.       (* "<br/>\n" *)
Definition format_msg (m : str) : str := flat_map (fun ch => if (ch =? 10)%Z then br else [ch]) m.
Definition to_entry (r : sres) : entry := mkEntry (grade_to_ok (sr_grade r)) (sr_grade r) (format_msg (sr_msg r)).

(* one level of nesting: the outer grader's subgrader is the inner SingleListGrader's check *)
Definition inner_answers (A : Type) : Type := list (answer A).
Definition nested_check {A} (cr : A -> str -> res sres) (solve : list (list Q) -> option (list (nat * nat)))
  (co ci : cfg) (answers : list (answer (inner_answers A))) (s : str) : res sres :=
  check (fun ia it => check cr solve ci ia it) solve co answers s.

(* ------------------------------------------------------------------------------------------------
   infer_from_expect + schema_answers + post_schema_ans_val on a string:
   'a, b'  ->  one answer, credit 1, no message, one list of leaf expect strings;  nested likewise.
   A blank entry is a ConfigError when missing_error is set on a level that sees it (demand_no_empty).
   ------------------------------------------------------------------------------------------------ *)
Definition infer_flat (c : cfg) (s : str) : res (list (answer str)) :=
  let items := split (c_delim c) s in
  if c_missing_error c && existsb is_blank items then inr ErrConfig
  else inl [mkAnswer [items] 1 []].

Definition infer_nested (co ci : cfg) (s : str) : res (list (answer (inner_answers str))) :=
  let parts := map (split (c_delim ci)) (split (c_delim co) s) in
  if (c_missing_error co || c_missing_error ci) && existsb (existsb is_blank) parts then inr ErrConfig
  else inl [mkAnswer [map (fun items => [mkAnswer [items] 1 []]) parts] 1 []].

(* ------------------------------------------------------------------------------------------------
   executable solver: the INTEGER instance of Model.Munkres (computeZ) on the cost matrix scaled by a common
   denominator D of its entries:  cost_ij = D * (1 - grade_ij)  as an integer.  In exact arithmetic the
   implementation's float matrix `1 - grade` is this matrix divided by D, and every decision of the solver
   (comparisons, tests against zero) is invariant under scaling by D > 0;
   the correspondence validates that on the implementation's own runs.
   ------------------------------------------------------------------------------------------------ *)
Definition common_den (m : list (list Q)) : Z :=
  fold_right (fun row acc => fold_right (fun q a => Z.lcm (Zpos (Qden q)) a) acc row) 1%Z m.
Definition scale_q (D : Z) (q : Q) : Z := (Qnum q * (D / Zpos (Qden q)))%Z.
Definition scale_matrix (m : list (list Q)) : list (list Z) :=
  let D := common_den m in map (map (scale_q D)) m.
Definition solveZ (m : list (list Q)) : option (list (nat * nat)) := computeZ (scale_matrix m).
