(* Schema.v -- executable model of configuration validation (C20):
     * a small Python value universe (pyval) with Python's == on it,
     * a deep embedding of the fragment of the vendored voluptuous that mitxgraders uses
       (Schema / Required / Optional / Extra / Any / All / Range / Length / NotIn / Coerce, type and literal
       leaves, list / tuple / dict schemas) together with the validatorfuncs helpers that are plain callables,
     * the interpreter  validate : schema -> pyval -> outcome pyval.
   Exceptions are classified: EInvalid is voluptuous' Invalid family (caught by Any, by sequence and mapping
   validation, turned into voluptuous.Error by validate_config); everything else ESCAPES those handlers.
   Range and Length turn the TypeError of an unorderable / unsized value into Invalid (as the vendored voluptuous
   does since fix 9e7ee91).
   No proofs here (the model must still run when a proof breaks). *)
From Coq Require Import ZArith QArith List Bool String Ascii.
From Verif.Lib Require Import QRound.
From Verif.Model Require Import Result.
Import ListNotations.
Open Scope string_scope.
Open Scope list_scope.
Open Scope Z_scope.

(* a Python str literal as its list of code points *)
Definition zs (s : string) : str := map (fun a => Z.of_N (N_of_ascii a)) (list_ascii_of_string s).

(* ------------------------------------------------------------------------------------------------ *)
(* values                                                                                            *)
(* ------------------------------------------------------------------------------------------------ *)
Inductive pyval :=
| PNone
| PBool (b : bool)
| PInt (z : Z)
| PFloat (q : Q)                       (* a finite float, as the exact rational it denotes *)
| PInf (neg : bool)                    (* float('inf') / float('-inf') *)
| PStr (s : str)
| PList (l : list pyval)
| PTuple (l : list pyval)
| PDict (l : list (pyval * pyval))     (* insertion-ordered; keys pairwise different *)
| PObj (tags : list Z) (body : pyval). (* any other object: the classes it is an instance of (+ pseudo tags
                                          callable / arity n / Number), and its config (ObjectWithSchema
                                          instances, which compare by class and config) or an identity number *)

Definition tag_callable : Z := 1.
Definition tag_Number : Z := 2.
Definition tag_Real : Z := 3.      (* numbers.Real instances that are not bool/int/float (numpy scalars ...) *)
Definition tag_arity (n : Z) : Z := 100 + n.

Inductive num := NQ (q : Q) | NInf (neg : bool).

Definition num_of (v : pyval) : option num :=
  match v with
  | PBool b => Some (NQ (if b then 1%Q else 0%Q))
  | PInt z => Some (NQ (inject_Z z))
  | PFloat q => Some (NQ q)
  | PInf n => Some (NInf n)
  | _ => None
  end.

Definition num_leb (a b : num) : bool :=
  match a, b with
  | NQ x, NQ y => Qle_bool x y
  | NInf true, _ => true
  | NInf false, NInf false => true
  | NInf false, _ => false
  | NQ _, NInf neg => negb neg
  end.

Definition num_eqb (a b : num) : bool :=
  match a, b with
  | NQ x, NQ y => Qeq_bool x y
  | NInf m, NInf n => Bool.eqb m n
  | _, _ => false
  end.

Fixpoint zlist_eqb (a b : list Z) : bool :=
  match a, b with
  | [], [] => true
  | x :: a', y :: b' => Z.eqb x y && zlist_eqb a' b'
  | _, _ => false
  end.

(* Python's == on the universe: numbers compare across bool/int/float; list <> tuple; dicts ignore order *)
Fixpoint py_eqb (a b : pyval) {struct a} : bool :=
  match a, b with
  | PNone, PNone => true
  | PStr s, PStr t => str_eqb s t
  | PList l, PList m | PTuple l, PTuple m =>
      (fix go (l m : list pyval) {struct l} : bool :=
         match l, m with
         | [], [] => true
         | x :: l', y :: m' => py_eqb x y && go l' m'
         | _, _ => false
         end) l m
  | PDict l, PDict m =>
      Nat.eqb (List.length l) (List.length m) &&
      (fix all (l : list (pyval * pyval)) : bool :=
         match l with
         | [] => true
         | (k, v) :: r =>
             (fix find (m : list (pyval * pyval)) : bool :=
                match m with
                | [] => false
                | (k', v') :: m' => (py_eqb k k' && py_eqb v v') || find m'
                end) m && all r
         end) l
  | PObj t x, PObj u y => zlist_eqb t u && py_eqb x y
  | (PBool _ | PInt _ | PFloat _ | PInf _), (PBool _ | PInt _ | PFloat _ | PInf _) =>
      match num_of a, num_of b with
      | Some x, Some y => num_eqb x y
      | _, _ => false
      end
  | _, _ => false
  end.

Definition key_is (k : pyval) (s : str) : bool :=
  match k with PStr t => str_eqb t s | _ => false end.

Definition has_key (s : str) (items : list (pyval * pyval)) : bool :=
  existsb (fun kv => key_is (fst kv) s) items.

Fixpoint dict_get (s : str) (items : list (pyval * pyval)) : option pyval :=
  match items with
  | [] => None
  | (k, v) :: r => if key_is k s then Some v else dict_get s r
  end.

Fixpoint dict_set (s : str) (x : pyval) (items : list (pyval * pyval)) : list (pyval * pyval) :=
  match items with
  | [] => [(PStr s, x)]
  | (k, v) :: r => if key_is k s then (k, x) :: r else (k, v) :: dict_set s x r
  end.

Fixpoint dict_del (s : str) (items : list (pyval * pyval)) : list (pyval * pyval) :=
  match items with
  | [] => []
  | (k, v) :: r => if key_is k s then r else (k, v) :: dict_del s r
  end.

Definition keys_of (items : list (pyval * pyval)) : list pyval := map fst items.

(* ------------------------------------------------------------------------------------------------ *)
(* outcomes                                                                                          *)
(* ------------------------------------------------------------------------------------------------ *)
Inductive exc :=
| EInvalid      (* voluptuous.Invalid / MultipleInvalid: caught by Any, sequences, mappings, validate_config *)
| EVError       (* voluptuous.Error that is not Invalid (a nested ObjectWithSchema refused its config) *)
| EConfig       (* mitxgraders.exceptions.ConfigError *)
| EType         (* TypeError / AttributeError ...: not a configuration or validation error *)
| EOther.

Inductive outcome (A : Type) := Ret (a : A) | Raise (e : exc).
Arguments Ret {A} a.
Arguments Raise {A} e.

Definition exc_eqb (a b : exc) : bool :=
  match a, b with
  | EInvalid, EInvalid | EVError, EVError | EConfig, EConfig | EType, EType | EOther, EOther => true
  | _, _ => false
  end.

(* the error classes the property allows for a refused configuration *)
Definition is_config_or_validation_error (e : exc) : bool :=
  match e with EInvalid | EVError | EConfig => true | _ => false end.

(* ------------------------------------------------------------------------------------------------ *)
(* schemas                                                                                           *)
(* ------------------------------------------------------------------------------------------------ *)
Inductive pytype := TBool | TInt | TFloat | TStr | TNumber | TReal | TList | TTuple | TDict | TObject | TClass (c : Z).
Inductive bnd := BNone | BQ (q : Q) | BPosInf.
Inductive kind := KList | KTuple.
Inductive post := PostId | PostSwap.    (* RealInterval/IntegerRange.__init__ put start <= stop *)

Inductive schema :=
| SType (t : pytype)                  (* a class: isinstance *)
| SLit (v : pyval)                    (* a value: data == v, the DATA is returned *)
| SRange (lo hi : bnd)                (* Range(min, max), both ends included *)
| SLength (lo hi : option Z)          (* Length(min, max) *)
| SNotIn (l : list pyval)
| SAny (alts : list schema)
| SAll (steps : list schema)
| SList (alts : list schema)          (* [a, b, ...] *)
| STuple (alts : list schema)         (* (a, b, ...) *)
| SDict (entries : list (str * bool * option pyval * schema)) (extra : option schema)
                                      (* key, Required?, default, value schema;  extra = the `Extra: s` entry *)
| SWrap (k : kind)                    (* if not isinstance(x, list|tuple): x = [x] | (x,) *)
| SWrapAlways                         (* lambda x: (x,) *)
| SCoerceTuple                        (* Coerce(tuple) *)
| SStartStop                          (* number_range_alternate: [a, b] -> {'start': a, 'stop': b} *)
| SAllUnique
| SKeysStr                            (* has_keys_of_type(str) *)
| SCallable                           (* is_callable *)
| SCallableArgs (n : Z)               (* is_callable_with_args(n) *)
| SOracle (id : Z)                    (* a callable the model does not interpret (PercentageString: float parsing) *)
| SSingleAnswer (ans : schema)        (* ItemGrader.validate_single_answer around schema_answer *)
| SFormulaExpect (dflt : pyval) (sch : schema)   (* FormulaGrader.validate_expect around schema_expect *)
| SCoerceObj (tags : list Z) (inner : schema) (p : post).  (* Coerce(SomeObjectWithSchema) *)

Definition dentry : Type := (str * bool * option pyval * schema)%type.
Definition de_key (e : dentry) : str := fst (fst (fst e)).
Definition de_required (e : dentry) : bool := snd (fst (fst e)).
Definition de_default (e : dentry) : option pyval := snd (fst e).
Definition de_schema (e : dentry) : schema := snd e.

Definition has_type (t : pytype) (v : pyval) : bool :=
  match t, v with
  | TObject, _ => true
  | TBool, PBool _ => true
  | TInt, (PBool _ | PInt _) => true
  | TFloat, (PFloat _ | PInf _) => true
  | TNumber, (PBool _ | PInt _ | PFloat _ | PInf _) => true
  | TNumber, PObj tags _ => existsb (Z.eqb tag_Number) tags
  | TReal, (PBool _ | PInt _ | PFloat _ | PInf _) => true
  | TReal, PObj tags _ => existsb (Z.eqb tag_Real) tags
  | TStr, PStr _ => true
  | TList, PList _ => true
  | TTuple, PTuple _ => true
  | TDict, PDict _ => true
  | TClass c, PObj tags _ => existsb (Z.eqb c) tags
  | _, _ => false
  end.

Definition has_tag (t : Z) (v : pyval) : bool :=
  match v with PObj tags _ => existsb (Z.eqb t) tags | _ => false end.

Definition bnd_lo_ok (b : bnd) (n : num) : bool :=
  match b with BNone => true | BQ q => num_leb (NQ q) n | BPosInf => num_leb (NInf false) n end.
Definition bnd_hi_ok (b : bnd) (n : num) : bool :=
  match b with BNone => true | BQ q => num_leb n (NQ q) | BPosInf => num_leb n (NInf false) end.

Definition py_len (v : pyval) : option Z :=
  match v with
  | PStr s => Some (Z.of_nat (List.length s))
  | PList l | PTuple l => Some (Z.of_nat (List.length l))
  | PDict l => Some (Z.of_nat (List.length l))
  | _ => None
  end.

Definition opt_leb (a : option Z) (n : Z) : bool := match a with None => true | Some x => x <=? n end.
Definition opt_geb (a : option Z) (n : Z) : bool := match a with None => true | Some x => n <=? x end.

(* all_unique: an item seen before (Python ==, as the defaultdict keys compare) is a duplicate *)
Fixpoint has_dup (l : list pyval) : bool :=
  match l with
  | [] => false
  | x :: r => existsb (py_eqb x) r || has_dup r
  end.

(* {0: False, 1: True}.get(grade, 'partial') *)
Definition grade_ok_value (g : pyval) : pyval :=
  if py_eqb g (PInt 0) then PBool false else if py_eqb g (PInt 1) then PBool true else PStr (zs "partial").

Definition fix_ok (r : pyval) : pyval :=
  match r with
  | PDict items =>
      match dict_get (zs "ok") items, dict_get (zs "grade_decimal") items with
      | Some ok, Some g =>
          if py_eqb ok (PStr (zs "computed")) || negb (py_eqb g (PInt 1))
          then PDict (dict_set (zs "ok") (grade_ok_value g) items)
          else r
      | _, _ => r
      end
  | _ => r
  end.

Definition apply_post (p : post) (c : pyval) : outcome pyval :=
  match p, c with
  | PostId, _ => Ret c
  | PostSwap, PDict items =>
      match dict_get (zs "start") items, dict_get (zs "stop") items with
      | Some a, Some b =>
          match num_of a, num_of b with
          | Some x, Some y =>
              if num_leb x y then Ret c
              else Ret (PDict (dict_set (zs "stop") a (dict_set (zs "start") b items)))
          | _, _ => Raise EType        (* complex start/stop: '>' is not defined *)
          end
      | _, _ => Ret c
      end
  | PostSwap, _ => Ret c
  end.

(* sequence validation: every item through f; Invalid errors are collected, anything else escapes at once *)
Fixpoint seq_loop (f : pyval -> outcome pyval) (xs : list pyval) : outcome (list pyval) :=
  match xs with
  | [] => Ret []
  | x :: r =>
      match f x with
      | Ret y => match seq_loop f r with Ret ys => Ret (y :: ys) | Raise e => Raise e end
      | Raise EInvalid => match seq_loop f r with Ret _ => Raise EInvalid | Raise e => Raise e end
      | Raise e => Raise e
      end
  end.

(* mapping validation: f k x = None when no schema key matches k (and there is no Extra) *)
Fixpoint dict_loop (f : pyval -> pyval -> option (outcome pyval)) (items : list (pyval * pyval))
  : outcome (list (pyval * pyval)) :=
  match items with
  | [] => Ret []
  | (k, x) :: r =>
      match f k x with
      | Some (Ret y) => match dict_loop f r with Ret o => Ret ((k, y) :: o) | Raise e => Raise e end
      | Some (Raise EInvalid) | None =>
          match dict_loop f r with Ret _ => Raise EInvalid | Raise e => Raise e end
      | Some (Raise e) => Raise e
      end
  end.

(* defaults of the declared keys that the data does not supply, in schema order *)
Fixpoint defaults_for (es : list dentry) (items : list (pyval * pyval)) : list (pyval * pyval) :=
  match es with
  | [] => []
  | e :: r =>
      match de_default e with
      | Some d => if has_key (de_key e) items then defaults_for r items
                  else (PStr (de_key e), d) :: defaults_for r items
      | None => defaults_for r items
      end
  end.

(* Required keys without default that the data does not supply *)
Definition required_present (es : list dentry) (items : list (pyval * pyval)) : bool :=
  forallb (fun e => negb (de_required e) || match de_default e with Some _ => true | None => false end
                    || has_key (de_key e) items) es.

Definition s_ok : pyval := PStr (zs "ok").
Definition s_expect : pyval := PStr (zs "expect").

Section Validate.
  Variable orc : Z -> pyval -> outcome pyval.

  Fixpoint validate (s : schema) (v : pyval) {struct s} : outcome pyval :=
    match s with
    | SType t => if has_type t v then Ret v else Raise EInvalid
    | SLit l => if py_eqb v l then Ret v else Raise EInvalid
    | SRange lo hi =>
        match num_of v with
        | None => Raise EInvalid       (* 'a' >= 0 : TypeError, which Range reports as RangeInvalid (fix 9e7ee91) *)
        | Some n => if bnd_lo_ok lo n && bnd_hi_ok hi n then Ret v else Raise EInvalid
        end
    | SLength lo hi =>
        match py_len v with
        | None => Raise EInvalid       (* len(5) : TypeError, which Length reports as RangeInvalid (fix 9e7ee91) *)
        | Some n => if opt_leb lo n && opt_geb hi n then Ret v else Raise EInvalid
        end
    | SNotIn l => if existsb (py_eqb v) l then Raise EInvalid else Ret v
    | SAny alts =>
        (fix go (l : list schema) : outcome pyval :=
           match l with
           | [] => Raise EInvalid
           | a :: r => match validate a v with Raise EInvalid => go r | o => o end
           end) alts
    | SAll steps =>
        (fix go (l : list schema) (x : pyval) : outcome pyval :=
           match l with
           | [] => Ret x
           | a :: r => match validate a x with Ret y => go r y | Raise e => Raise e end
           end) steps v
    | SList alts =>
        match v with
        | PList xs =>
            match alts with
            | [] => match xs with [] => Ret v | _ => Raise EInvalid end
            | _ =>
              match seq_loop (fun x =>
                      (fix go (l : list schema) : outcome pyval :=
                         match l with
                         | [] => Raise EInvalid
                         | a :: r => match validate a x with Raise EInvalid => go r | o => o end
                         end) alts) xs with
              | Ret ys => Ret (PList ys)
              | Raise e => Raise e
              end
            end
        | _ => Raise EInvalid
        end
    | STuple alts =>
        match v with
        | PTuple xs =>
            match alts with
            | [] => match xs with [] => Ret v | _ => Raise EInvalid end
            | _ =>
              match seq_loop (fun x =>
                      (fix go (l : list schema) : outcome pyval :=
                         match l with
                         | [] => Raise EInvalid
                         | a :: r => match validate a x with Raise EInvalid => go r | o => o end
                         end) alts) xs with
              | Ret ys => Ret (PTuple ys)
              | Raise e => Raise e
              end
            end
        | _ => Raise EInvalid
        end
    | SDict es extra =>
        match v with
        | PDict items =>
            match dict_loop (fun k x =>
                    (fix look (l : list dentry) : option (outcome pyval) :=
                       match l with
                       | [] => match extra with Some e => Some (validate e x) | None => None end
                       | (k', _, _, s') :: r => if key_is k k' then Some (validate s' x) else look r
                       end) es) (items ++ defaults_for es items) with
            | Ret out => if required_present es items then Ret (PDict out) else Raise EInvalid
            | Raise e => Raise e
            end
        | _ => Raise EInvalid
        end
    | SWrap KList => match v with PList _ => Ret v | _ => Ret (PList [v]) end
    | SWrap KTuple => match v with PTuple _ => Ret v | _ => Ret (PTuple [v]) end
    | SWrapAlways => Ret (PTuple [v])
    | SCoerceTuple =>
        match v with
        | PList l | PTuple l => Ret (PTuple l)
        | PStr s => Ret (PTuple (map (fun c => PStr [c]) s))
        | PDict items => Ret (PTuple (keys_of items))
        | _ => Raise EInvalid
        end
    | SStartStop =>
        match v with
        | PList [a; b] => Ret (PDict [(PStr (zs "start"), a); (PStr (zs "stop"), b)])
        | PList _ => Raise EInvalid     (* not reachable: the form is only used after Length(2, 2) *)
        | _ => Raise EType              (* x[0] on something that cannot be indexed *)
        end
    | SAllUnique =>
        match v with
        | PList l | PTuple l => if has_dup l then Raise EInvalid else Ret v
        | PStr cs => if has_dup (map (fun c => PStr [c]) cs) then Raise EInvalid else Ret v
        | PDict _ => Ret v              (* iterating a dict yields its (distinct) keys *)
        | _ => Raise EType              (* not iterable *)
        end
    | SKeysStr =>
        match v with
        | PDict items => if forallb (fun kv => match fst kv with PStr _ => true | _ => false end) items
                         then Ret v else Raise EInvalid
        | _ => Raise EInvalid
        end
    | SCallable => if has_tag tag_callable v then Ret v else Raise EInvalid
    | SCallableArgs n =>
        if has_tag tag_callable v && has_tag (tag_arity n) v then Ret v else Raise EInvalid
    | SOracle id => orc id v
    | SSingleAnswer ans =>
        match validate ans v with
        | Ret r => Ret (fix_ok r)
        | Raise EInvalid =>
            match validate ans (PDict [(s_expect, v); (s_ok, PBool true)]) with
            | Ret r => Ret (fix_ok r)
            | Raise e => Raise e
            end
        | Raise e => Raise e
        end
    | SFormulaExpect dflt sch =>
        match v with
        | PStr _ => validate sch (PDict [(PStr (zs "comparer"), dflt); (PStr (zs "comparer_params"), PList [v])])
        | _ => validate sch v
        end
    | SCoerceObj tags inner p =>
        match validate inner v with
        | Ret c => match apply_post p c with
                   | Ret c' => Ret (PObj tags c')
                   | Raise EType => Raise EInvalid        (* Coerce catches TypeError *)
                   | Raise e => Raise e
                   end
        | Raise EInvalid => Raise EVError    (* the nested constructor raised voluptuous.Error: escapes Any *)
        | Raise EType => Raise EInvalid      (* Coerce catches TypeError and ValueError *)
        | Raise e => Raise e
        end
    end.

  (* ObjectWithSchema.validate_config = validate_with_humanized_errors: Invalid -> voluptuous.Error *)
  Definition validate_config (s : schema) (v : pyval) : outcome pyval :=
    match validate s v with
    | Raise EInvalid => Raise EVError
    | o => o
    end.

End Validate.

(* Schema.extend: an entry with the key of an existing entry replaces it (the new entry goes last) *)
Definition entry_key_in (k : str) (es : list dentry) : bool := existsb (fun e => str_eqb (de_key e) k) es.

Definition extend_entries (base ext : list dentry) : list dentry :=
  filter (fun e => negb (entry_key_in (de_key e) ext)) base ++ ext.

Definition sextend (base : schema) (ext : list dentry) : schema :=
  match base with
  | SDict es extra => SDict (extend_entries es ext) extra
  | _ => base
  end.

Definition sextend_extra (base : schema) (ext : list dentry) (extra : option schema) : schema :=
  match base with
  | SDict es _ => SDict (extend_entries es ext) extra
  | _ => base
  end.

(* ------------------------------------------------------------------------------------------------ *)
(* ObjectWithSchema.__init__: kwargs-or-dict selection, registered defaults                          *)
(* ------------------------------------------------------------------------------------------------ *)
(* dict.update *)
Fixpoint dict_update (base upd : list (pyval * pyval)) : list (pyval * pyval) :=
  match upd with
  | [] => base
  | (PStr k, v) :: r => dict_update (dict_set k v base) r
  | kv :: r => dict_update (base ++ [kv]) r
  end.

Definition select_config (config : option pyval) (kwargs : list (pyval * pyval)) : pyval :=
  match config with None => PDict kwargs | Some c => c end.

Definition apply_registered (registered : list (pyval * pyval)) (use_config : pyval) : pyval :=
  match use_config with
  | PDict items => PDict (dict_update registered items)
  | _ => use_config
  end.

(* apply_registered_defaults walks the class chain; chain = the registered dictionaries, most basic class first *)
Definition merge_registered (chain : list (list (pyval * pyval))) : list (pyval * pyval) :=
  fold_left dict_update chain [].

Definition use_config (chain : list (list (pyval * pyval))) (config : option pyval) (kwargs : list (pyval * pyval))
  : pyval := apply_registered (merge_registered chain) (select_config config kwargs).

Definition init_config (orc : Z -> pyval -> outcome pyval) (s : schema) (chain : list (list (pyval * pyval)))
           (config : option pyval) (kwargs : list (pyval * pyval)) : outcome pyval :=
  validate_config orc s (use_config chain config kwargs).

(* ------------------------------------------------------------------------------------------------ *)
(* vocabulary used by the regenerated Gen/Schemas.v                                                  *)
(* ------------------------------------------------------------------------------------------------ *)
Definition pytype_eqb (a b : pytype) : bool :=
  match a, b with
  | TBool, TBool | TInt, TInt | TFloat, TFloat | TStr, TStr | TNumber, TNumber | TReal, TReal | TList, TList
  | TTuple, TTuple | TDict, TDict | TObject, TObject => true
  | TClass x, TClass y => Z.eqb x y
  | _, _ => false
  end.

Definition no_orc : Z -> pyval -> outcome pyval := fun _ _ => Raise EOther.

(* SomeSamplingSet() used as a default value: the object its constructor builds from the empty config *)
Definition default_obj (tags : list Z) (s : schema) (p : post) : pyval :=
  match validate no_orc s (PDict []) with
  | Ret c => match apply_post p c with Ret c' => PObj tags c' | Raise _ => PNone end
  | Raise _ => PNone
  end.
