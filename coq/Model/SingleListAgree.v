(* Model/SingleListAgree.v -- executable agreement predicates for the C07 correspondence
   (harness/props/c07.py).  Every case embeds what the implementation did on the very same input: the
   subgrader's recorded results (the oracle table), the per-alternative check_response results, the
   outcome.  The model (Model/SingleList.v, solver = Munkres.computeZ on integer-scaled costs) is evaluated by vm_compute and compared
   here, inside Coq.  No proofs here. *)
From Coq Require Import ZArith QArith Qabs List Bool Arith.
From Verif.Lib Require Import QRound.
From Verif.Model Require Import Result SingleList.
Import ListNotations.
Open Scope Q_scope.

Definition eps : Q := 1 # 1000000000000.

Fixpoint list_eqb {T} (f : T -> T -> bool) (a b : list T) : bool :=
  match a, b with
  | [], [] => true
  | x :: a', y :: b' => f x y && list_eqb f a' b'
  | _, _ => false
  end.

Definition err_eqb (a b : err) : bool :=
  match a, b with
  | ErrLength x y, ErrLength x' y' => (x =? x')%nat && (y =? y')%nat
  | ErrMissing l, ErrMissing l' => list_eqb Nat.eqb l l'
  | ErrSub t, ErrSub t' => (t =? t')%Z
  | ErrNoAnswers, ErrNoAnswers | ErrNoResults, ErrNoResults | ErrSolver, ErrSolver | ErrConfig, ErrConfig => true
  | _, _ => false
  end.

(* ---- oracle tables: what subgrader.check returned (or raised) on (answer key, item) ---- *)
Definition tblS := list ((str * str) * res sres).
Fixpoint lookupS (t : tblS) (k s : str) : res sres :=
  match t with
  | [] => inr (ErrSub (-1))                   (* the implementation never made this call: disagreement *)
  | ((k', s'), v) :: r => if str_eqb k k' && str_eqb s s' then v else lookupS r k s
  end.
Definition tblZ := list ((Z * str) * res sres).
Fixpoint lookupZ (t : tblZ) (k : Z) (s : str) : res sres :=
  match t with
  | [] => inr (ErrSub (-1))
  | ((k', s'), v) :: r => if (k =? k')%Z && str_eqb s s' then v else lookupZ r k s
  end.

(* ---- comparison of one result ---- *)
(* exact = every number that reached the solver and the sums is a small dyadic rational, so the float run and
   the exact run make the same decisions: then messages and all_awarded are compared too.  Otherwise only
   the grade (within eps) and the errors are. *)
Definition sres_agree (exact : bool) (m o : sres) : bool :=
  Qclose eps (sr_grade m) (sr_grade o)
  && (negb exact || (str_eqb (sr_msg m) (sr_msg o) && Bool.eqb (sr_all m) (sr_all o))).

Definition res_agree (exact : bool) (m o : res sres) : bool :=
  match m, o with
  | inl a, inl b => sres_agree exact a b
  | inr e, inr e' => err_eqb e e'
  | _, _ => false
  end.

(* the implementation stops at the first exception: the observed trace is the model's trace cut there *)
Fixpoint trace_agree (exact : bool) (m o : list (res sres)) : bool :=
  match m, o with
  | [], [] => true
  | (inr e) :: _, [inr e'] => err_eqb e e'
  | (inl a) :: m', (inl b) :: o' => sres_agree exact a b && trace_agree exact m' o'
  | _, _ => false
  end.

Definition sres_eqb (a b : sres) : bool :=
  Qeq_bool (sr_grade a) (sr_grade b) && str_eqb (sr_msg a) (sr_msg b) && Bool.eqb (sr_all a) (sr_all b).

Fixpoint all_inl (l : list (res sres)) : option (list sres) :=
  match l with
  | [] => Some []
  | inl r :: t => match all_inl t with Some rs => Some (r :: rs) | None => None end
  | inr _ :: _ => None
  end.

(* the selection among alternatives, replayed on the OBSERVED per-alternative results (floats as exact
   rationals, so ties are the implementation's ties) *)
Definition selection_agree (c : cfg) (trace : list (res sres)) (o : res sres) : bool :=
  match all_inl trace, o with
  | Some rs, inl r => match select rs with Some r' => sres_eqb (with_wrong_msg c r') r | None => false end
  | Some rs, inr ErrNoResults => match select rs with None => true | Some _ => false end
  | None, inr e => match last trace (inr ErrSolver) with inr e' => err_eqb e e' | inl _ => false end
  | _, _ => false
  end.

(* partial_credit = False decides on `grade < 1`: when rounding puts the float on the other side of 1 the case
   is a boundary case (only possible outside the exact stream) *)
Definition near (a b : Q) : bool := Qclose (1 # 1000000000) a b && negb (Qeq_bool a b).

Section Boundary.
  Variable A : Type.
  Variable cr : A -> str -> res sres.
  Definition alt_boundary (c : cfg) (a : alt A) (s : str) : bool :=
    let items := split (c_delim c) s in
    match grade_list cr solveZ c a items with
    | inl rs => let g := consolidate_grades (map sr_grade rs) (length (al_items a)) in
                (negb (c_partial c) && near g 1) || near (g * al_credit a) 0 || near (g * al_credit a) 1
    | inr _ => false
    end.
End Boundary.
Arguments alt_boundary {A}.

(* ---- frames: one invocation of SingleListGrader.check (top level or as a subgrader) ---- *)
Record frame := mkFrame {
  f_cfg : cfg;
  f_answers : list (answer Z);
  f_table : tblZ;
  f_exact : bool;
  f_input : str;
  f_trace : list (res sres);      (* observed check_response results, in call order, up to the first exception *)
  f_out : res sres                (* observed outcome of check *)
}.

Definition frame_agree (f : frame) : bool :=
  match f_answers f with
  | [] => res_agree false (check (lookupZ (f_table f)) solveZ (f_cfg f) [] (f_input f)) (f_out f)
  | _ =>
    let cr := lookupZ (f_table f) in
    let boundary := negb (f_exact f)
                    && existsb (fun a => alt_boundary cr (f_cfg f) a (f_input f)) (all_alts (f_answers f)) in
    boundary
    || (trace_agree (f_exact f) (check_trace cr solveZ (f_cfg f) (f_answers f) (f_input f)) (f_trace f)
        && selection_agree (f_cfg f) (f_trace f) (f_out f))
  end.

Definition frame_boundary (f : frame) : bool :=
  negb (f_exact f)
  && existsb (fun a => alt_boundary (lookupZ (f_table f)) (f_cfg f) a (f_input f)) (all_alts (f_answers f)).

(* ---- top level: grader(expect, input) end to end, leaf table only ---- *)
Inductive obs := ORet (ok : okv) (g : Q) (m : str) | OErr (e : err).

Definition alist_eqb {T} (f : T -> T -> bool) (a b : list (answer T)) : bool :=
  list_eqb (fun x y => list_eqb (list_eqb f) (an_lists x) (an_lists y)
                       && Qeq_bool (an_credit x) (an_credit y) && str_eqb (an_msg x) (an_msg y)) a b.

(* how the author supplied the answers *)
Inductive aform (T : Type) :=
| FExplicit (l : list T)                          (* lists of items: the observed canonical config['answers'] *)
| FString (s : str) (observed : option (list T)). (* a string (answers='a, b' or the expect argument); the canonical
                                                     answers the implementation derived from it, None = ConfigError *)
Arguments FExplicit {T}. Arguments FString {T}.

Definition entry_agree (exact : bool) (r : sres) (o : obs) : bool :=
  match o with
  | ORet ok g m =>
      let e := to_entry r in
      Qclose eps (e_grade e) g
      && (okv_eqb (e_ok e) ok || near (sr_grade r) 0 || near (sr_grade r) 1)
      && (negb exact || str_eqb (e_msg e) m)
  | OErr _ => false
  end.

Definition out_agree (exact : bool) (m : res sres) (o : obs) : bool :=
  match m, o with
  | inl r, _ => entry_agree exact r o
  | inr e, OErr e' => err_eqb e e'
  | inr _, ORet _ _ _ => false
  end.

Record top_flat := mkTopFlat {
  tf_cfg : cfg; tf_form : aform (answer str); tf_table : tblS; tf_exact : bool; tf_input : str; tf_out : obs }.
Record top_nested := mkTopNested {
  tn_co : cfg; tn_ci : cfg; tn_form : aform (answer (inner_answers str)); tn_table : tblS; tn_exact : bool;
  tn_input : str; tn_out : obs }.

Definition flat_boundary (t : top_flat) (answers : list (answer str)) : bool :=
  negb (tf_exact t) && existsb (fun a => alt_boundary (lookupS (tf_table t)) (tf_cfg t) a (tf_input t)) (all_alts answers).

Definition top_flat_agree (t : top_flat) : bool :=
  let run answers :=
    flat_boundary t answers
    || out_agree (tf_exact t) (check (lookupS (tf_table t)) solveZ (tf_cfg t) answers (tf_input t)) (tf_out t) in
  match tf_form t with
  | FExplicit l => run l
  | FString s None =>
      match infer_flat (tf_cfg t) s, tf_out t with
      | inr e, OErr e' => err_eqb e e'
      | _, _ => false
      end
  | FString s (Some l') =>
      match infer_flat (tf_cfg t) s with
      | inl l => alist_eqb str_eqb l l' && run l
      | inr _ => false
      end
  end.

Definition inner_eqb (a b : inner_answers str) : bool := alist_eqb str_eqb a b.

Definition top_nested_agree (t : top_nested) : bool :=
  let run answers :=
    out_agree (tn_exact t) (nested_check (lookupS (tn_table t)) solveZ (tn_co t) (tn_ci t) answers (tn_input t)) (tn_out t) in
  match tn_form t with
  | FExplicit l => run l
  | FString s None =>
      match infer_nested (tn_co t) (tn_ci t) s, tn_out t with
      | inr e, OErr e' => err_eqb e e'
      | _, _ => false
      end
  | FString s (Some l') =>
      match infer_nested (tn_co t) (tn_ci t) s with
      | inl l => alist_eqb inner_eqb l l' && run l
      | inr _ => false
      end
  end.

(* ---- the whitespace table against Python's str.strip() over every code point ---- *)
Fixpoint in_ranges (l : list (Z * Z)) (c : Z) : bool :=
  match l with
  | [] => false
  | (lo, hi) :: r => ((lo <=? c) && (c <=? hi))%Z || in_ranges r c
  end.
(* code points 0 .. 12288 are compared one by one; above, the model's table is empty (Proofs/SingleList.v,
   is_space_bounded) and the harness checks on the Python side that str.strip() removes nothing there *)
Definition ws_table_ok (observed : list (Z * Z)) : bool :=
  forallb (fun r => (0 <=? fst r)%Z && (snd r <? 12289)%Z) observed
  && snd (Z.iter 12289 (fun st : Z * bool => let (c, ok) := st in
                         ((c + 1)%Z, ok && Bool.eqb (is_space c) (in_ranges observed c))) (0%Z, true)).

Inductive case :=
| CFrame (f : frame)
| CFlat (t : top_flat)
| CNested (t : top_nested)
| CSplit (d s : str) (items : list str)      (* Python's s.split(d) *)
| CWs (observed : list (Z * Z)).

Definition agree (c : case) : bool :=
  match c with
  | CFrame f => frame_agree f
  | CFlat t => top_flat_agree t
  | CNested t => top_nested_agree t
  | CSplit d s items => list_eqb str_eqb (split d s) items && str_eqb (join d items) s
  | CWs l => ws_table_ok l
  end.

(* cases in which rounding could legitimately flip a decision (counted in the evidence) *)
Definition boundary (c : case) : bool :=
  match c with
  | CFrame f => frame_boundary f
  | CFlat t => match tf_form t with
               | FExplicit l => flat_boundary t l
               | FString s _ => match infer_flat (tf_cfg t) s with inl l => flat_boundary t l | inr _ => false end
               end
  | _ => false
  end.
