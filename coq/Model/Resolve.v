(* Resolve.v -- hand-written executable model of variable sampling and dependency resolution:
     mitxgraders/sampling.py            gen_symbols_samples, is_subset, construct_constants
     mitxgraders/helpers/math_helpers.py numbered_vars_regexp, MathMixin.generate_variable_list,
                                         MathMixin.gen_var_and_func_samples (variable part)
   No proofs here (Proofs/Resolve.v).  The model is generic in the value type V, the type of formulas,
   the function giving the names a formula uses (DependentSampler.config['depends'], inferred by the parser)
   and the evaluation oracle ev (DependentSampler.compute_sample; None = CalcError -> ConfigError).
   Python dicts are association lists read through first-match lookup; d[k] = v is a cons in front. *)
From Coq Require Import ZArith List Bool String Ascii.
From Verif.Model Require Import Result.
Import ListNotations.

(* ---------------------------------------------------------------- names *)
Definition s2l (s : string) : str := map (fun a => Z.of_N (N_of_ascii a)) (list_ascii_of_string s).

Fixpoint smem (x : str) (l : list str) : bool :=
  match l with [] => false | y :: r => str_eqb x y || smem x r end.

Fixpoint sdedup (l : list str) : list str :=          (* keeps first occurrences *)
  match l with [] => [] | x :: r => x :: filter (fun y => negb (str_eqb x y)) (sdedup r) end.

Fixpoint alookup {A} (l : list (str * A)) (x : str) : option A :=
  match l with [] => None | (y, v) :: r => if str_eqb x y then Some v else alookup r x end.

Definition amem {A} (l : list (str * A)) (x : str) : bool :=
  match alookup l x with Some _ => true | None => false end.

(* ---------------------------------------------------------------- numbered variables
   numbered_vars_regexp(heads) = ^((h1|h2|...)_{(?:[-]?[1-9]\d*|0)})$  with every head re.escape'd.
   A backtracking matcher tries the alternatives in order and takes the first head for which the rest of the
   pattern matches the rest of the string up to its end. *)
Definition rx_prefix : string := "^((".
Definition rx_suffix : string := ")_{(?:[-]?[1-9]\d*|0)})$".

Definition is_digit (c : Z) : bool := (48 <=? c)%Z && (c <=? 57)%Z.
Definition is_nonzero_digit (c : Z) : bool := (49 <=? c)%Z && (c <=? 57)%Z.

(* [-]?[1-9]\d*|0 *)
Definition is_canonical_index (s : str) : bool :=
  match s with
  | [] => false
  | c :: r =>
      if Z.eqb c 48 then match r with [] => true | _ :: _ => false end
      else if Z.eqb c 45 then match r with d :: r' => is_nonzero_digit d && forallb is_digit r' | [] => false end
      else is_nonzero_digit c && forallb is_digit r
  end.

Fixpoint strip_prefix (p s : str) : option str :=
  match p, s with
  | [], _ => Some s
  | a :: p', b :: s' => if Z.eqb a b then strip_prefix p' s' else None
  | _ :: _, [] => None
  end.

Fixpoint strip_last (s : str) : option (str * Z) :=      (* s = body ++ [c] *)
  match s with
  | [] => None
  | [c] => Some ([], c)
  | a :: r => match strip_last r with Some (b, c) => Some (a :: b, c) | None => None end
  end.

(* "_{" index "}" *)
Definition is_index_tail (s : str) : bool :=
  match s with
  | a :: b :: r =>
      Z.eqb a 95 && Z.eqb b 123 &&
      match strip_last r with
      | Some (body, c) => Z.eqb c 125 && is_canonical_index body
      | None => false
      end
  | _ => false
  end.

Definition head_matches (s h : str) : bool :=
  match strip_prefix h s with Some rest => is_index_tail rest | None => false end.

(* regexp.match(var): Some head (group 2; group 1 is the whole string) or None.
   With no heads at all the alternation is the empty pattern "()", which matches the empty head. *)
Definition numbered_match (heads : list str) (s : str) : option str :=
  find (head_matches s) (match heads with [] => [[]] | _ => heads end).

(* ---------------------------------------------------------------- generic resolution *)
Section Resolve.
  Variable V : Type.
  Variable formula : Type.
  Variable fdeps : formula -> list str.               (* DependentSampler.config['depends'] *)

  Definition env := list (str * V).
  Variable ev : formula -> env -> option V.           (* compute_sample; None = formula error *)

  Inductive sampler := SInd | SDep (f : formula).     (* independent sampling set / DependentSampler *)

  Inductive err :=
  | EKey (x : str)                    (* sample_from[x] missing: KeyError (not reachable from a grader) *)
  | EDraws                            (* harness handed over fewer draws than gen_sample() calls *)
  | EFormula (x : str)                (* ConfigError "Formula error in dependent sampling formula" *)
  | EUndefined (l : list str)         (* ConfigError "DependentSamplers depend on undefined quantities" *)
  | ECircular (l : list str)          (* ConfigError "Circularly dependent DependentSamplers detected" *)
  | EFuel.                            (* the while loop would not have stopped (proved impossible) *)

  Inductive result := ROk (e : env) | RErr (x : err).

  Definition is_config_error (x : err) : bool :=
    match x with EFormula _ | EUndefined _ | ECircular _ => true | _ => false end.

  (* is_subset(dependencies, sample_dict) *)
  Definition deps_ready (f : formula) (e : env) : bool := forallb (amem e) (fdeps f).

  Inductive pass_res := PErr (x : str) | POk (rem : list (str * formula)) (e : env) (progress : bool).

  (* one sweep of  `for symbol, dependencies in list(unevaluated_dependents.items())` *)
  Fixpoint pass (todo : list (str * formula)) (e : env) : pass_res :=
    match todo with
    | [] => POk [] e false
    | (x, f) :: r =>
        if deps_ready f e then
          match ev f e with
          | None => PErr x
          | Some v =>
              match pass r ((x, v) :: e) with
              | PErr y => PErr y
              | POk rem e' _ => POk rem e' true
              end
          end
        else
          match pass r e with
          | PErr y => PErr y
          | POk rem e' p => POk ((x, f) :: rem) e' p
          end
    end.

  (* the `if not progress_made:` block *)
  Definition bad_items (rem : list (str * formula)) (e : env) : list str :=
    sdedup (filter (fun d => negb (smem d (map fst rem)) && negb (amem e d))
                   (flat_map (fun xf => fdeps (snd xf)) rem)).

  Definition diagnose (rem : list (str * formula)) (e : env) : err :=
    match bad_items rem e with
    | [] => ECircular (map fst rem)
    | b => EUndefined b
    end.

  (* `while unevaluated_dependents:` *)
  Fixpoint loop (fuel : nat) (todo : list (str * formula)) (e : env) : result :=
    match todo with
    | [] => ROk e
    | _ =>
        match fuel with
        | O => RErr EFuel
        | S k =>
            match pass todo e with
            | PErr x => RErr (EFormula x)
            | POk rem e' true => loop k rem e'
            | POk rem e' false => RErr (diagnose rem e')
            end
        end
    end.

  Definition resolve (todo : list (str * formula)) (e : env) : result := loop (List.length todo) todo e.

  (* --- one sample of gen_symbols_samples --- *)
  Definition is_dep (sf : list (str * sampler)) (x : str) : bool :=
    match alookup sf x with Some (SDep _) => true | _ => false end.

  Definition independent (symbols : list str) (sf : list (str * sampler)) : list str :=
    filter (fun x => negb (is_dep sf x)) symbols.

  Definition prune (constants : env) (symbols : list str) : env :=
    filter (fun kv => negb (smem (fst kv) symbols)) constants.

  (* unevaluated_dependents = {symbol: depends for symbol in symbols if DependentSampler}: dict keys are unique *)
  Definition dependents (symbols : list str) (sf : list (str * sampler)) : list (str * formula) :=
    flat_map (fun x => match alookup sf x with Some (SDep f) => [(x, f)] | _ => [] end) (sdedup symbols).

  (* sample_dict.update({symbol: gen_sample() for symbol in independent}): the i-th call gets the i-th draw,
     a later binding of the same name overrides an earlier one *)
  Fixpoint draw_all (names : list str) (draws : list V) (e : env) : option env :=
    match names, draws with
    | [], _ => Some e
    | x :: r, d :: ds => draw_all r ds ((x, d) :: e)
    | _ :: _, [] => None
    end.

  Definition missing_key (symbols : list str) (sf : list (str * sampler)) : option str :=
    find (fun x => negb (amem sf x)) symbols.

  Definition gen_sample (symbols : list str) (sf : list (str * sampler)) (constants : env) (draws : list V)
    : result :=
    match missing_key symbols sf with
    | Some x => RErr (EKey x)
    | None =>
        match draw_all (independent symbols sf) draws (prune constants symbols) with
        | None => RErr EDraws
        | Some e0 => resolve (dependents symbols sf) e0
        end
    end.

  (* gen_symbols_samples: one list of draws per sample; the first failing sample aborts the call *)
  Inductive results := RsOk (l : list env) | RsErr (i : nat) (x : err).

  Fixpoint gen_samples_from (i : nat) (symbols : list str) (sf : list (str * sampler)) (constants : env)
           (draws : list (list V)) : results :=
    match draws with
    | [] => RsOk []
    | d :: ds =>
        match gen_sample symbols sf constants d with
        | RErr x => RsErr i x
        | ROk e =>
            match gen_samples_from (S i) symbols sf constants ds with
            | RsOk l => RsOk (e :: l)
            | RsErr j x => RsErr j x
            end
        end
    end.

  Definition gen_symbols_samples := gen_samples_from O.

  (* --- MathMixin.generate_variable_list ---
     used = the names used in the expressions (a Python set: iteration order unspecified, the theorems show
     it is irrelevant).  Returns (variable_list, sample_from_dict); None = KeyError on sample_from[head]. *)
  Fixpoint add_numbered (heads : list str) (bad : list str) (vars : list str) (sf : list (str * sampler))
    : option (list str * list (str * sampler)) :=
    match bad with
    | [] => Some (vars, sf)
    | v :: r =>
        match numbered_match heads v with
        | None => add_numbered heads r vars sf
        | Some h =>
            match alookup sf h with
            | None => None
            | Some s => add_numbered heads r (vars ++ [v]) ((v, s) :: sf)
            end
        end
    end.

  Definition generate_variable_list (variables heads used : list str) (sf : list (str * sampler)) :=
    add_numbered heads (filter (fun v => negb (smem v variables)) (sdedup used)) variables sf.

  (* the sibling block of gen_var_and_func_samples: variables.append(k); sample_from_dict[k] = DependentSampler(...) *)
  Fixpoint add_siblings (sibs : list (str * formula)) (vars : list str) (sf : list (str * sampler))
    : list str * list (str * sampler) :=
    match sibs with
    | [] => (vars, sf)
    | (k, f) :: r => add_siblings r (vars ++ [k]) ((k, SDep f) :: sf)
    end.

  (* variable part of gen_var_and_func_samples *)
  Definition gen_var_samples (variables heads used : list str) (sibs : list (str * formula))
             (sf : list (str * sampler)) (constants : env) (draws : list (list V)) : option results :=
    match generate_variable_list variables heads used sf with
    | None => None
    | Some (vars, sf1) =>
        let '(vars2, sf2) := add_siblings sibs vars sf1 in
        Some (gen_symbols_samples vars2 sf2 constants draws)
    end.

  (* FormulaGrader.gen_evaluations: one dict `varlist` lives across the samples.  Per sample: varlist.update(sample);
     the comparer parameters (the author's expressions) are evaluated in it; the blacklisted keys (instructor-only and
     sibling variables) are deleted; the student's expression is evaluated.  Returns both scopes for every sample. *)
  Definition remove_keys (bl : list str) (e : env) : env := filter (fun kv => negb (smem (fst kv) bl)) e.

  Fixpoint eval_scopes (varlist : env) (bl : list str) (samples : list env) : list (env * env) :=
    match samples with
    | [] => []
    | s :: r => let v1 := s ++ varlist in
                let v2 := remove_keys bl v1 in
                (v1, v2) :: eval_scopes v2 bl r
    end.

  (* construct_constants: copy of the defaults, user constants assigned over it *)
  Definition construct_constants (defaults user : env) : env :=
    user ++ filter (fun kv => negb (amem user (fst kv))) defaults.
End Resolve.

Arguments SInd {formula}.
Arguments SDep {formula} f.
Arguments ROk {V} e.
Arguments RErr {V} x.
Arguments RsOk {V} l.
Arguments RsErr {V} i x.
Arguments PErr {V formula} x.
Arguments POk {V formula} rem e progress.

(* ---------------------------------------------------------------- concrete instance used by the correspondence:
   exact complex-rational scalars and vectors, formulas over + - * (scalar, scalar*vector, dot product), negation,
   array literals.  This is NOT a model of the library's evaluator (C03/C14 own that); it is the small fragment the
   C13 generators emit, evaluated exactly so that the whole sample dictionary can be compared. *)
From Coq Require Import QArith.

Definition cplx := (Q * Q)%type.
Definition cadd (a b : cplx) : cplx := (fst a + fst b, snd a + snd b)%Q.
Definition csub (a b : cplx) : cplx := (fst a - fst b, snd a - snd b)%Q.
Definition cmul (a b : cplx) : cplx := (fst a * fst b - snd a * snd b, fst a * snd b + snd a * fst b)%Q.
Definition cneg (a : cplx) : cplx := (- fst a, - snd a)%Q.

Inductive val := VS (c : cplx) | VV (l : list cplx).

Inductive expr :=
| ENum (q : Q) | EVar (x : str) | ENeg (a : expr)
| EAdd (a b : expr) | ESub (a b : expr) | EMul (a b : expr)
| EVec (l : list expr).

Fixpoint expr_vars (a : expr) : list str :=
  match a with
  | ENum _ => []
  | EVar x => [x]
  | ENeg a => expr_vars a
  | EAdd a b | ESub a b | EMul a b => expr_vars a ++ expr_vars b
  | EVec l => flat_map expr_vars l
  end.

Fixpoint zip_with (f : cplx -> cplx -> cplx) (a b : list cplx) : option (list cplx) :=
  match a, b with
  | [], [] => Some []
  | x :: a', y :: b' => match zip_with f a' b' with Some r => Some (f x y :: r) | None => None end
  | _, _ => None
  end.

Fixpoint cdot (a b : list cplx) : option cplx :=
  match a, b with
  | [], [] => Some (0, 0)%Q
  | x :: a', y :: b' => match cdot a' b' with Some r => Some (cadd (cmul x y) r) | None => None end
  | _, _ => None
  end.

Definition czero (a : cplx) : bool := Qeq_bool (fst a) 0 && Qeq_bool (snd a) 0.

(* MathArray lets the number zero be added to / subtracted from an array of any shape; other scalars are refused *)
Definition v_addsub (f : cplx -> cplx -> cplx) (a b : val) : option val :=
  match a, b with
  | VS x, VS y => Some (VS (f x y))
  | VV x, VV y => match zip_with f x y with Some r => Some (VV r) | None => None end
  | VS x, VV y => if czero x then Some (VV (map (fun c => f x c) y)) else None
  | VV x, VS y => if czero y then Some (VV (map (fun c => f c y) x)) else None
  end.

Definition v_mul (a b : val) : option val :=
  match a, b with
  | VS x, VS y => Some (VS (cmul x y))
  | VS x, VV y => Some (VV (map (cmul x) y))
  | VV x, VS y => Some (VV (map (fun c => cmul c y) x))
  | VV x, VV y => match cdot x y with Some r => Some (VS r) | None => None end
  end.

Fixpoint all_scalars (l : list (option val)) : option (list cplx) :=
  match l with
  | [] => Some []
  | Some (VS c) :: r => match all_scalars r with Some t => Some (c :: t) | None => None end
  | _ => None
  end.

Fixpoint eval_expr (a : expr) (e : list (str * val)) : option val :=
  match a with
  | ENum q => Some (VS (q, 0%Q))
  | EVar x => alookup e x
  | ENeg a => match eval_expr a e with
              | Some (VS c) => Some (VS (cneg c))
              | Some (VV l) => Some (VV (map cneg l))
              | None => None
              end
  | EAdd a b => match eval_expr a e, eval_expr b e with Some x, Some y => v_addsub cadd x y | _, _ => None end
  | ESub a b => match eval_expr a e, eval_expr b e with Some x, Some y => v_addsub csub x y | _, _ => None end
  | EMul a b => match eval_expr a e, eval_expr b e with Some x, Some y => v_mul x y | _, _ => None end
  | EVec l => match l with
              | [] => None
              | _ => match all_scalars (map (fun x => eval_expr x e) l) with Some t => Some (VV t) | None => None end
              end
  end.
