(* ItemCheck.v -- hand-written executable model of mitxgraders/baseclasses.py
     ItemGrader.schema_answers / validate_single_answer / schema_answer / validate_expect_tuple   (canon)
     ItemGrader.check                                                                             (check)
   The per-alternative comparison `check_response` is an oracle: a function argument `cr`
   (result or exception), never an axiom.  No proofs here. *)
From Coq Require Import ZArith QArith List Bool.
From Verif.Lib Require Import QRound.
From Verif.Model Require Import Result.
Import ListNotations.
Open Scope Q_scope.

Section ItemCheck.
  Variables E I X : Type.     (* an author's expect value; the student input; an exception *)

  (* one canonical entry of config['answers'] : {'expect': (e1, e2, ...), 'grade_decimal', 'msg', 'ok'} *)
  Record answer := mkAnswer { a_expects : list E; a_credit : Q; a_msg : str; a_ok : okv }.

  (* `answercopy` as handed to check_response: the same dictionary with 'expect' replaced by ONE value *)
  Record single := mkSingle { s_expect : E; s_credit : Q; s_msg : str; s_ok : okv }.

  (* ---------------------------------------------------------------------------------------------
     canonicalisation of what the author wrote
     --------------------------------------------------------------------------------------------- *)
  Inductive raw_expect := ROne (e : E) | RMany (es : list E).            (* a value | a tuple of values *)
  Inductive raw_ok := RComputed | RTrue | RFalse | RPartial.
  Inductive raw_answer :=
  | RBare (e : raw_expect)                                               (* just an expect value / tuple *)
  | RDict (e : raw_expect) (credit : option Q) (msg : option str) (ok : option raw_ok).
  Inductive raw_answers := RSingle (a : raw_answer) | RTuple (l : list raw_answer).

  (* validate_expect_tuple: `if not isinstance(expect, tuple): expect = (expect,)` *)
  Definition expects_of (re : raw_expect) : list E :=
    match re with ROne e => [e] | RMany es => es end.

  (* validate_single_answer.
     - a non-dictionary fails schema_answer and is retried as {'expect': answer, 'ok': True}
     - schema_answer: grade_decimal default 1, All(Number, Range(0, 1)); msg default ''; ok default 'computed'
     - `if ok == 'computed' or grade_decimal != 1: ok = grade_decimal_to_ok(grade_decimal)`
     None = voluptuous error (the grader cannot be constructed). *)
  Definition canon_ok (c : Q) (o : option raw_ok) : okv :=
    match o with
    | None | Some RComputed => grade_to_ok c
    | Some RTrue => if Qeq_bool c 1 then OkTrue else grade_to_ok c
    | Some RFalse => if Qeq_bool c 1 then OkFalse else grade_to_ok c
    | Some RPartial => if Qeq_bool c 1 then OkPartial else grade_to_ok c
    end.

  Definition canon_answer (a : raw_answer) : option answer :=
    match a with
    | RBare e => Some (mkAnswer (expects_of e) 1 [] OkTrue)
    | RDict e c m o =>
        let c' := match c with Some q => q | None => 1 end in
        if Qle_bool 0 c' && Qle_bool c' 1
        then Some (mkAnswer (expects_of e) c' (match m with Some s => s | None => [] end) (canon_ok c' o))
        else None
    end.

  Fixpoint canon_list (l : list raw_answer) : option (list answer) :=
    match l with
    | [] => Some []
    | a :: r =>
        match canon_answer a, canon_list r with
        | Some a', Some r' => Some (a' :: r')
        | _, _ => None
        end
    end.

  (* schema_answers: `if not isinstance(answer_tuple, tuple): answer_tuple = (answer_tuple,)`.
     A bare tuple given as the whole `answers` IS the tuple of alternatives. *)
  Definition canon (r : raw_answers) : option (list answer) :=
    match r with
    | RTuple l => canon_list l
    | RSingle (RBare (RMany es)) => canon_list (map (fun e => RBare (ROne e)) es)
    | RSingle a => canon_list [a]
    end.

  (* ---------------------------------------------------------------------------------------------
     ItemGrader.check
     --------------------------------------------------------------------------------------------- *)
  Variable cr : single -> I -> entry + X.       (* check_response(answercopy, student_input) *)

  (* for answer in answers: for entry in answer['expect']: answercopy['expect'] = entry *)
  Definition singles_of (a : answer) : list single :=
    map (fun e => mkSingle e (a_credit a) (a_msg a) (a_ok a)) (a_expects a).
  Definition flatten (l : list answer) : list single := flat_map singles_of l.

  (* results.append(self.check_response(answercopy, student_input)); the first exception aborts *)
  Fixpoint collect (ss : list single) (x : I) : list entry + X :=
    match ss with
    | [] => inl []
    | s :: t =>
        match cr s x with
        | inr e => inr e
        | inl r => match collect t x with inr e => inr e | inl rs => inl (r :: rs) end
        end
    end.

  (* the calls made, in order, up to and including the one that raised *)
  Fixpoint calls (ss : list single) (x : I) : list single :=
    match ss with
    | [] => []
    | s :: t => match cr s x with inr _ => [s] | inl _ => s :: calls t x end
    end.

  (* Python's max(): keep the current maximum, replace it only by a strictly greater item *)
  Fixpoint max_grade (cur : Q) (rs : list entry) : Q :=
    match rs with
    | [] => cur
    | r :: t => max_grade (if Qltb cur (e_grade r) then e_grade r else cur) t
    end.

  (* max(best_results, key=lambda r: len(r['msg'])) *)
  Fixpoint longest (cur : entry) (rs : list entry) : entry :=
    match rs with
    | [] => cur
    | r :: t => longest (if (length (e_msg cur) <? length (e_msg r))%nat then r else cur) t
    end.

  Definition is_empty (s : str) : bool := match s with [] => true | _ => false end.

  (* what `check` computes from the list of results *)
  Record selection := mkSel {
    sel_best : Q;                (* best_score *)
    sel_chosen : entry;          (* best_result_with_longest_msg, before the wrong_msg step *)
    sel_subst : bool             (* the wrong_msg branch was taken *)
  }.

  Definition select (rs : list entry) : option selection :=
    match rs with
    | [] => None                                                          (* max([]) -> ValueError *)
    | r0 :: t =>
        let best := max_grade (e_grade r0) t in
        match filter (fun r => Qeq_bool (e_grade r) best) rs with
        | [] => None
        | b0 :: bt =>
            let ch := longest b0 bt in
            Some (mkSel best ch (is_empty (e_msg ch) && Qeq_bool best 0))
        end
    end.

  Definition final (wrong_msg : str) (s : selection) : entry :=
    if sel_subst s then mkEntry (e_ok (sel_chosen s)) (e_grade (sel_chosen s)) wrong_msg else sel_chosen s.

  (* the selection made by check when every alternative returns *)
  Definition check_select (answers : list answer) (x : I) : option selection :=
    match collect (flatten answers) x with inl rs => select rs | inr _ => None end.

  Inductive outcome :=
  | Ret (e : entry)
  | NoAnswers          (* ConfigError "Expected at least one answer in answers" *)
  | NoResults          (* every expect tuple empty: max() of an empty list -> ValueError *)
  | Raised (x : X).    (* check_response raised; the first one in listing order escapes *)

  Definition check (wrong_msg : str) (answers : list answer) (x : I) : outcome :=
    match answers with
    | [] => NoAnswers
    | _ =>
        match collect (flatten answers) x with
        | inr e => Raised e
        | inl rs => match select rs with None => NoResults | Some s => Ret (final wrong_msg s) end
        end
    end.

  (* the grader as the author configures it *)
  Inductive graded := ConfigInvalid | Out (o : outcome).
  Definition grade_raw (wrong_msg : str) (r : raw_answers) (x : I) : graded :=
    match canon r with None => ConfigInvalid | Some l => Out (check wrong_msg l x) end.

End ItemCheck.

Arguments mkAnswer {E}. Arguments a_expects {E}. Arguments a_credit {E}. Arguments a_msg {E}. Arguments a_ok {E}.
Arguments mkSingle {E}. Arguments s_expect {E}. Arguments s_credit {E}. Arguments s_msg {E}. Arguments s_ok {E}.
Arguments ROne {E}. Arguments RMany {E}. Arguments RBare {E}. Arguments RDict {E}.
Arguments RSingle {E}. Arguments RTuple {E}.
Arguments expects_of {E}. Arguments canon_answer {E}. Arguments canon_list {E}. Arguments canon {E}.
Arguments singles_of {E}. Arguments flatten {E}.
Arguments collect {E I X}. Arguments calls {E I X}.
Arguments select. Arguments final. Arguments max_grade. Arguments longest.
Arguments Ret {X}. Arguments NoAnswers {X}. Arguments NoResults {X}. Arguments Raised {X}.
Arguments check {E I X}. Arguments check_select {E I X}. Arguments grade_raw {E I X}.
Arguments ConfigInvalid {X}. Arguments Out {X}.
