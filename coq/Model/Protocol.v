(* Protocol.v -- executable model of the item-grader call protocol (C11).

   Mirrors, statement by statement,
     mitxgraders/baseclasses.py   ItemGrader.__call__  (answer inference from `expect`)
                                  AbstractGrader.__call__ (up to and including the guarded check)
                                  AbstractGrader.create_debuglog
     mitxgraders/helpers/calc/math_array.py   MathArray.enable_negative_powers
   as small PROGRAMS over a command language; `translate/protocol.py` regenerates the same programs
   from the source on every run (Gen/Protocol.v) and Bridge/Protocol.v proves them equal to the ones here.

   Everything the protocol does not decide is an oracle (a field of `oracles`): whether an expect value
   survives infer_from_expect / schema_answers / post_schema_ans_val, whether the student input is text,
   what self.check returns for given stored answers.  No proofs in this file. *)
From Coq Require Import ZArith QArith List Bool.
From Verif.Lib Require Export ProtocolSyntax.
From Verif.Model Require Import Result.
Import ListNotations.

(* ---------------------------------------------------------------------------------------------- *)
(* strings, exceptions, results                                                                   *)
(* ---------------------------------------------------------------------------------------------- *)
Record exn := mkExn { x_cls : str; x_mitx : bool; x_msg : str }.   (* x_mitx: isinstance(error, MITxError) *)

Definition nl : Z := 10%Z.
Definition br : str := [60; 98; 114; 47; 62]%Z.                      (* "<br/>" *)

(* str.replace('\n', r) *)
Fixpoint replace_nl (r : str) (m : str) : str :=
  match m with
  | [] => []
  | c :: m' => if Z.eqb c nl then r ++ replace_nl r m' else c :: replace_nl r m'
  end.

(* AbstractGrader.format_messages on one message:  msg.replace("\n", "<br/>\n") *)
Definition format_msg (m : str) : str := replace_nl (br ++ [nl]) m.

(* "Invalid Input: Could not check input '{}'" *)
Definition generic_prefix : str :=
  [73;110;118;97;108;105;100;32;73;110;112;117;116;58;32;67;111;117;108;100;32;110;111;116;32;99;104;101;99;107;32;
   105;110;112;117;116;32;39]%Z.
Definition student_facing_error : str :=
  [83;116;117;100;101;110;116;70;97;99;105;110;103;69;114;114;111;114]%Z.       (* "StudentFacingError" *)
Definition generic_error (shown : str) : exn :=
  mkExn student_facing_error true (generic_prefix ++ shown ++ [39]%Z).

Definition none_exn : exn := mkExn [] false [].     (* placeholder for paths real programs never take *)

(* ---- the programs of the code as it stands; Gen/Protocol.v must regenerate exactly these ---- *)
Definition create_prog_code : create_program :=
  mkCreate BLogCreated [LcReset; LcVersion; LcResponse; LcDefaults; LcSetCreated true].

(* ItemGrader.__call__ since the fixes 6d40b94 / a320343: validate into a local before storing anything, create the
   log only after validation, clear log_created on every exit of the superclass call *)
Definition call_prog_repaired : call_program :=
  mkProg (BAnd BExpectGiven (BOr BInferring (BNot BHasAnswers)))
         [CInfer; CSchema Tmp; CPost Tmp Tmp; CMove Tmp Cfg; CSetInferring true; CCreateLog; CLogInferred]
         [CEnsureText; CCreateLog; CSetLogCreated false; CCheck]
         [CSetLogCreated false].

(* the protocol as it was BEFORE those fixes (kept as a regression reference: the corpus witnesses tell it apart) *)
Definition call_prog_before_fix : call_program :=
  mkProg (BAnd BExpectGiven (BOr BInferring (BNot BHasAnswers)))
         [CInfer; CCreateLog; CLogInferred; CSchema Cfg; CPost Cfg Cfg; CSetInferring true]
         [CEnsureText; CCreateLog; CSetLogCreated false; CCheck]
         [].

(* the programs the implementation currently has (Bridge/Protocol.v ties Gen to these names) *)
Definition call_prog : call_program := call_prog_repaired.
Definition create_prog : create_program := create_prog_code.

(* ---------------------------------------------------------------------------------------------- *)
(* semantics                                                                                      *)
(* ---------------------------------------------------------------------------------------------- *)
Section Semantics.
Context {E S A L : Type}.     (* expect values, student inputs, validated answer tuples, lines logged by check *)

Inductive line :=
| LVersion                           (* "MITx Grading Library Version ..", "Running on edX using python .." *)
| LResp (s : S)                      (* the student-response entry of input s *)
| LDefaults                          (* "Using modified defaults: .." *)
| LInferred (e : E)                  (* "Expect value inferred to be .." *)
| LChk (l : L).                      (* an entry written while checking *)

Inductive cres :=
| CRet (v : entry) (ls : list L)     (* self.check returned (ok, grade_decimal, msg); ls were logged meanwhile *)
| CRaise (x : exn) (ls : list L).    (* self.check raised *)

Record oracles := mkOracles {
  o_infer  : E -> option exn;                 (* infer_from_expect raises this *)
  o_schema : E -> exn + A;                    (* schema_answers(infer_from_expect(e)) *)
  o_post   : A -> (A * exn) + A;              (* post_schema_ans_val: inl (what the argument was left as, the error) *)
  o_text   : S -> option exn;                 (* ensure_text_inputs raises this *)
  o_check  : option A -> S -> cres;           (* self.check(None, s) when config['answers'] holds the given value *)
  o_show   : S -> str                         (* the input as text (generic error message) *)
}.

Record config := mkConfig { c_debug : bool }.

(* what a call hands back *)
Inductive outcome :=
| ORaise (x : exn)
| ORet (v : entry) (log : option (list line)).   (* Some log iff config['debug'] *)

(* instance state that survives a call, plus the locals of the running call *)
Record state := mkState {
  st_answers   : option A;      (* config['answers'];  None = the empty tuple *)
  st_inferring : bool;          (* inferring_answers *)
  st_created   : bool;          (* log_created *)
  st_log       : list line;     (* debuglog *)
  st_tmp       : option A;      (* local `answers` of the running call *)
  st_inferred  : option E       (* local `inferred` of the running call *)
}.

Definition init_state (configured : option A) : state := mkState configured false false [] None None.

Definition begin_call (m : state) : state :=
  mkState (st_answers m) (st_inferring m) (st_created m) (st_log m) None None.

Definition load (l : loc) (m : state) : option A := match l with Tmp => st_tmp m | Cfg => st_answers m end.
Definition store (l : loc) (v : option A) (m : state) : state :=
  match l with
  | Tmp => mkState (st_answers m) (st_inferring m) (st_created m) (st_log m) v (st_inferred m)
  | Cfg => mkState v (st_inferring m) (st_created m) (st_log m) (st_tmp m) (st_inferred m)
  end.
Definition set_inferring (b : bool) (m : state) : state :=
  mkState (st_answers m) b (st_created m) (st_log m) (st_tmp m) (st_inferred m).
Definition set_created (b : bool) (m : state) : state :=
  mkState (st_answers m) (st_inferring m) b (st_log m) (st_tmp m) (st_inferred m).
Definition set_log (l : list line) (m : state) : state :=
  mkState (st_answers m) (st_inferring m) (st_created m) l (st_tmp m) (st_inferred m).
Definition set_inferred (e : option E) (m : state) : state :=
  mkState (st_answers m) (st_inferring m) (st_created m) (st_log m) (st_tmp m) e.
Definition add_lines (ls : list line) (m : state) : state := set_log (st_log m ++ ls) m.

Definition has_answers (m : state) : bool := match st_answers m with Some _ => true | None => false end.

Fixpoint eval_bexp (given : bool) (m : state) (b : bexp) : bool :=
  match b with
  | BExpectGiven => given
  | BInferring => st_inferring m
  | BHasAnswers => has_answers m
  | BLogCreated => st_created m
  | BNot x => negb (eval_bexp given m x)
  | BAnd x y => eval_bexp given m x && eval_bexp given m y
  | BOr x y => eval_bexp given m x || eval_bexp given m y
  end.

Variable defaults_modified : bool.      (* bool(self.modified_defaults) -- fixed at construction *)

Definition exec_lcmd (s : S) (c : lcmd) (m : state) : state :=
  match c with
  | LcReset => set_log [] m
  | LcVersion => add_lines [LVersion] m
  | LcResponse => add_lines [LResp s] m
  | LcDefaults => add_lines (if defaults_modified then [LDefaults] else []) m
  | LcSetCreated b => set_created b m
  end.

Definition run_create (cp : create_program) (s : S) (m : state) : state :=
  if eval_bexp false m (cp_return_if cp) then m
  else fold_left (fun acc c => exec_lcmd s c acc) (cp_body cp) m.

Variable cfg : config.
Variable O : oracles.
Variable cp : create_program.

(* AbstractGrader.__call__'s except-clause *)
Definition wrap (x : exn) (s : S) : exn :=
  if c_debug cfg then x
  else if x_mitx x then mkExn (x_cls x) true (replace_nl br (x_msg x))
  else generic_error (o_show O s).

Definition format_entry (v : entry) : entry := mkEntry (e_ok v) (e_grade v) (format_msg (e_msg v)).

(* one command; Some outcome = the call ends here (exception or return) *)
Definition exec_cmd (e : option E) (s : S) (c : cmd) (m : state) : state * option outcome :=
  match c with
  | CInfer =>
      match e with
      | None => (m, Some (ORaise none_exn))
      | Some ev => match o_infer O ev with
                   | Some x => (m, Some (ORaise x))
                   | None => (set_inferred (Some ev) m, None)
                   end
      end
  | CSchema dst =>
      match st_inferred m with
      | None => (m, Some (ORaise none_exn))
      | Some ev => match o_schema O ev with
                   | inl x => (m, Some (ORaise x))
                   | inr a => (store dst (Some a) m, None)
                   end
      end
  | CPost src dst =>
      match load src m with
      | None => (store dst None m, None)
      | Some a => match o_post O a with
                  | inl (p, x) => (store src (Some p) m, Some (ORaise x))
                  | inr a' => (store dst (Some a') (store src (Some a') m), None)
                  end
      end
  | CMove src dst => (store dst (load src m) m, None)
  | CCreateLog => (run_create cp s m, None)
  | CLogInferred =>
      match st_inferred m with
      | None => (m, None)
      | Some ev => (add_lines [LInferred ev] m, None)
      end
  | CSetInferring b => (set_inferring b m, None)
  | CSetLogCreated b => (set_created b m, None)
  | CEnsureText =>
      match o_text O s with
      | Some x => (m, Some (ORaise x))
      | None => (m, None)
      end
  | CCheck =>
      match o_check O (st_answers m) s with
      | CRaise x ls => (add_lines (map LChk ls) m, Some (ORaise (wrap x s)))
      | CRet v ls =>
          let m' := add_lines (map LChk ls) m in
          (m', Some (ORet (format_entry v) (if c_debug cfg then Some (st_log m') else None)))
      end
  end.

Fixpoint run_cmds (e : option E) (s : S) (cs : list cmd) (m : state) : state * option outcome :=
  match cs with
  | [] => (m, None)
  | c :: cs' => match exec_cmd e s c m with
                | (m', Some o) => (m', Some o)
                | (m', None) => run_cmds e s cs' m'
                end
  end.

Definition given (e : option E) : bool := match e with Some _ => true | None => false end.

(* grader(expect, student_input) *)
Definition call (p : call_program) (m0 : state) (e : option E) (s : S) : state * outcome :=
  let m := begin_call m0 in
  let '(m1, r1) := if eval_bexp (given e) m (p_guard p) then run_cmds e s (p_block p) m else (m, None) in
  let '(m2, r2) := match r1 with
                   | Some o => (m1, Some o)
                   | None => run_cmds e s (p_super p) m1
                   end in
  let '(m3, _) := run_cmds e s (p_finally p) m2 in
  (m3, match r2 with Some o => o | None => ORaise none_exn end).

Definition event := (option E * S)%type.

Fixpoint run (p : call_program) (m : state) (h : list event) : state :=
  match h with
  | [] => m
  | (e, s) :: h' => run p (fst (call p m e s)) h'
  end.

(* ---- the reference: what the property says a call must return ---- *)

(* an expect value is successfully supplied when all three validation stages accept it *)
Definition validated (ev : E) : option A :=
  match o_infer O ev with
  | Some _ => None
  | None => match o_schema O ev with
            | inl _ => None
            | inr a0 => match o_post O a0 with inl _ => None | inr a => Some a end
            end
  end.

Definition is_valid (ev : E) : bool := match validated ev with Some _ => true | None => false end.

(* the last successfully supplied expect value of a history *)
Fixpoint last_supplied (acc : option E) (h : list event) : option E :=
  match h with
  | [] => acc
  | (Some ev, _) :: h' => last_supplied (if is_valid ev then Some ev else acc) h'
  | (None, _) :: h' => last_supplied acc h'
  end.

(* the expect value a fresh grader is given: the current one, else the last successfully supplied one *)
Definition effective (last e : option E) : option E := match e with Some _ => e | None => last end.

Definition not_inferred (l : line) : bool := match l with LInferred _ => false | _ => true end.

(* the debug log of a call that was given no expect value has no "Expect value inferred" entry *)
Definition strip_inferred (o : outcome) : outcome :=
  match o with
  | ORet v (Some lg) => ORet v (Some (filter not_inferred lg))
  | _ => o
  end.

(* the outcome the property demands after history h, for a grader constructed with `configured` answers *)
Definition spec (p : call_program) (configured : option A) (h : list event) (e : option E) (s : S) : outcome :=
  match configured with
  | Some _ => snd (call p (init_state configured) None s)                      (* expect is ignored *)
  | None =>
      let fresh := snd (call p (init_state None) (effective (last_supplied None h) e) s) in
      match e with Some _ => fresh | None => strip_inferred fresh end
  end.

End Semantics.

Arguments line : clear implicits.
Arguments cres : clear implicits.
Arguments oracles : clear implicits.
Arguments outcome : clear implicits.
Arguments state : clear implicits.
Arguments event : clear implicits.

(* ---------------------------------------------------------------------------------------------- *)
(* MathArray.enable_negative_powers (a context manager over a class attribute)                    *)
(* ---------------------------------------------------------------------------------------------- *)
Definition cm_prog_code : cm_program := mkCm [SwSet SvArg] true [SwSet SvDefault].
Definition cm_prog : cm_program := cm_prog_code.


Definition exec_sw (arg : bool) (c : swcmd) (w : switch) : switch :=
  match c with
  | SwSet SvArg => mkSwitch arg (sw_default w)
  | SwSet SvDefault => mkSwitch (sw_default w) (sw_default w)
  end.

(* with MathArray.enable_negative_powers(arg): body      -- body returns (switch, result, raised?) *)
Definition with_switch {R} (p : cm_program) (arg : bool) (body : switch -> switch * R * bool) (w : switch)
  : switch * R * bool :=
  let w1 := fold_left (fun acc c => exec_sw arg c acc) (cm_setup p) w in
  let '(w2, r, raised) := body w1 in
  let w3 := if raised && negb (cm_in_finally p) then w2
            else fold_left (fun acc c => exec_sw arg c acc) (cm_teardown p) w2 in
  (w3, r, raised).

(* a sequence of MatrixGrader.check_response calls: each has its own negative_powers setting and a body that
   reads the flag it sees, may nest further uses, may raise *)
Fixpoint run_switch {R} (p : cm_program) (calls : list (bool * (switch -> switch * R * bool))) (w : switch)
  : switch * list (R * bool) :=
  match calls with
  | [] => (w, [])
  | (arg, body) :: rest =>
      let '(w', r, raised) := with_switch p arg body w in
      let '(w'', rs) := run_switch p rest w' in
      (w'', (r, raised) :: rs)
  end.

(* ---------------------------------------------------------------------------------------------- *)
(* instance used by the correspondence (harness/props/c11.py): everything numbered by Z            *)
(* ---------------------------------------------------------------------------------------------- *)
Module ZI.
Open Scope Z_scope.

Definition exn_eqb (a b : exn) : bool := str_eqb (x_cls a) (x_cls b) && str_eqb (x_msg a) (x_msg b).

Definition entry_eqb (a b : entry) : bool :=
  okv_eqb (e_ok a) (e_ok b) && Qeq_bool (e_grade a) (e_grade b) && str_eqb (e_msg a) (e_msg b).

Definition line_eqb (a b : line Z Z Z) : bool :=
  match a, b with
  | LVersion, LVersion | LDefaults, LDefaults => true
  | LResp x, LResp y | LInferred x, LInferred y | LChk x, LChk y => Z.eqb x y
  | _, _ => false
  end.

Fixpoint lines_eqb (a b : list (line Z Z Z)) : bool :=
  match a, b with
  | [], [] => true
  | x :: a', y :: b' => line_eqb x y && lines_eqb a' b'
  | _, _ => false
  end.

Definition outcome_eqb (a b : outcome Z Z Z) : bool :=
  match a, b with
  | ORaise x, ORaise y => exn_eqb x y
  | ORet v None, ORet w None => entry_eqb v w
  | ORet v (Some l), ORet w (Some k) => entry_eqb v w && lines_eqb l k
  | _, _ => false
  end.

Definition optz_eqb (a b : option Z) : bool :=
  match a, b with
  | None, None => true
  | Some x, Some y => Z.eqb x y
  | _, _ => false
  end.

(* what the harness reads off the instance after a call *)
Record observed := mkObs {
  ob_outcome : nat;                   (* index into the table of canonical outcomes *)
  ob_answers : option Z;              (* which answers config['answers'] holds *)
  ob_inferring : bool;
  ob_created : bool;
  ob_log : list (line Z Z Z)          (* the instance's debuglog *)
}.

Definition state_agrees (m : state Z Z Z Z) (o : observed) : bool :=
  optz_eqb (st_answers m) (ob_answers o) && Bool.eqb (st_inferring m) (ob_inferring o)
  && Bool.eqb (st_created m) (ob_created o) && lines_eqb (st_log m) (ob_log o).

Section Agree.
Variable dm : bool.
Variable cfg : config.
Variable O : oracles Z Z Z Z.
Variable cp : create_program.
Variable p : call_program.
Variable outcomes : list (outcome Z Z Z).

(* the model, run on the very events the implementation was run on, agrees call by call on outcome and state *)
Fixpoint agree_from (m : state Z Z Z Z) (evs : list (event Z Z)) (obs : list observed) : bool :=
  match evs, obs with
  | [], [] => true
  | (e, s) :: evs', o :: obs' =>
      let '(m', out) := call dm cfg O cp p m e s in
      outcome_eqb out (nth (ob_outcome o) outcomes (ORaise none_exn))
      && state_agrees m' o && agree_from m' evs' obs'
  | _, _ => false
  end.

Definition agree (configured : option Z) (c : list (event Z Z) * list observed) : bool :=
  agree_from (init_state configured) (fst c) (snd c).

(* model-side search: does the model itself meet the property on this history? (every prefix) *)
Fixpoint spec_from (configured : option Z) (done : list (event Z Z)) (m : state Z Z Z Z) (evs : list (event Z Z)) : bool :=
  match evs with
  | [] => true
  | (e, s) :: evs' =>
      let '(m', out) := call dm cfg O cp p m e s in
      outcome_eqb out (spec dm cfg O cp p configured done e s)
      && spec_from configured (done ++ [(e, s)]) m' evs'
  end.

Definition meets_spec (configured : option Z) (evs : list (event Z Z)) : bool :=
  spec_from configured [] (init_state configured) evs.

End Agree.
End ZI.
