(* StrRegex.v -- a regular-expression subset with a parser FROM PATTERN TEXT and an executable matcher (C18).
   Needed because StringGrader.check_response builds `pattern + "$"` as text and calls re.match on it.
   No proofs here.

   Subset: literals, `.`, classes `[...]`/`[^...]` with ranges and \d \w \s \D \W \S, escapes \d \w \s \D \W \S \A \Z and
   backslash + ASCII punctuation, concatenation, `|`, groups `( )` and `(?: )`, quantifiers `* + ?`, anchors `^ $`.
   Everything else (braces, lazy/possessive quantifiers, look-around, back-references, flags, \b ...) makes `parse`
   return None ("outside the modelled subset"); such patterns are covered by correspondence only.

   The parser is a left fold of a character-step function over the pattern text, so that the effect of appending
   one character to a pattern is one more step (Proofs/StrRegex.v uses this for `pattern ++ "$"`).

   Matching is existence of a match (what `re.match(...) is None` observes): `ends r s i` is the set of positions j
   such that r matches s[i..j).  Python's backtracking search finds a match iff one exists for this subset. *)
From Coq Require Import ZArith List Bool Arith.
From Verif.Model Require Import Result StrGrader.
Import ListNotations.
Open Scope Z_scope.

Inductive citem :=
| ILit (c : Z) | IRange (a b : Z)
| IDigit | INotDigit | IWord | INotWord | ISpace | INotSpace.

Inductive cset :=
| CAny                                        (* `.` : any character except newline *)
| CSet (neg : bool) (items : list citem).

Inductive re :=
| Eps | Chr (cs : cset) | Cat (a b : re) | Alt (a b : re) | Star (a : re)
| Bol                                         (* ^ and \A (no MULTILINE flag) *)
| Eol                                         (* $ : at the end, or just before a final newline *)
| EndZ.                                       (* \Z : at the end *)

Definition lit (c : Z) : re := Chr (CSet false [ILit c]).
Definition Plus (a : re) : re := Cat a (Star a).
Definition Opt (a : re) : re := Alt a Eps.

(* ---------------------------------------------------------------------------------------------- *)
(* matcher                                                                                         *)
(* ---------------------------------------------------------------------------------------------- *)
Definition citem_mem (T : tables) (it : citem) (c : Z) : bool :=
  match it with
  | ILit a => c =? a
  | IRange a b => (a <=? c) && (c <=? b)
  | IDigit => t_digit T c | INotDigit => negb (t_digit T c)
  | IWord => t_word T c   | INotWord => negb (t_word T c)
  | ISpace => t_space T c | INotSpace => negb (t_space T c)
  end.

Definition cset_mem (T : tables) (cs : cset) (c : Z) : bool :=
  match cs with
  | CAny => negb (c =? 10)
  | CSet neg items => xorb neg (existsb (fun it => citem_mem T it c) items)
  end.

Fixpoint mem_nat (x : nat) (l : list nat) : bool :=
  match l with [] => false | y :: r => Nat.eqb x y || mem_nat x r end.
Fixpoint dedup (l : list nat) : list nat :=
  match l with [] => [] | x :: r => if mem_nat x r then dedup r else x :: dedup r end.

(* iterations of a starred expression: the positions reachable from i by repeating f.  f only moves forward, so one
   scan over the positions k = i, i+1, ... (n of them) that adds f k whenever k has been reached is complete. *)
Fixpoint star_scan (f : nat -> list nat) (n k : nat) (reach : list nat) : list nat :=
  match n with
  | O => reach
  | S n' => star_scan f n' (S k) (if mem_nat k reach then reach ++ f k else reach)
  end.

Definition at_end (s : str) (i : nat) : bool := Nat.eqb i (length s).
Definition before_final_newline (s : str) (i : nat) : bool :=
  Nat.eqb (S i) (length s) && match nth_error s i with Some c => c =? 10 | None => false end.

Fixpoint ends (T : tables) (s : str) (r : re) (i : nat) : list nat :=
  match r with
  | Eps => [i]
  | Chr cs => match nth_error s i with
              | Some c => if cset_mem T cs c then [S i] else []
              | None => []
              end
  | Cat a b => dedup (flat_map (ends T s b) (ends T s a i))
  | Alt a b => dedup (ends T s a i ++ ends T s b i)
  | Star a => dedup (star_scan (ends T s a) (S (length s) - i) i [i])
  | Bol => if Nat.eqb i 0 then [i] else []
  | Eol => if at_end s i || before_final_newline s i then [i] else []
  | EndZ => if at_end s i then [i] else []
  end.

Definition is_nil {A} (l : list A) : bool := match l with [] => true | _ => false end.

(* re.match(r, s) is not None / re.fullmatch(r, s) is not None, for a parsed pattern *)
Definition re_match (T : tables) (r : re) (s : str) : bool := negb (is_nil (ends T s r 0%nat)).
Definition re_fullmatch (T : tables) (r : re) (s : str) : bool := mem_nat (length s) (ends T s r 0%nat).

(* ---------------------------------------------------------------------------------------------- *)
(* parser: a left fold over the characters of the pattern                                          *)
(* ---------------------------------------------------------------------------------------------- *)
(* one alternation level under construction: finished branches, the current branch without its last item,
   and the last item (with a flag: may it still take a quantifier?) *)
Record frame := mkFrame { f_alts : list re; f_acc : re; f_last : option (re * bool) }.

Definition empty_frame : frame := mkFrame [] Eps None.
Definition flush (f : frame) : re :=
  match f_last f with None => f_acc f | Some (l, _) => Cat (f_acc f) l end.
Definition push_item (f : frame) (r : re) (blocked : bool) : frame :=
  mkFrame (f_alts f) (flush f) (Some (r, blocked)).
Fixpoint mkalt (first : re) (rest : list re) : re :=
  match rest with [] => first | x :: rest' => Alt first (mkalt x rest') end.
(* the expression a finished frame stands for *)
Definition frame_re (f : frame) : re :=
  match f_alts f ++ [flush f] with [] => Eps | x :: rest => mkalt x rest end.

Inductive cstate := CStart | CIdle | CHave (c : Z) | CDash (c : Z).

Inductive mode :=
| MNormal
| MEsc                                              (* after a backslash *)
| MGroupOpen                                        (* just after "(" *)
| MGroupQ                                           (* just after "(?" *)
| MClassOpen                                        (* just after "[" *)
| MClass (neg : bool) (items : list citem) (cs : cstate)
| MClassEsc (neg : bool) (items : list citem).      (* after a backslash inside a class *)

Record pstate := mkP { p_mode : mode; p_cur : frame; p_stack : list frame }.
Definition init_state : pstate := mkP MNormal empty_frame [].

Definition is_ascii_punct (c : Z) : bool :=
  ((32 <=? c) && (c <=? 47)) || ((58 <=? c) && (c <=? 64)) || ((91 <=? c) && (c <=? 96)) || ((123 <=? c) && (c <=? 126)).

Definition class_escape (c : Z) : option citem :=
  if c =? 100 then Some IDigit else if c =? 68 then Some INotDigit
  else if c =? 119 then Some IWord else if c =? 87 then Some INotWord
  else if c =? 115 then Some ISpace else if c =? 83 then Some INotSpace
  else None.

Definition with_item (st : pstate) (r : re) (blocked : bool) : option pstate :=
  Some (mkP MNormal (push_item (p_cur st) r blocked) (p_stack st)).

Definition quantify (st : pstate) (q : re -> re) : option pstate :=
  match f_last (p_cur st) with
  | Some (l, false) =>
      Some (mkP MNormal (mkFrame (f_alts (p_cur st)) (f_acc (p_cur st)) (Some (q l, true))) (p_stack st))
  | _ => None            (* nothing to repeat / lazy, possessive or repeated quantifier: outside the subset *)
  end.

Definition step_normal (st : pstate) (c : Z) : option pstate :=
  if c =? 92 then Some (mkP MEsc (p_cur st) (p_stack st))
  else if c =? 91 then Some (mkP MClassOpen (p_cur st) (p_stack st))
  else if c =? 40 then Some (mkP MGroupOpen empty_frame (p_cur st :: p_stack st))
  else if c =? 41 then
    match p_stack st with
    | [] => None
    | parent :: rest => Some (mkP MNormal (push_item parent (frame_re (p_cur st)) false) rest)
    end
  else if c =? 124 then
    Some (mkP MNormal (mkFrame (f_alts (p_cur st) ++ [flush (p_cur st)]) Eps None) (p_stack st))
  else if c =? 42 then quantify st Star
  else if c =? 43 then quantify st Plus
  else if c =? 63 then quantify st Opt
  else if c =? 94 then with_item st Bol true
  else if c =? 36 then with_item st Eol true
  else if c =? 46 then with_item st (Chr CAny) false
  else if (c =? 123) || (c =? 125) then None
  else with_item st (lit c) false.

Definition pending (cs : cstate) : list citem :=
  match cs with CHave a => [ILit a] | CDash a => [ILit a; ILit 45] | _ => [] end.

Definition class_literal (st : pstate) (neg : bool) (items : list citem) (cs : cstate) (c : Z) : option pstate :=
  match cs with
  | CStart | CIdle => Some (mkP (MClass neg items (CHave c)) (p_cur st) (p_stack st))
  | CHave a => Some (mkP (MClass neg (items ++ [ILit a]) (CHave c)) (p_cur st) (p_stack st))
  | CDash a => if a <=? c then Some (mkP (MClass neg (items ++ [IRange a c]) CIdle) (p_cur st) (p_stack st))
               else None
  end.

Definition step_class (st : pstate) (neg : bool) (items : list citem) (cs : cstate) (c : Z) : option pstate :=
  if c =? 93 then
    match cs with
    | CStart => None
    | _ => with_item st (Chr (CSet neg (items ++ pending cs))) false
    end
  else if c =? 92 then
    match cs with
    | CDash _ => None
    | _ => Some (mkP (MClassEsc neg (items ++ pending cs)) (p_cur st) (p_stack st))
    end
  else if c =? 45 then
    match cs with
    | CStart => Some (mkP (MClass neg items (CHave 45)) (p_cur st) (p_stack st))
    | CHave a => Some (mkP (MClass neg items (CDash a)) (p_cur st) (p_stack st))
    | CIdle => Some (mkP (MClass neg (items ++ [ILit 45]) CIdle) (p_cur st) (p_stack st))
                      (* after a range or a class escape a dash is literal ([a-c-e], [\w-]); re rejects [\w-a], we do not *)
    | CDash _ => None
    end
  else if c =? 91 then None
  else class_literal st neg items cs c.

Definition step (st : pstate) (c : Z) : option pstate :=
  match p_mode st with
  | MNormal => step_normal st c
  | MGroupOpen => if c =? 63 then Some (mkP MGroupQ (p_cur st) (p_stack st)) else step_normal st c
  | MGroupQ => if c =? 58 then Some (mkP MNormal (p_cur st) (p_stack st)) else None
  | MEsc =>
      match class_escape c with
      | Some it => with_item st (Chr (CSet false [it])) false
      | None =>
          if c =? 65 then with_item st Bol true
          else if c =? 90 then with_item st EndZ true
          else if is_ascii_punct c then with_item st (lit c) false
          else None
      end
  | MClassOpen =>
      if c =? 94 then Some (mkP (MClass true [] CStart) (p_cur st) (p_stack st))
      else step_class st false [] CStart c
  | MClass neg items cs => step_class st neg items cs c
  | MClassEsc neg items =>
      match class_escape c with
      | Some it => Some (mkP (MClass neg (items ++ [it]) CIdle) (p_cur st) (p_stack st))
      | None => if is_ascii_punct c then Some (mkP (MClass neg items (CHave c)) (p_cur st) (p_stack st)) else None
      end
  end.

Definition step_opt (o : option pstate) (c : Z) : option pstate :=
  match o with Some st => step st c | None => None end.

Definition run (p : str) : option pstate := fold_left step_opt p (Some init_state).

Definition finish (st : pstate) : option re :=
  match p_mode st, p_stack st with
  | MNormal, [] => Some (frame_re (p_cur st))
  | _, _ => None
  end.

Definition parse (p : str) : option re :=
  match run p with Some st => finish st | None => None end.

(* does the pattern have an alternation bar at the top level (outside every group)? *)
Definition top_level_alternation (p : str) : bool :=
  match run p with
  | Some st => match p_stack st, f_alts (p_cur st) with [], [] => false | _, _ => true end
  | None => false
  end.

(* the text-level oracles handed to check_response *)
Definition re_match_text (T : tables) (p s : str) : bool :=
  match parse p with Some r => re_match T r s | None => false end.
Definition re_fullmatch_text (T : tables) (p s : str) : bool :=
  match parse p with Some r => re_fullmatch T r s | None => false end.
Definition pattern_supported (p : str) : bool :=
  match parse p with Some _ => true | None => false end.
