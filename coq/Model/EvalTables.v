(* EvalTables.v -- reference copy of the declarative tables the model was written against: the suffix
   multipliers and default constants of mathfuncs.py and the statements of MathParser.get_grammar in the
   combinator language of Model/ParserGrammar.v.  Gen/EvalTables.v is regenerated from /repo on every run and
   Bridge/EvalTables.v proves the two equal; an edit of the grammar or of a table breaks that bridge.
   No proofs here. *)
From Coq Require Import ZArith QArith List.
From Verif.Model Require Import Result ParserGrammar.
Import ListNotations.
Local Open Scope Z_scope.

Definition ref_default_suffixes : list (str * Q) := [([37], (Qmake 1 100%positive))].
Definition ref_metric_suffixes : list (str * Q) := [([107], (Qmake 1000 1%positive)); ([77], (Qmake 1000000 1%positive)); ([71], (Qmake 1000000000 1%positive)); ([84], (Qmake 1000000000000 1%positive)); ([109], (Qmake 1 1000%positive)); ([117], (Qmake 1 1000000%positive)); ([110], (Qmake 1 1000000000%positive)); ([112], (Qmake 1 1000000000000%positive))].
Definition ref_default_constants : list (str * const_kind) := [([105], CImagUnit); ([106], CImagUnit); ([101], CEuler); ([112;105], CPi)].
Definition ref_grammar : list gstmt :=
  [ SBind [112;108;117;115] (GLit [43])
  ; SBind [101;109;100;97;115;104] (GLit [8212])
  ; SAction [101;109;100;97;115;104] false (AConst [45])
  ; SBind [109;105;110;117;115] (GAlt (GLit [45]) (GRef [101;109;100;97;115;104]))
  ; SBind [112;108;117;115;95;109;105;110;117;115] (GAlt (GRef [112;108;117;115]) (GRef [109;105;110;117;115]))
  ; SBind [110;117;109;98;101;114;95;112;97;114;116] (GWord [CNums] [CNums])
  ; SBind [105;110;110;101;114;95;110;117;109;98;101;114] (GCombine (GAlt (GSeq (GRef [110;117;109;98;101;114;95;112;97;114;116]) (GOpt (GSeq (GLit [46]) (GOpt (GRef [110;117;109;98;101;114;95;112;97;114;116]))))) (GSeq (GLit [46]) (GRef [110;117;109;98;101;114;95;112;97;114;116]))))
  ; SBind [115;117;102;102;105;120] (GWord [CAlphas; (CChars [37])] [CAlphas; (CChars [37])])
  ; SAction [115;117;102;102;105;120] false (AMethod [115;117;102;102;105;120;95;112;97;114;115;101;95;97;99;116;105;111;110])
  ; SBind [110;117;109;98;101;114] (GNamed (GGroup (GSeq (GNamed (GCombine (GSeq (GRef [105;110;110;101;114;95;110;117;109;98;101;114]) (GOpt (GSeq (GSeq (GCaseless [69]) (GOpt (GRef [112;108;117;115;95;109;105;110;117;115]))) (GRef [110;117;109;98;101;114;95;112;97;114;116]))))) [110;117;109]) (GNamed (GOpt (GRef [115;117;102;102;105;120])) [115;117;102;102;105;120]))) [110;117;109;98;101;114])
  ; SBind [102;114;111;110;116] (GWord [CAlphas] [CAlphanums])
  ; SBind [115;117;98;115;99;114;105;112;116;115] (GSeq (GWord [CAlphanums; (CChars [95])] [CAlphanums; (CChars [95])]) (GNot (GFollowedBy (GLit [123]))))
  ; SBind [108;111;119;101;114;95;105;110;100;105;99;101;115] (GSeq (GSeq (GSeq (GLit [95;123]) (GOpt (GLit [45]))) (GWord [CAlphanums] [CAlphanums])) (GLit [125]))
  ; SBind [117;112;112;101;114;95;105;110;100;105;99;101;115] (GSeq (GSeq (GSeq (GLit [94;123]) (GOpt (GLit [45]))) (GWord [CAlphanums] [CAlphanums])) (GLit [125]))
  ; SBind [110;97;109;101] (GCombine (GSeq (GSeq (GRef [102;114;111;110;116]) (GOpt (GAlt (GRef [115;117;98;115;99;114;105;112;116;115]) (GSeq (GOpt (GRef [108;111;119;101;114;95;105;110;100;105;99;101;115])) (GOpt (GRef [117;112;112;101;114;95;105;110;100;105;99;101;115])))))) (GStar (GLit [39]))))
  ; SBind [118;97;114;105;97;98;108;101] (GNamed (GGroup (GNamed (GRef [110;97;109;101]) [118;97;114;110;97;109;101])) [118;97;114;105;97;98;108;101])
  ; SAction [118;97;114;105;97;98;108;101] false (AMethod [118;97;114;105;97;98;108;101;95;112;97;114;115;101;95;97;99;116;105;111;110])
  ; SBind [101;120;112;114;101;115;115;105;111;110] GForward
  ; SBind [102;117;110;99;116;105;111;110] (GNamed (GGroup (GSeq (GSeq (GSeq (GNamed (GRef [110;97;109;101]) [102;117;110;99;110;97;109;101]) (GSuppress (GLit [40]))) (GNamed (GGroup (GDelimited (GRef [101;120;112;114;101;115;115;105;111;110]))) [97;114;103;117;109;101;110;116;115])) (GSuppress (GLit [41])))) [102;117;110;99;116;105;111;110])
  ; SAction [102;117;110;99;116;105;111;110] false (AMethod [102;117;110;99;116;105;111;110;95;112;97;114;115;101;95;97;99;116;105;111;110])
  ; SBind [112;97;114;101;110;116;104;101;115;101;115] (GNamed (GGroup (GSeq (GSeq (GSuppress (GLit [40])) (GRef [101;120;112;114;101;115;115;105;111;110])) (GSuppress (GLit [41])))) [112;97;114;101;110;116;104;101;115;101;115])
  ; SBind [97;114;114;97;121] (GNamed (GGroup (GSeq (GSeq (GSuppress (GLit [91])) (GDelimited (GRef [101;120;112;114;101;115;115;105;111;110]))) (GSuppress (GLit [93])))) [97;114;114;97;121])
  ; SBind [97;116;111;109] (GAlt (GAlt (GAlt (GAlt (GRef [110;117;109;98;101;114]) (GRef [102;117;110;99;116;105;111;110])) (GRef [118;97;114;105;97;98;108;101])) (GRef [112;97;114;101;110;116;104;101;115;101;115])) (GRef [97;114;114;97;121]))
  ; SBind [112;111;119;101;114] (GSeq (GRef [97;116;111;109]) (GStar (GSeq (GSeq (GSuppress (GLit [94])) (GNamed (GOpt (GRef [109;105;110;117;115])) [111;112])) (GRef [97;116;111;109]))))
  ; SAction [112;111;119;101;114] true (AGroupIfMultiple [112;111;119;101;114])
  ; SBind [110;101;103;97;116;105;111;110] (GSeq (GNamed (GOpt (GRef [109;105;110;117;115])) [111;112]) (GRef [112;111;119;101;114]))
  ; SAction [110;101;103;97;116;105;111;110] true (AGroupIfMultiple [110;101;103;97;116;105;111;110])
  ; SBind [112;105;112;101;115] (GSeq (GLit [124]) (GLit [124]))
  ; SBind [112;97;114;97;108;108;101;108] (GSeq (GRef [110;101;103;97;116;105;111;110]) (GStar (GSeq (GSuppress (GRef [112;105;112;101;115])) (GRef [110;101;103;97;116;105;111;110]))))
  ; SAction [112;97;114;97;108;108;101;108] true (AGroupIfMultiple [112;97;114;97;108;108;101;108])
  ; SBind [112;114;111;100;117;99;116] (GSeq (GRef [112;97;114;97;108;108;101;108]) (GStar (GSeq (GNamed (GAlt (GLit [42]) (GLit [47])) [111;112]) (GRef [112;97;114;97;108;108;101;108]))))
  ; SAction [112;114;111;100;117;99;116] true (AGroupIfMultiple [112;114;111;100;117;99;116])
  ; SBind [115;117;109;100;105;102;102] (GSeq (GSeq (GOpt (GRef [112;108;117;115])) (GRef [112;114;111;100;117;99;116])) (GStar (GSeq (GNamed (GRef [112;108;117;115;95;109;105;110;117;115]) [111;112]) (GRef [112;114;111;100;117;99;116]))))
  ; SAction [115;117;109;100;105;102;102] true (AGroupIfMultiple [115;117;109])
  ; SClose [101;120;112;114;101;115;115;105;111;110] [115;117;109;100;105;102;102]
  ; SReturn (GSeq (GRef [101;120;112;114;101;115;115;105;111;110]) GStringEnd) ].

(* the documented precedence table, weakest first: (group name, operator literals incl. the em-dash U+2014) *)
Definition documented_levels : list (str * list str) :=
  [ ([115;117;109], [[43]; [45]; [8212]])                          (* sum       + - *)
  ; ([112;114;111;100;117;99;116], [[42]; [47]])                   (* product   * / *)
  ; ([112;97;114;97;108;108;101;108], [[124;124]])                 (* parallel  || *)
  ; ([110;101;103;97;116;105;111;110], [[45]; [8212]])             (* negation  - *)
  ; ([112;111;119;101;114], [[94]; [45]; [8212]]) ].               (* power     ^ with optional sign *)
