(* Model/MunkresReuse.v -- the solver *instance*: Munkres.compute assigns every working field of the object
   before the first step runs, so a solve never reads what an earlier solve (of any shape) left behind.
   compute_on threads the incoming instance state explicitly, field by field, in the order of the Python
   assignments in Munkres.compute (munkres.py:425-434). *)
From Coq Require Import ZArith List Bool Arith.
From Verif.Model Require Import Munkres.
Import ListNotations.

Record inst := mkInst {
  iC : matrix Z; i_n : nat; i_olen : nat; i_owid : nat;
  i_rc : list bool; i_cc : list bool; i_z0 : nat * nat;
  i_path : list (list nat); i_marked : marks }.

Definition fresh_inst : inst := mkInst [] 0 0 0 [] [] (0, 0) [] [].   (* Munkres.__init__ (C/marked/path None ~ []) *)

Definition reinit (old : inst) (m : matrix Z) : inst :=
  let i1 := mkInst (pad Z 0%Z m) (i_n old) (i_olen old) (i_owid old) (i_rc old) (i_cc old) (i_z0 old) (i_path old) (i_marked old) in
  let i2 := mkInst (iC i1) (length (iC i1)) (i_olen i1) (i_owid i1) (i_rc i1) (i_cc i1) (i_z0 i1) (i_path i1) (i_marked i1) in
  let i3 := mkInst (iC i2) (i_n i2) (length m) (length (hd [] m)) (i_rc i2) (i_cc i2) (i_z0 i2) (i_path i2) (i_marked i2) in
  let i4 := mkInst (iC i3) (i_n i3) (i_olen i3) (i_owid i3) (repeat false (i_n i3)) (repeat false (i_n i3)) (0, 0) (i_path i3) (i_marked i3) in
  mkInst (iC i4) (i_n i4) (i_olen i4) (i_owid i4) (i_rc i4) (i_cc i4) (i_z0 i4)
         (repeat (repeat 0 (2 * i_n i4)) (2 * i_n i4)) (repeat (repeat 0 (i_n i4)) (i_n i4)).

(* run the step loop on the instance's fields and write the final working state back *)
Definition compute_on (old : inst) (m : matrix Z) : inst * option (list (nat * nat)) :=
  let i := reinit old m in
  let s0 := mkState Z (iC i) (i_marked i) (i_rc i) (i_cc i) (i_z0 i) in
  match drive Z 0%Z Z.add Z.sub Z.ltb Z.eqb zmaxsize (fuel_for (i_n i)) (i_n i) s0 1 [] with
  | None => (i, None)
  | Some (s, _) =>
      (mkInst (sC Z s) (i_n i) (i_olen i) (i_owid i) (sRC Z s) (sCC Z s) (sZ0 Z s) (i_path i) (sM Z s),
       Some (read_result (i_olen i) (i_owid i) (sM Z s)))
  end.

(* a history of solves on one instance *)
Fixpoint solve_all (i : inst) (ms : list (matrix Z)) : list (option (list (nat * nat))) :=
  match ms with
  | [] => []
  | m :: rest => let (i', r) := compute_on i m in r :: solve_all i' rest
  end.
