(* Model/MathFuncs.v -- hand-written model of mitxgraders/helpers/calc/mathfuncs.py (derived functions and function
   tables), of SpecifyDomain.make_decorator's wrapper (specify_domain.py), of MathExpression.eval_function's arity
   check and exception recasting, and of the numpy error state (expressions.py).  No proofs here.
   The definitions of part 1/2 have the same shape as the regenerated Gen/MathFuncs.v; Bridge/MathFuncs.v proves
   them equal. *)
From Coq Require Import ZArith QArith List String Bool Arith.
From Verif.Lib Require Import MathFuncsBase.
Import ListNotations.
Open Scope string_scope.
Open Scope bool_scope.

(* ------------------------------------------------------------------------------------------------------------ *)
(* 1. derived functions over an arbitrary interpretation P of the numpy primitives                               *)
(* ------------------------------------------------------------------------------------------------------------ *)
Section Defs.
  Context {V : Type} (P : prims V).
  Let one := p_num P (1 # 1).
  Let zero := p_num P (0 # 1).
  Let two := p_num P (2 # 1).

  Definition sec (x : V) : V := p_div P one (p_cos P x).
  Definition csc (x : V) : V := p_div P one (p_sin P x).
  Definition cot (x : V) : V := p_div P one (p_tan P x).
  Definition arcsec (x : V) : V := p_arccos P (p_div P one x).
  Definition arccsc (x : V) : V := p_arcsin P (p_div P one x).
  Definition arccot (x : V) : V :=
    if p_ltb P (p_real P x) zero
    then p_sub P (p_div P (p_neg P (p_pi P)) two) (p_arctan P x)
    else p_sub P (p_div P (p_pi P) two) (p_arctan P x).
  Definition sech (x : V) : V := p_div P one (p_cosh P x).
  Definition csch (x : V) : V := p_div P one (p_sinh P x).
  Definition coth (x : V) : V := p_div P one (p_tanh P x).
  Definition arcsech (x : V) : V := p_arccosh P (p_div P one x).
  Definition arccsch (x : V) : V := p_arcsinh P (p_div P one x).
  Definition arccoth (x : V) : V := p_arctanh P (p_div P one x).

  (* arctan2(x, y): documented argument order (abscissa first); numpy's arctan2 takes the ordinate first *)
  Definition arctan2 (x y : V) : outcome V :=
    if p_eqb P x zero && p_eqb P y zero then Raise XFunctionEvalError else Val (p_arctan2 P y x).

  Definition kronecker (x y : V) : V := if p_eqb P x y then one else zero.

  Definition real (z : V) : V := p_real P z.
  Definition imag (z : V) : V := p_imag P z.

  Definition cross (a b : nat -> V) : list V :=
    [ p_sub P (p_mul P (a 1%nat) (b 2%nat)) (p_mul P (b 1%nat) (a 2%nat));
      p_sub P (p_mul P (a 2%nat) (b 0%nat)) (p_mul P (b 2%nat) (a 0%nat));
      p_sub P (p_mul P (a 0%nat) (b 1%nat)) (p_mul P (b 0%nat) (a 1%nat)) ].

  Definition array_abs (obj : V) : outcome V :=
    if p_ndim_gtb P obj 1%nat then Raise XFunctionEvalError else Val (p_norm P obj).

  Definition ctrans (x : V) : V := p_conj P (p_transpose P x).
End Defs.

(* ------------------------------------------------------------------------------------------------------------ *)
(* 2. the function tables                                                                                        *)
(* ------------------------------------------------------------------------------------------------------------ *)
Definition plain (t : target) : fentry := mkF t None.
Definition scalar1 (k : string) (t : target) : string * fentry := (k, mkF t (Some (mkSpec [ShScalar] None (Some k)))).

Definition elementwise : list (string * target) :=
  [ ("sin", TNp "sin"); ("cos", TNp "cos"); ("tan", TNp "tan");
    ("sec", TLocal "sec"); ("csc", TLocal "csc"); ("cot", TLocal "cot");
    ("sqrt", TScimath "sqrt"); ("log10", TScimath "log10"); ("log2", TScimath "log2"); ("ln", TScimath "log");
    ("exp", TNp "exp");
    ("arccos", TScimath "arccos"); ("arcsin", TScimath "arcsin"); ("arctan", TNp "arctan");
    ("arcsec", TLocal "arcsec"); ("arccsc", TLocal "arccsc"); ("arccot", TLocal "arccot");
    ("abs", TNp "abs"); ("fact", TLocal "factorial"); ("factorial", TLocal "factorial");
    ("sinh", TNp "sinh"); ("cosh", TNp "cosh"); ("tanh", TNp "tanh");
    ("sech", TLocal "sech"); ("csch", TLocal "csch"); ("coth", TLocal "coth");
    ("arcsinh", TNp "arcsinh"); ("arccosh", TNp "arccosh"); ("arctanh", TScimath "arctanh");
    ("arcsech", TLocal "arcsech"); ("arccsch", TLocal "arccsch"); ("arccoth", TLocal "arccoth");
    ("floor", TNp "floor"); ("ceil", TNp "ceil") ].

Definition two_scalars : domspec := mkSpec [ShScalar; ShScalar] None None.
Definition at_least_two_scalars (k : string) : domspec := mkSpec [ShScalar] (Some 2%nat) (Some k).
Definition one_square (k : string) : domspec := mkSpec [ShSquare] None (Some k).

Definition scalar_functions : table :=
  (map (fun kv => scalar1 (fst kv) (snd kv)) elementwise
  ++ [ ("arctan2", mkF (TLocal "arctan2") (Some two_scalars)); ("kronecker", mkF (TLocal "kronecker") (Some two_scalars)) ])%list.

Definition multi_scalar_functions : table :=
  [ ("min", mkF (TBuiltin "min") (Some (at_least_two_scalars "min")));
    ("max", mkF (TBuiltin "max") (Some (at_least_two_scalars "max"))) ].

Definition array_functions : table :=
  [ ("re", plain (TLocal "real")); ("im", plain (TLocal "imag")); ("conj", plain (TNp "conj")) ].

Definition array_only_functions : table :=
  [ ("norm", plain (TLinalg "norm")); ("abs", plain (TLocal "array_abs")); ("trans", plain (TNp "transpose"));
    ("det", mkF (TLinalg "det") (Some (one_square "det"))); ("trace", mkF (TNp "trace") (Some (one_square "trace")));
    ("ctrans", plain (TLambda "ctrans")); ("adj", plain (TLambda "adj"));
    ("cross", mkF (TLocal "cross") (Some (mkSpec [ShVector 3; ShVector 3] None None))) ].

(* DEFAULT_FUNCTIONS (FormulaGrader, NumericalGrader) and MatrixGrader.default_functions *)
Definition default_functions : table := (scalar_functions ++ multi_scalar_functions ++ array_functions)%list.
Definition matrix_functions : table := (default_functions ++ array_only_functions)%list.

Definition default_variables : list (string * constant) :=
  [ ("i", KComplex 0 1); ("j", KComplex 0 1); ("e", KNpE); ("pi", KNpPi) ].

(* ------------------------------------------------------------------------------------------------------------ *)
(* 3. SpecifyDomain.make_decorator: argument-count and shape validation                                          *)
(* ------------------------------------------------------------------------------------------------------------ *)
(* what the validators look at: a Python number, or a MathArray with the given numpy shape *)
Inductive argshape := ANumber | AArray (dims : list nat).

Definition size (dims : list nat) : nat := fold_right Nat.mul 1%nat dims.

Fixpoint dims_eqb (a b : list nat) : bool :=
  match a, b with
  | [], [] => true
  | x :: a', y :: b' => Nat.eqb x y && dims_eqb a' b'
  | _, _ => false
  end.

(* has_shape(shape)(obj) succeeds?  (number_validator for (1,), make_shape_validator otherwise) *)
Definition shape_ok (s : shape) (a : argshape) : bool :=
  match s, a with
  | ShScalar, ANumber => true
  | ShScalar, AArray d => Nat.eqb (size d) 1            (* is_numberlike_array: MathArray with one item *)
  | ShVector n, AArray d => dims_eqb d [n]
  | ShArray ds, AArray d => dims_eqb d ds
  | ShSquare, AArray [r; c] => Nat.eqb r c               (* is_square: ndim == 2 and rows == cols *)
  | _, _ => false
  end.

Inductive verdict :=
| VCall                                                 (* the decorated function is called *)
| VArity (expected : nat) (at_least : bool) (received : nat)    (* ArgumentError *)
| VShape (ok : list bool).                              (* ArgumentShapeError; one flag per argument, true = "is ok" *)

Fixpoint zip_ok (ss : list shape) (args : list argshape) : list bool :=
  match ss, args with
  | s :: ss', a :: args' => shape_ok s a :: zip_ok ss' args'
  | _, _ => []
  end.

Definition validate (sp : domspec) (args : list argshape) : verdict :=
  let n := List.length args in
  match ds_min sp with
  | Some m =>
      if Nat.ltb n m then VArity m true n
      else let flags := zip_ok (repeat (hd ShScalar (ds_shapes sp)) n) args in
           if forallb (fun b => b) flags then VCall else VShape flags
  | None =>
      if negb (Nat.eqb (List.length (ds_shapes sp)) n) then VArity (List.length (ds_shapes sp)) false n
      else let flags := zip_ok (ds_shapes sp) args in
           if forallb (fun b => b) flags then VCall else VShape flags
  end.

(* the shape expected at each position of a call with n arguments *)
Definition expected_shapes (sp : domspec) (n : nat) : list shape :=
  match ds_min sp with Some _ => repeat (hd ShScalar (ds_shapes sp)) n | None => ds_shapes sp end.

(* the values the validators return: number_validator turns a number-like (one-element) array into the number it
   holds (item = obj.item(), the identity on numbers); the shape validators return their argument *)
Fixpoint coerce {V : Type} (item : V -> V) (ss : list shape) (args : list V) : list V :=
  match ss, args with
  | s :: ss', a :: args' => match s with ShScalar => item a | _ => a end :: coerce item ss' args'
  | _, _ => []
  end.

(* the decorated callable: the function is called on the validated values *)
Definition wrap {V : Type} (sp : domspec) (shape_of : V -> argshape) (item : V -> V) (f : list V -> outcome V)
           (args : list V) : outcome V :=
  match validate sp (map shape_of args) with
  | VCall => f (coerce item (expected_shapes sp (List.length args)) args)
  | VArity _ _ _ => Raise XArgumentError
  | VShape _ => Raise XArgumentShapeError
  end.

(* ------------------------------------------------------------------------------------------------------------ *)
(* 4. MathExpression.eval_function: arity check for unvalidated callables, recasting of failures                 *)
(* ------------------------------------------------------------------------------------------------------------ *)
(* isinstance(e, cls) for the classes that occur as handler types *)
Definition isinstance (e : pyexc) (cls : string) : bool :=
  if cls =? "Exception" then true
  else if cls =? "StudentFacingError" then student_facing e
  else if cls =? "ZeroDivisionError" then match e with XZeroDivisionError => true | _ => false end
  else if cls =? "OverflowError" then match e with XOverflowError => true | _ => false end
  else if cls =? "ValueError" then match e with XValueError => true | _ => false end
  else if cls =? "TypeError" then match e with XTypeError => true | _ => false end
  else false.

Fixpoint handle (hs : handlers) (e : pyexc) : pyexc :=
  match hs with
  | [] => e                                             (* no handler matches: the exception escapes as it is *)
  | (cls, act) :: r => if isinstance e cls then match act with None => e | Some e' => e' end else handle r e
  end.

(* validated: the callable has a truthy `validated` attribute; nargs: get_number_of_args(func) (oracle) *)
Definition eval_function {V : Type} (hs : handlers) (arity_exc : pyexc) (validated : bool) (nargs : nat)
           (f : list V -> outcome V) (args : list V) : outcome V :=
  if negb validated && negb (Nat.eqb nargs (List.length args)) then Raise arity_exc
  else match f args with Val v => Val v | Raise e => Raise (handle hs e) end.

Definition eval_function_handlers : handlers :=
  [ ("StudentFacingError", None); ("ZeroDivisionError", Some XCalcZeroDivisionError);
    ("OverflowError", Some XCalcOverflowError); ("Exception", Some XFunctionEvalError) ].

(* a call of a table entry through the evaluator *)
Definition call_entry {V : Type} (hs : handlers) (arity_exc : pyexc) (e : fentry) (shape_of : V -> argshape)
           (item : V -> V) (nargs : nat) (raw : list V -> outcome V) (args : list V) : outcome V :=
  match fe_spec e with
  | Some sp => eval_function hs arity_exc true 0 (wrap sp shape_of item raw) args
  | None => eval_function hs arity_exc false nargs raw args
  end.

(* ------------------------------------------------------------------------------------------------------------ *)
(* 5. numpy floating-point error state                                                                           *)
(* ------------------------------------------------------------------------------------------------------------ *)
Inductive fpkind := FPDivide | FPOver | FPUnder | FPInvalid.

(* np.seterr keyword and the text numpy passes to the callback ("<text> encountered in <ufunc>") *)
Definition fp_key (k : fpkind) : string :=
  match k with FPDivide => "divide" | FPOver => "over" | FPUnder => "under" | FPInvalid => "invalid" end.
Definition fp_message (k : fpkind) : string :=
  match k with FPDivide => "divide by zero" | FPOver => "overflow" | FPUnder => "underflow" | FPInvalid => "invalid value" end.

Fixpoint prefixb (p s : string) : bool :=
  match p, s with
  | EmptyString, _ => true
  | String a p', String b s' => Ascii.eqb a b && prefixb p' s'
  | _, _ => false
  end.
Fixpoint substringb (p s : string) : bool :=
  prefixb p s || match s with EmptyString => false | String _ s' => substringb p s' end.

Fixpoint assoc (l : list (string * string)) (k : string) : option string :=
  match l with [] => None | (k', v) :: r => if k =? k' then Some v else assoc r k end.

Fixpoint np_callback (h : list (string * pyexc)) (dflt : pyexc) (msg : string) : pyexc :=
  match h with [] => dflt | (frag, e) :: r => if substringb frag msg then e else np_callback r dflt msg end.

(* what a floating-point event of kind k does under the configured state: Some e = the Python exception raised
   inside the ufunc call, None = the event is ignored (or only warned about) and nan/inf flows on *)
Definition fp_event (seterr : list (string * string)) (installed : bool) (h : list (string * pyexc)) (dflt : pyexc)
           (k : fpkind) : option pyexc :=
  match assoc seterr (fp_key k) with
  | Some mode => if (mode =? "call") && installed then Some (np_callback h dflt (fp_message k))
                 else if mode =? "raise" then Some XException        (* FloatingPointError *)
                 else None
  | None => None                                         (* numpy default: warn (divide/over/invalid), ignore (under) *)
  end.
