(* ParserGrammar.v -- the combinator language in which translate/evaltables.py re-expresses the body of
   MathParser.get_grammar (tie A for C03), the reference copy of that grammar which Model/Lexer.v and
   Model/Parser.v were written against, and the precedence chain read off a grammar term.  No proofs here. *)
From Coq Require Import ZArith QArith List Bool.
From Verif.Model Require Import Result.
Import ListNotations.
Local Open Scope Z_scope.

Inductive cclass := CNums | CAlphas | CAlphanums | CChars (s : str).

Inductive gx :=
| GRef (n : str)                       (* an earlier binding of get_grammar *)
| GLit (s : str)                       (* Literal("...") / a bare string *)
| GCaseless (s : str)                  (* CaselessLiteral *)
| GWord (init body : list cclass)      (* Word(init[, body]) *)
| GSeq (a b : gx)                      (* a + b *)
| GAlt (a b : gx)                      (* a | b   (ordered choice) *)
| GNot (a : gx)                        (* ~a *)
| GOpt (a : gx) | GStar (a : gx) | GSuppress (a : gx) | GGroup (a : gx) | GCombine (a : gx)
| GFollowedBy (a : gx) | GDelimited (a : gx)
| GNamed (a : gx) (n : str)            (* a("name") *)
| GForward | GStringEnd.

Inductive gaction := AMethod (n : str) | AGroupIfMultiple (n : str) | AConst (s : str).

Inductive gstmt :=
| SBind (n : str) (g : gx)                            (* n = g *)
| SAction (target : str) (add : bool) (a : gaction)   (* target.setParseAction / addParseAction *)
| SClose (fwd target : str)                           (* fwd << target *)
| SReturn (g : gx).

Inductive const_kind := CImagUnit | CEuler | CPi.

(* ---------- reading the precedence chain off a grammar ---------- *)
Fixpoint lookup (l : list gstmt) (n : str) : option gx :=
  match l with
  | [] => None
  | SBind m g :: r => if str_eqb m n then Some g else lookup r n
  | _ :: r => lookup r n
  end.

Fixpoint group_name (l : list gstmt) (n : str) : option str :=
  match l with
  | [] => None
  | SAction t _ (AGroupIfMultiple g) :: r => if str_eqb t n then Some g else group_name r n
  | _ :: r => group_name r n
  end.

Fixpoint closes (l : list gstmt) (n : str) : option str :=
  match l with
  | [] => None
  | SClose f t :: r => if str_eqb f n then Some t else closes r n
  | _ :: r => closes r n
  end.

(* literals that occur in an operator position of g (resolving references one level, for 'pipes', 'minus', ...) *)
Fixpoint lits (l : list gstmt) (fuel : nat) (g : gx) : list str :=
  match fuel with
  | O => []
  | S f =>
      match g with
      | GLit s => [s]
      | GRef n => match lookup l n with Some g' => lits l f g' | None => [] end
      | GSeq a b => match lits l f a, lits l f b with
                    | [x], [y] => [x ++ y]          (* Literal('|') + Literal('|') *)
                    | x, y => x ++ y
                    end
      | GAlt a b => lits l f a ++ lits l f b
      | GOpt a | GSuppress a | GNamed a _ => lits l f a
      | _ => []
      end
  end.

(* a level has the shape  [prefix] operand { op operand }  or  [prefix] operand ; returns (operators, operand name) *)
Definition level_shape (l : list gstmt) (g : gx) : option (list str * str) :=
  match g with
  | GSeq (GRef operand) (GStar (GSeq ops (GRef operand'))) =>
      if str_eqb operand operand' then Some (lits l 10 ops, operand) else None
  | GSeq (GSeq (GOpt _) (GRef operand)) (GStar (GSeq ops (GRef operand'))) =>
      if str_eqb operand operand' then Some (lits l 10 ops, operand) else None
  | GSeq pre (GRef operand) => Some (lits l 10 pre, operand)
  | _ => None
  end.

(* follow  return <start> + stringEnd ; start << top ; top -> ... -> atom *)
Fixpoint chain (l : list gstmt) (fuel : nat) (n : str) : list (str * list str) :=
  match fuel with
  | O => []
  | S f =>
      match lookup l n, group_name l n with
      | Some g, Some gname =>
          match level_shape l g with
          | Some (ops, operand) => (gname, ops) :: chain l f operand
          | None => []
          end
      | _, _ => []
      end
  end.

Definition precedence_chain (l : list gstmt) : list (str * list str) :=
  match (fix ret (l' : list gstmt) : option str :=
           match l' with
           | [] => None
           | SReturn (GSeq (GRef s) GStringEnd) :: _ => Some s
           | _ :: r => ret r
           end) l with
  | Some start => match closes l start with
                  | Some top => chain l 8 top
                  | None => []
                  end
  | None => []
  end.
