(* Result.v -- shared vocabulary for grading results (DESIGN 2.4) *)
From Coq Require Import ZArith QArith List Bool.
From Verif.Lib Require Import QRound.
Import ListNotations.
Open Scope Q_scope.

Inductive okv := OkTrue | OkFalse | OkPartial.

Definition okv_eqb (a b : okv) : bool :=
  match a, b with OkTrue, OkTrue | OkFalse, OkFalse | OkPartial, OkPartial => true | _, _ => false end.

Definition str := list Z.           (* a Python str as its list of code points *)

Record entry := mkEntry { e_ok : okv; e_grade : Q; e_msg : str }.

(* baseclasses.AbstractGrader.grade_decimal_to_ok:  {0: False, 1: True}.get(grade, 'partial') *)
Definition grade_to_ok (g : Q) : okv :=
  if Qeq_bool g 0 then OkFalse else if Qeq_bool g 1 then OkTrue else OkPartial.

Fixpoint str_eqb (a b : str) : bool :=
  match a, b with
  | [], [] => true
  | x :: a', y :: b' => Z.eqb x y && str_eqb a' b'
  | _, _ => false
  end.

Lemma str_eqb_eq : forall a b, str_eqb a b = true <-> a = b.
Proof.
  induction a as [|x a IH]; destruct b as [|y b]; simpl; split; intro H; try discriminate; try reflexivity.
  - apply andb_true_iff in H. destruct H as [H1 H2]. apply Z.eqb_eq in H1. apply IH in H2. subst. reflexivity.
  - inversion H; subst. rewrite Z.eqb_refl. simpl. apply IH. reflexivity.
Qed.
