(* Tolerance.v -- hand-written executable model of the tolerance decision and of sample counting (C04):
     mitxgraders/helpers/calc/mathfuncs.py      within_tolerance, percentage_as_number
     mitxgraders/comparers/comparers.py         EqualityComparer.__call__ (argument order)
     mitxgraders/helpers/math_helpers.py        MathMixin.consolidate_results, compare_evaluations
     mitxgraders/formulagrader/formulagrader.py raw_check (credit multiplication)
   No proofs here.  within_tolerance / percentage_as_number / consolidate_results have the same shape as the
   definitions regenerated from the source (Gen/Tolerance.v); Bridge/Tolerance.v proves them equal.

   Numbers are exact: reals and complex numbers are Gaussian rationals, arrays are row-major lists of
   Gaussian rationals with a shape, +-inf are tags.  Norms are never computed: a norm-valued quantity is
   kept as (sign, square) and compared on squares, which is exact.  NaN is outside the model. *)
From Coq Require Import ZArith QArith Qabs List Bool.
From Verif.Lib Require Import QRound.
From Verif.Model Require Import Result.
Import ListNotations.
Open Scope Q_scope.

(* ---------- values handed to the comparer ---------- *)
Definition cq := (Q * Q)%type.                       (* re, im *)
(* Qred only normalises the representation (Qred q == q); it keeps the numerals small under vm_compute *)
Definition cq_sub (a b : cq) : cq := (Qred (fst a - fst b), Qred (snd a - snd b)).
Definition cq_neg (a : cq) : cq := (- fst a, - snd a).
Definition cq_n2 (a : cq) : Q := Qred (fst a * fst a + snd a * snd a).       (* |a|^2 *)
Definition cq_eqb (a b : cq) : bool := Qeq_bool (fst a) (fst b) && Qeq_bool (snd a) (snd b).

Inductive value :=
| VNum (c : cq)                          (* a finite Python/numpy number (float, complex) *)
| VInf (positive : bool)                 (* float('inf') / -float('inf') *)
| VArr (shape : list Z) (es : list cq).  (* a MathArray with finite entries, row-major *)

Fixpoint shape_eqb (a b : list Z) : bool :=
  match a, b with
  | [], [] => true
  | x :: a', y :: b' => Z.eqb x y && shape_eqb a' b'
  | _, _ => false
  end.

Fixpoint cqs_sub (a b : list cq) : option (list cq) :=
  match a, b with
  | [], [] => Some []
  | x :: a', y :: b' => match cqs_sub a' b' with Some r => Some (cq_sub x y :: r) | None => None end
  | _, _ => None
  end.

Fixpoint cqs_n2 (l : list cq) : Q :=
  match l with [] => 0 | x :: r => Qred (cq_n2 x + cqs_n2 r) end.

Fixpoint cqs_eqb (a b : list cq) : bool :=
  match a, b with
  | [], [] => true
  | x :: a', y :: b' => cq_eqb x y && cqs_eqb a' b'
  | _, _ => false
  end.

(* isinstance(x, Number) *)
Definition v_is_number (x : value) : bool := match x with VArr _ _ => false | _ => true end.
Definition v_pinf : value := VInf true.
Definition v_neg (x : value) : value :=
  match x with
  | VNum c => VNum (cq_neg c)
  | VInf p => VInf (negb p)
  | VArr s es => VArr s (map cq_neg es)
  end.
(* Python == between numbers (an array operand is outside the model: see ASSUMPTIONS of the harness) *)
Definition v_eqb (x y : value) : bool :=
  match x, y with
  | VNum a, VNum b => cq_eqb a b
  | VInf p, VInf q => Bool.eqb p q
  | VArr s a, VArr s' b => shape_eqb s s' && cqs_eqb a b
  | _, _ => false
  end.
(* x - y : None = the subtraction raises (shape mismatch, scalar with array) or is not finite *)
Definition v_sub (x y : value) : option value :=
  match x, y with
  | VNum a, VNum b => Some (VNum (cq_sub a b))
  | VArr s a, VArr s' b =>
      if shape_eqb s s' then match cqs_sub a b with Some d => Some (VArr s d) | None => None end else None
  | _, _ => None
  end.
(* squared Frobenius / absolute-value norm *)
Definition v_norm2 (x : value) : Q :=
  match x with
  | VNum c => cq_n2 c
  | VInf _ => 0
  | VArr _ es => cqs_n2 es
  end.

(* ---------- norm-valued quantities: the real number  (if neg then -1 else 1) * sqrt(sq) ---------- *)
Record nval := mkN { n_neg : bool; n_sq : Q }.
Definition n_norm (x : value) : nval := mkN false (v_norm2 x).
Definition n_const (q : Q) : nval := mkN (Qltb q 0) (q * q).
Definition n_mul (a b : nval) : nval := mkN (xorb (n_neg a) (n_neg b)) (n_sq a * n_sq b).
Definition n_le (a b : nval) : bool :=
  match n_neg a, n_neg b with
  | false, false => Qle_bool (n_sq a) (n_sq b)
  | true, true => Qle_bool (n_sq b) (n_sq a)
  | true, false => true
  | false, true => Qeq_bool (n_sq a) 0 && Qeq_bool (n_sq b) 0
  end.
Definition n_lt (a b : nval) : bool := negb (n_le b a).

(* the `tolerance` argument: a validated PercentageString "p%" (p = float(text before %)) or a number *)
Inductive tolx := XStr (p : Q) | XNum (n : nval).
Definition t_is_str (t : tolx) : bool := match t with XStr _ => true | XNum _ => false end.
Definition t_abs (t : Q) : tolx := XNum (n_const t).
(* float(percent_str.strip()[:-1]) *)
Definition n_pct_float (t : tolx) : nval := match t with XStr p => n_const p | XNum _ => n_const 0 end.
Definition n_of_tolx (t : tolx) : nval := match t with XNum n => n | XStr _ => n_const 0 end.

Definition obind {A B} (o : option A) (f : A -> option B) : option B :=
  match o with Some a => f a | None => None end.

(* ---------- mathfuncs.percentage_as_number / within_tolerance ---------- *)
Definition percentage_as_number (percent_str : tolx) : nval :=
  n_mul (n_pct_float percent_str) (n_const (1 # 100)).

Definition within_tolerance (x y : value) (tolerance : tolx) : option bool :=
  let inf := v_pinf in
  if v_is_number x && (v_eqb x inf || v_eqb y inf || v_eqb x (v_neg inf) || v_eqb y (v_neg inf))
  then Some (v_eqb x y)
  else
    let tolerance := if t_is_str tolerance
                     then XNum (n_mul (n_norm x) (percentage_as_number tolerance)) else tolerance in
    obind (v_sub x y) (fun difference => Some (n_le (n_norm difference) (n_of_tolx tolerance))).

(* ---------- loops with early return (used by the regenerated consolidate_results too) ---------- *)
Inductive step (S R : Type) := Continue (s : S) | Return (r : R).
Arguments Continue {S R} s.
Arguments Return {S R} r.
Fixpoint for_loop {A S R : Type} (body : A -> S -> step S R) (l : list A) (s : S) : S + R :=
  match l with
  | [] => inl s
  | x :: r => match body x s with Continue s' => for_loop body r s' | Return v => inr v end
  end.

Definition entry_prune (e : entry) : entry := mkEntry (e_ok e) (e_grade e) (e_msg e).
Definition o_default {A} (d : A) (o : option A) : A := match o with Some a => a | None => d end.
Definition zlen {A} (l : list A) : Z := Z.of_nat (length l).

(* ---------- MathMixin.consolidate_results ---------- *)
Definition consolidate_results (results : list entry) (answer : option entry) (failable_evals : Z) : entry :=
  let answer := o_default (mkEntry OkTrue 1 []) answer in
  let pruned_answer := entry_prune answer in
  let num_failures := 0%Z in
  match for_loop (fun result num_failures =>
                    if negb (okv_eqb (e_ok result) OkTrue) then
                      let num_failures := (num_failures + 1)%Z in
                      if (zlen results =? 1)%Z || (failable_evals <? num_failures)%Z
                      then Return result else Continue num_failures
                    else Continue num_failures) results num_failures with
  | inr r => r
  | inl num_failures => pruned_answer
  end.

(* ---------- EqualityComparer.__call__ with the default (identity) transform, then
              ItemGrader.standardize_cfn_return of the boolean ---------- *)
Definition equality_call (within : value -> value -> option bool) (comparer_params_eval : list value)
           (student_eval : value) : option bool :=
  match comparer_params_eval with
  | expected_eval :: _ => within expected_eval student_eval     (* (expected, student), in that order *)
  | [] => None
  end.

Definition standardize_bool (b : bool) : entry :=
  if b then mkEntry OkTrue 1 [] else mkEntry OkFalse 0 [].

(* one sample: (evaluated comparer_params, evaluated student input) *)
Definition sample := (list value * value)%type.

Fixpoint compare_evaluations (within : value -> value -> option bool) (evs : list sample) : option (list entry) :=
  match evs with
  | [] => Some []
  | (ps, s) :: r =>
      obind (equality_call within ps s) (fun b =>
      obind (compare_evaluations within r) (fun rs => Some (standardize_bool b :: rs)))
  end.

(* result['grade_decimal'] *= answer['grade_decimal'] *)
Definition scale_result (answer : entry) (r : entry) : entry :=
  mkEntry (e_ok r) (e_grade r * e_grade answer) (e_msg r).

(* FormulaGrader.raw_check after evaluation: parameterised by the two regenerated/hand-written pieces *)
Definition raw_check_with (wt : value -> value -> tolx -> option bool)
           (cons : list entry -> option entry -> Z -> entry)
           (tolerance : tolx) (failable_evals : Z) (answer : entry) (evs : list sample) : option entry :=
  obind (compare_evaluations (fun x y => wt x y tolerance) evs) (fun results =>
    Some (cons (map (scale_result answer) results) (Some answer) failable_evals)).

Definition raw_check := raw_check_with within_tolerance consolidate_results.

(* ---------- vocabulary for specifications (used by Proofs and by the case files) ---------- *)
(* the squared tolerance actually applied to a comparison whose expected value is x *)
Definition tol_sq (tolerance : tolx) (x : value) : Q :=
  match tolerance with
  | XStr p => v_norm2 x * (p * p * ((1 # 100) * (1 # 100)))
  | XNum n => n_sq n
  end.
Definition tol_neg (tolerance : tolx) : bool :=
  match tolerance with
  | XStr p => Qltb p 0
  | XNum n => n_neg n
  end.
Definition v_finite (x : value) : bool := match x with VInf _ => false | _ => true end.
