(* Model/Comparers.v -- executable model of mitxgraders/comparers/{comparers,linear_comparer}.py, of
   within_tolerance / is_nearly_zero (helpers/calc/mathfuncs.py) and of the shape-mismatch policy of
   MatrixGrader (formulagrader/matrixgrader.py).  No proofs here.

   Numbers: Gaussian rationals (Q * Q).  Norm comparisons are decided on squares, so no square root
   is modelled:  norm(d) <= t   <->   0 <= t /\ |d|^2 <= t^2.
   numpy.linalg.lstsq is an ORACLE.  vector_span_comparer reads the returned coefficients (argument
   `lstsq : columns -> rhs -> coefficients`; the documented contract is that they minimise |rhs - A c|,
   i.e. dist2 rhs (lincomb c columns) == cres2 columns rhs); LinearComparer reads the `residuals` field,
   for which `lstsq_spec` states what numpy documents ("sum of squared residuals; empty if rank < N or
   M <= N"), computed exactly by Gram-Schmidt. *)
From Coq Require Import ZArith QArith Qround Qabs List Bool.
From Verif.Lib Require Import QRound.
From Verif.Model Require Import Result.
Import ListNotations.
Open Scope Q_scope.

(* ------------------------------------------------------------------------------------------ *)
(* complex numbers and vectors                                                                  *)
(* ------------------------------------------------------------------------------------------ *)
Definition C := (Q * Q)%type.
Definition cre (z : C) : Q := fst z.
Definition cim (z : C) : Q := snd z.
Definition cadd (z w : C) : C := (Qred (fst z + fst w), Qred (snd z + snd w)).
Definition csub (z w : C) : C := (Qred (fst z - fst w), Qred (snd z - snd w)).
Definition cmul (z w : C) : C :=
  (Qred (fst z * fst w - snd z * snd w), Qred (fst z * snd w + snd z * fst w)).
Definition cabs2 (z : C) : Q := Qred (fst z * fst z + snd z * snd z).
Definition cJ (z : C) : C := (- snd z, fst z).                       (* i * z *)
Definition crs (k : Q) (z : C) : C := (Qred (k * fst z), Qred (k * snd z)).   (* real scalar * z *)
Definition czero (z : C) : bool := Qeq_bool (fst z) 0 && Qeq_bool (snd z) 0.

Definition cvec := list C.

(* real inner product of C^n seen as R^2n = real part of the hermitian product; missing entries = 0 *)
Fixpoint rdot (a b : cvec) : Q :=
  match a, b with
  | x :: a', y :: b' => Qred (fst x * fst y + snd x * snd y + rdot a' b')
  | _, _ => 0
  end.
Fixpoint vadd (a b : cvec) : cvec :=
  match a, b with
  | [], _ => b
  | _, [] => a
  | x :: a', y :: b' => cadd x y :: vadd a' b'
  end.
Definition vscale (k : Q) (a : cvec) : cvec := map (crs k) a.
Definition vJ (a : cvec) : cvec := map cJ a.
Definition vsub (a b : cvec) : cvec := vadd a (vscale (-1) b).
Definition cvscale (c : C) (a : cvec) : cvec := map (cmul c) a.       (* complex scalar * vector *)
Definition norm2 (a : cvec) : Q := rdot a a.
Definition dist2 (a b : cvec) : Q := norm2 (vsub a b).
Definition vzero (a : cvec) : bool := forallb czero a.

(* complex linear combination  sum_j cs_j * ws_j  (missing coefficients count as 0) *)
Fixpoint lincomb (cs : list C) (ws : list cvec) : cvec :=
  match cs, ws with
  | c :: cs', w :: ws' => vadd (cvscale c w) (lincomb cs' ws')
  | _, _ => []
  end.

(* bilinear (unconjugated) product  sum_k a_k * b_k, and matrix * vector *)
Fixpoint cdotu (a b : cvec) : C :=
  match a, b with
  | x :: a', y :: b' => cadd (cmul x y) (cdotu a' b')
  | _, _ => (0, 0)
  end.
Definition matvec (m : list cvec) (v : cvec) : cvec := map (fun row => cdotu row v) m.

(* ------------------------------------------------------------------------------------------ *)
(* least squares: what numpy.linalg.lstsq documents for its `residuals` field                   *)
(* ------------------------------------------------------------------------------------------ *)
(* v minus its complex-orthogonal projection on u (u nonzero):  v - <u,v>/<u,u> u  *)
Definition cproj_sub (u v : cvec) : cvec :=
  let n := norm2 u in
  vsub (vsub v (vscale (rdot u v / n) u)) (vscale (rdot (vJ u) v / n) (vJ u)).
Fixpoint creduce (us : list cvec) (v : cvec) : cvec :=
  match us with
  | [] => v
  | u :: us' => creduce us' (cproj_sub u v)
  end.
(* Gram-Schmidt: us = the nonzero mutually orthogonal vectors found so far *)
Fixpoint gs (ws us : list cvec) : list cvec :=
  match ws with
  | [] => us
  | w :: ws' => let r := creduce us w in if vzero r then gs ws' us else gs ws' (r :: us)
  end.
Definition crank (ws : list cvec) : nat := length (gs ws []).
Definition cres2 (ws : list cvec) (v : cvec) : Q := norm2 (creduce (gs ws []) v).
(* columns ws (N = length ws of them), right-hand side v (M = length v rows) *)
Definition lstsq_spec (ws : list cvec) (v : cvec) : option Q :=
  if (crank ws <? length ws)%nat || (length v <=? length ws)%nat then None else Some (cres2 ws v).

(* ------------------------------------------------------------------------------------------ *)
(* tolerance (mathfuncs.within_tolerance / is_nearly_zero), on squared norms                    *)
(* ------------------------------------------------------------------------------------------ *)
Inductive tol := TAbs (t : Q) | TPct (p : Q).      (* number | percentage string, p = percent * 0.01 *)

(* the squared effective tolerance; ref2 = squared norm the percentage is relative to *)
Definition tol_ok (tl : tol) : bool := match tl with TAbs t => Qle_bool 0 t | TPct p => Qle_bool 0 p end.
Definition tol2 (tl : tol) (ref2 : Q) : Q :=
  match tl with TAbs t => t * t | TPct p => ref2 * (p * p) end.
(* norm(d) <= effective tolerance, given d2 = |d|^2 *)
Definition norm_le (tl : tol) (ref2 d2 : Q) : bool := tol_ok tl && Qle_bool d2 (tol2 tl ref2).

(* within_tolerance(x, y, tol) on arrays / scalars: x2 = |x|^2, d2 = |x - y|^2 *)
Definition within (tl : tol) (x y : cvec) : bool := norm_le tl (norm2 x) (dist2 x y).
(* is_nearly_zero(x, tol, reference) *)
Definition nearly_zero (tl : tol) (x2 ref2 : Q) : bool := norm_le tl ref2 x2.

(* | sqrt a - sqrt b | <= tau  with tau2 = tau^2, tau >= 0  (a, b >= 0) *)
Definition mag_close (a b tau2 : Q) : bool :=
  let s := a + b - tau2 in Qle_bool s 0 || Qle_bool (s * s) (4 * a * b).

(* ------------------------------------------------------------------------------------------ *)
(* values, shapes, messages, outcomes                                                           *)
(* ------------------------------------------------------------------------------------------ *)
Inductive num := NReal (x : Q) | NCplx (re im : Q).       (* Python float / complex *)
Definition num_c (n : num) : C := match n with NReal x => (x, 0) | NCplx a b => (a, b) end.

Inductive value := VNum (n : num) | VVec (v : cvec) | VMat (rows : list cvec).

Definition shape_of (v : value) : list Z :=
  match v with
  | VNum _ => []
  | VVec v => [Z.of_nat (length v)]
  | VMat rows => [Z.of_nat (length rows); Z.of_nat (length (hd [] rows))]
  end.
Definition flat (v : value) : cvec :=
  match v with VNum n => [num_c n] | VVec v => v | VMat rows => concat rows end.

Fixpoint shape_eqb (a b : list Z) : bool :=
  match a, b with
  | [], [] => true
  | x :: a', y :: b' => Z.eqb x y && shape_eqb a' b'
  | _, _ => false
  end.

(* MathArray.get_shape_name: 0 scalar, 1 vector, 2 matrix, else tensor (3) *)
Definition shape_name (s : list Z) : Z := Z.min (Z.of_nat (length s)) 3.

Inductive detail := DNone | DType | DShape.
(* "Expected answer to be a <exp>, but input is a <rec>[ of incorrect shape]"; a description is the
   shape name plus, for detail 'shape', the dimensions *)
Inductive shmsg :=
  | SMEmpty
  | SMExpected (exp_name : Z) (exp_dims : list Z) (rec_name : Z) (rec_dims : list Z) (incorrect_suffix : bool).

Definition shape_msg (d : detail) (exp inp : list Z) : shmsg :=
  match d with
  | DNone => SMEmpty
  | DShape => SMExpected (shape_name exp) exp (shape_name inp) inp false
  | DType => SMExpected (shape_name exp) [] (shape_name inp) [] (Z.eqb (shape_name exp) (shape_name inp))
  end.

Inductive msgk :=
  | MsgNone
  | MsgShape (m : shmsg)
  | MsgMustBeReal
  | MsgEigenNonzero
  | MsgSpanNonzero
  | MsgEntries (locs : list bool)      (* the diagram of matching / non-matching entries *)
  | MsgOther.                          (* configured mode message of LinearComparer: not compared *)

Inductive exn :=
  | XInputType (m : msgk)       (* InputTypeError: shape mismatch or "Input must be real." *)
  | XConfig                     (* ConfigError (fewer than 3 samples) *)
  | XParams                     (* StudentFacingError "Problem Configuration Error ..." *)
  | XGeneric.                   (* TypeError / ValueError / ... -> "Could not check input" *)

(* what a comparer returns *)
Inductive cres := CBool (b : bool) | CDict (grade : Q) (m : msgk) | CRaise (e : exn).

(* ------------------------------------------------------------------------------------------ *)
(* utils.validate_shape                                                                         *)
(* ------------------------------------------------------------------------------------------ *)
(* None = the grader's utils has no validate_shape (FormulaGrader / NumericalGrader) *)
Definition validate_shape (d : detail) (student : value) (expected_shape : list Z) : option exn :=
  if shape_eqb expected_shape (shape_of student) then None
  else Some (XInputType (MsgShape (shape_msg d expected_shape (shape_of student)))).

(* ------------------------------------------------------------------------------------------ *)
(* simple comparers                                                                             *)
(* ------------------------------------------------------------------------------------------ *)
(* between_comparer: params are real numbers.  A non-real input raises; then np.real(student) is compared. *)
Definition between_cmp (start stop : Q) (student : num) : cres :=
  match student with
  | NReal x => CBool (Qle_bool start x && Qle_bool x stop)
  | NCplx a b => if Qeq_bool b 0 then CBool (Qle_bool start a && Qle_bool a stop)
                 else CRaise (XInputType MsgMustBeReal)
  end.

(* Python's float % : the result has the sign of the modulus *)
Definition qmod (x m : Q) : Q := x - m * inject_Z (Qfloor (x / m)).

Definition congruence_cmp (tl : tol) (expected modulus : Q) (student : num) : cres :=
  match student with
  | NCplx _ _ => CRaise XGeneric                                   (* complex % : TypeError *)
  | NReal x =>
      if Qeq_bool modulus 0 then CRaise XGeneric                   (* float modulo: ZeroDivisionError *)
      else
        let er := qmod expected modulus in
        let sr := qmod x modulus in
        (* any(within_tolerance(er, sr + shift) for shift in (0, modulus, -modulus)) *)
        let w := fun shift => norm_le tl (er * er) ((er - (sr + shift)) * (er - (sr + shift))) in
        CBool (w 0 || w modulus || w (- modulus))
  end.

(* eigenvector_comparer: matrix (rows), eigenvalue, student; dv = Some detail when utils has validate_shape *)
Definition eigen_core (tl : tol) (m : list cvec) (lam : C) (v : cvec) : cres :=
  let expected := cvscale lam v in
  let actual := matvec m v in
  if norm_le tl 0 (norm2 v) then CDict 0 MsgEigenNonzero          (* within_tolerance(0, norm(v)) *)
  else CBool (within tl actual expected).

Definition eigenvector_cmp (dv : option detail) (tl : tol) (m : list cvec) (lam : C) (student : value) : cres :=
  match dv with
  | None => CRaise XGeneric                                        (* no utils.validate_shape *)
  | Some d =>
    match validate_shape d student [Z.of_nat (length m)] with
    | Some e => CRaise e
    | None => eigen_core tl m lam (flat student)
    end
  end.

(* vector_span_comparer: coeffs = lstsq(columns, student)[0]; error = norm(student - columns . coeffs) *)
Definition span_core (tl : tol) (ws : list cvec) (coeffs : list C) (v : cvec) : cres :=
  if norm_le tl 0 (norm2 v) then CDict 0 MsgSpanNonzero
  else CBool (nearly_zero tl (dist2 v (lincomb coeffs ws)) (norm2 v)).

Definition is_vec (v : value) : bool := match v with VVec _ => true | _ => false end.
Definition same_length_vectors (ps : list value) : bool :=
  forallb is_vec ps && forallb (fun p => shape_eqb (shape_of p) (shape_of (hd (VNum (NReal 0)) ps))) ps.

Definition vector_span_cmp (dv : option detail) (tl : tol) (lstsq : list cvec -> cvec -> list C)
    (params : list value) (student : value) : cres :=
  if negb (same_length_vectors params) then CRaise XParams
  else match dv with
  | None => CRaise XGeneric
  | Some d =>
    match validate_shape d student (shape_of (hd (VNum (NReal 0)) params)) with
    | Some e => CRaise e
    | None => let v := flat student in let ws := map flat params in span_core tl ws (lstsq ws v) v
    end
  end.

(* vector_phase_comparer.  Note `in_span and same_magnitude`: a dict (zero input) is truthy. *)
Definition vector_phase_cmp (dv : option detail) (tl : tol) (lstsq : list cvec -> cvec -> list C)
    (params : list value) (student : value) : cres :=
  if negb (Nat.eqb (length params) 1) && is_vec (hd (VNum (NReal 0)) params) then CRaise XParams
  else
    match vector_span_cmp dv tl lstsq params student with
    | CRaise e => CRaise e
    | in_span =>
      let t2 := norm2 (flat (hd (VNum (NReal 0)) params)) in
      let s2 := norm2 (flat student) in
      let same_mag := tol_ok tl && mag_close t2 s2 (tol2 tl t2) in
      match in_span with
      | CBool false => CBool false
      | _ => CBool same_mag
      end
    end.

(* EqualityComparer.  The configured transform is an ORACLE (any function on evaluated values: identity, np.abs,
   np.linalg.norm, np.trace, np.transpose, a user lambda ...); it is applied AFTER the shape of the raw submission
   has been validated against the raw expected value. *)
Definition equality_cmp (dv : option detail) (tl : tol) (tr : value -> value) (expected student : value) : cres :=
  match (match dv with Some d => validate_shape d student (shape_of expected) | None => None end) with
  | Some e => CRaise e
  | None => CBool (within tl (flat (tr expected)) (flat (tr student)))
  end.

(* ------------------------------------------------------------------------------------------ *)
(* correlated comparers: all samples at once; a sample = (expected value, student value)        *)
(* ------------------------------------------------------------------------------------------ *)
Definition sample := (value * value)%type.

Fixpoint first_shape_error (d : detail) (ss : list sample) : option exn :=
  match ss with
  | [] => None
  | (e, s) :: r => match validate_shape d s (shape_of e) with Some x => Some x | None => first_shape_error d r end
  end.

(* scalar within_tolerance on one entry: percentage relative to the expected entry *)
Definition entry_ok (tl : tol) (e s : C) : bool := norm_le tl (cabs2 e) (cabs2 (csub e s)).

(* entry k matches iff it matches in every sample *)
Fixpoint entries_and (a b : list bool) : list bool :=
  match a, b with x :: a', y :: b' => (x && y) :: entries_and a' b' | _, _ => [] end.
Fixpoint entry_rows (tl : tol) (e s : cvec) : list bool :=
  match e, s with x :: e', y :: s' => entry_ok tl x y :: entry_rows tl e' s' | _, _ => [] end.
Fixpoint entry_summary (tl : tol) (ss : list sample) : list bool :=
  match ss with
  | [] => []
  | [(e, s)] => entry_rows tl (flat e) (flat s)
  | (e, s) :: r => entries_and (entry_rows tl (flat e) (flat s)) (entry_summary tl r)
  end.

Inductive partial_credit := PCFlat (q : Q) | PCProp.

Definition count_true (l : list bool) : nat := length (filter (fun b => b) l).

Definition entry_credit (pc : partial_credit) (locs : list bool) : cres :=
  let n := length locs in
  let k := count_true locs in
  if Nat.eqb k n then CBool true
  else if Nat.eqb k 0 then CDict 0 (MsgEntries locs)
  else match pc with
       | PCProp => CDict (inject_Z (Z.of_nat k) / inject_Z (Z.of_nat n)) (MsgEntries locs)
       | PCFlat q => CDict q (MsgEntries locs)
       end.

(* the transform (an oracle, as for EqualityComparer) is applied to every sample after all shapes were validated *)
Definition matrix_entry_cmp (dv : option detail) (tl : tol) (pc : partial_credit) (tr : value -> value)
    (ss : list sample) : cres :=
  match (match dv with Some d => first_shape_error d ss | None => None end) with
  | Some e => CRaise e
  | None => entry_credit pc (entry_summary tl (map (fun es => (tr (fst es), tr (snd es))) ss))
  end.

(* --- LinearComparer --- *)
Inductive lmode := LEquals | LProportional | LOffset | LLinear.
Record lconfig := mkL { l_equals : option Q; l_proportional : option Q; l_offset : option Q; l_linear : option Q }.

Definition all_modes : list lmode := [LEquals; LProportional; LOffset; LLinear].
Definition zero_compatible (m : lmode) : bool := match m with LEquals | LOffset => true | _ => false end.
Definition credit_of (cfg : lconfig) (m : lmode) : option Q :=
  match m with LEquals => l_equals cfg | LProportional => l_proportional cfg
             | LOffset => l_offset cfg | LLinear => l_linear cfg end.
Definition configured (cfg : lconfig) : list lmode :=
  filter (fun m => match credit_of cfg m with Some _ => true | None => false end) all_modes.
Definition valid_modes (cfg : lconfig) (comparing_zero : bool) : list lmode :=
  if comparing_zero then filter zero_compatible (configured cfg) else configured cfg.

Definition cmean (d : cvec) : C :=
  let s := fold_right cadd (0, 0) d in crs (1 / inject_Z (Z.of_nat (length d))) s.
Definition ones (n : nat) : cvec := repeat (1, 0) n.

(* x = student samples, y = expected samples (flattened):  | x + mean(y - x) - y |^2 *)
Definition offset_err2 (x y : cvec) : Q :=
  let mean := cmean (vsub y x) in norm2 (vsub (map (cadd mean) x) y).

(* Some b: the fit error is nearly zero (b) ; None: the error calculator raised *)
Definition mode_holds (tl : tol) (ref2 : Q) (x y : cvec) (m : lmode) : option bool :=
  match m with
  | LEquals => Some (norm_le tl ref2 (dist2 x y))
  | LOffset => Some (norm_le tl ref2 (offset_err2 x y))
  | LProportional =>
      if vzero x then None                                   (* empty residuals: .item() raises *)
      else Some (norm_le tl ref2 (cres2 [x] y))
  | LLinear =>
      if Nat.eqb (crank [ones (length x); x]) 1 then Some (norm_le tl ref2 (offset_err2 x y))
      else Some (norm_le tl ref2 (cres2 [x; ones (length x)] y))
  end.

Definition all_zero (v : cvec) : bool := vzero v.

Definition comparing_zero (tl : tol) (ss : list sample) : bool :=
  forallb (fun es => nearly_zero tl (norm2 (flat (snd es))) (norm2 (flat (fst es)))) ss
  || forallb (fun es => all_zero (flat (fst es))) ss.

(* grades of the valid modes, in order; None if a calculator raised *)
Fixpoint mode_grades (cfg : lconfig) (tl : tol) (ref2 : Q) (x y : cvec) (ms : list lmode) : option (list Q) :=
  match ms with
  | [] => Some []
  | m :: r =>
    match mode_holds tl ref2 x y m, mode_grades cfg tl ref2 x y r with
    | Some b, Some gs =>
        Some ((if b then match credit_of cfg m with Some c => c | None => 0 end else 0) :: gs)
    | _, _ => None
    end
  end.

Fixpoint qmax_list (l : list Q) : option Q :=
  match l with
  | [] => None
  | g :: r => match qmax_list r with None => Some g | Some m => Some (if Qle_bool g m then m else g) end
  end.

Definition linear_cmp (dv : option detail) (tl : tol) (cfg : lconfig) (ss : list sample) : cres :=
  let x := concat (map (fun es => flat (snd es)) ss) in
  let y := concat (map (fun es => flat (fst es)) ss) in
  let ref2 := norm2 x in
  match (match dv, ss with
         | Some d, (e, s) :: _ => validate_shape d s (shape_of e)
         | _, _ => None end) with
  | Some e => CRaise e
  | None =>
    if (length ss <? 3)%nat then CRaise XConfig
    else
      match mode_grades cfg tl ref2 x y (valid_modes cfg (comparing_zero tl ss)) with
      | None => CRaise XGeneric
      | Some gs => match qmax_list gs with
                   | None => CDict 0 MsgOther                 (* no mode can be checked: no credit *)
                   | Some g => CDict g MsgOther
                   end
      end
  end.

(* ------------------------------------------------------------------------------------------ *)
(* the grader around the comparer                                                               *)
(* ------------------------------------------------------------------------------------------ *)
Record policy := mkPolicy { p_suppress : bool; p_raised : bool; p_detail : detail }.
Inductive gkind := GFormula | GMatrix (p : policy).
Definition utils_detail (g : gkind) : option detail :=
  match g with GFormula => None | GMatrix p => Some (p_detail p) end.

Inductive comparer :=
  | CmpEquality (tr : value -> value) | CmpEntry (pc : partial_credit) (tr : value -> value) | CmpBetween | CmpCongruence
  | CmpEigen | CmpSpan | CmpPhase | CmpLinear (cfg : lconfig).

Definition correlated (c : comparer) : bool :=
  match c with CmpEntry _ _ | CmpLinear _ => true | _ => false end.

(* one sample as the comparer sees it: evaluated comparer_params, evaluated student input and the
   coefficients lstsq returned during the call (only meaningful for span / phase) *)
Record csample := mkS { s_params : list value; s_student : value; s_coef : list C }.

Definition as_real (v : value) : option Q := match v with VNum (NReal x) => Some x | _ => None end.
Definition as_num (v : value) : option num := match v with VNum n => Some n | _ => None end.

Definition run_simple (g : gkind) (tl : tol) (c : comparer) (s : csample) : cres :=
  let dv := utils_detail g in
  match c, s_params s with
  | CmpEquality tr, [e] => equality_cmp dv tl tr e (s_student s)
  | CmpBetween, [a; b] =>
      match as_real a, as_real b, as_num (s_student s) with
      | Some a, Some b, Some n => between_cmp a b n
      | _, _, _ => CRaise XGeneric
      end
  | CmpCongruence, [e; m] =>
      match as_real e, as_real m, as_num (s_student s) with
      | Some e, Some m, Some n => congruence_cmp tl e m n
      | _, _, _ => CRaise XGeneric
      end
  | CmpEigen, [VMat m; VNum lam] => eigenvector_cmp dv tl m (num_c lam) (s_student s)
  | CmpSpan, ps => vector_span_cmp dv tl (fun _ _ => s_coef s) ps (s_student s)
  | CmpPhase, ps => vector_phase_cmp dv tl (fun _ _ => s_coef s) ps (s_student s)
  | _, _ => CRaise XGeneric
  end.

Definition to_samples (ss : list csample) : list sample :=
  map (fun s => (hd (VNum (NReal 0)) (s_params s), s_student s)) ss.

(* ItemGrader.standardize_cfn_return *)
Definition standardize (r : cres) : entry + exn :=
  match r with
  | CBool true => inl (mkEntry OkTrue 1 [])
  | CBool false => inl (mkEntry OkFalse 0 [])
  | CDict g _ => inl (mkEntry (grade_to_ok g) g [])
  | CRaise e => inr e
  end.
Definition msg_of (r : cres) : msgk := match r with CDict _ m => m | _ => MsgNone end.

(* compare_evaluations: list of (standardized result, message kind) or the first exception *)
Fixpoint compare_simple (g : gkind) (tl : tol) (c : comparer) (ss : list csample) : list (entry * msgk) + exn :=
  match ss with
  | [] => inl []
  | s :: r =>
    let res := run_simple g tl c s in
    match standardize res with
    | inr e => inr e
    | inl en => match compare_simple g tl c r with
                | inr e => inr e
                | inl l => inl ((en, msg_of res) :: l)
                end
    end
  end.

Definition compare_evaluations (g : gkind) (tl : tol) (c : comparer) (ss : list csample) : list (entry * msgk) + exn :=
  match c with
  | CmpEntry pc tr =>
      let res := matrix_entry_cmp (utils_detail g) tl pc tr (to_samples ss) in
      match standardize res with inr e => inr e | inl en => inl [(en, msg_of res)] end
  | CmpLinear cfg =>
      let res := linear_cmp (utils_detail g) tl cfg (to_samples ss) in
      match standardize res with inr e => inr e | inl en => inl [(en, msg_of res)] end
  | _ => compare_simple g tl c ss
  end.

(* result['grade_decimal'] *= answer['grade_decimal']  (ok is NOT recomputed), then consolidate_results *)
Definition scale_result (ag : Q) (r : entry * msgk) : entry * msgk :=
  (mkEntry (e_ok (fst r)) (e_grade (fst r) * ag) (e_msg (fst r)), snd r).

Fixpoint consolidate_loop (single : bool) (failable : nat) (failures : nat) (rs : list (entry * msgk))
    (answer : entry * msgk) : entry * msgk :=
  match rs with
  | [] => answer
  | r :: rest =>
    match e_ok (fst r) with
    | OkTrue => consolidate_loop single failable failures rest answer
    | _ => if single || (failable <? S failures)%nat then r
           else consolidate_loop single failable (S failures) rest answer
    end
  end.

Definition consolidate (failable : nat) (rs : list (entry * msgk)) (ag : Q) : entry * msgk :=
  consolidate_loop (Nat.eqb (length rs) 1) failable 0 rs (mkEntry (grade_to_ok ag) ag [], MsgNone).

Inductive outcome := ORes (ok : okv) (grade : Q) (m : msgk) | ORaise (e : exn).

(* MatrixGrader.check_response: what happens to an InputTypeError *)
Definition mismatch_policy (g : gkind) (e : exn) : outcome :=
  match g, e with
  | GMatrix p, XInputType m =>
      if p_suppress p then ORes OkFalse 0 MsgNone
      else if p_raised p then ORaise e
      else ORes OkFalse 0 (match m with MsgShape SMEmpty => MsgNone | _ => m end)
  | _, _ => ORaise e
  end.

(* ag = the answer's grade_decimal, failable = failable_evals *)
Definition grade (g : gkind) (tl : tol) (c : comparer) (ag : Q) (failable : nat) (ss : list csample) : outcome :=
  match compare_evaluations g tl c ss with
  | inr e => mismatch_policy g e
  | inl rs =>
      let r := consolidate failable (map (scale_result ag) rs) ag in
      ORes (e_ok (fst r)) (e_grade (fst r)) (snd r)
  end.
