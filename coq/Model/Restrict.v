(* Restrict.v -- executable model of the restrictions on student formulas (property C09).  No proofs here.

   Mirrors (line numbers of the pinned tree):
     mitxgraders/helpers/math_helpers.py
        get_permitted_functions (146-220), validate_forbidden_strings_not_used (60-116),
        validate_only_permitted_functions_used (118-144), validate_required_functions_used (222-244),
        numbered_vars_regexp (246-284), MathMixin.check_math_response / post_eval_validation (484-500),
        MathMixin.generate_variable_list (569-598), gen_var_and_func_samples (521-567)
     mitxgraders/formulagrader/formulagrader.py   FormulaGrader.gen_evaluations (266-323), raw_check (325-364)
     mitxgraders/formulagrader/integralgrader.py  SummationGraderBase.check / raw_check, SumGrader.gen_evaluations (677-744),
                                                  SumGrader.evaluate_sum (746-796)
     mitxgraders/listgrader.py                    ListGrader.get_ordered_input_list (479-498)
   The parser and the evaluator are the C03 model (Model/Lexer.v, Model/Parser.v, Model/Eval.v).

   Part 1 has the same shape as the regenerated Gen/Restrict.v (Bridge/Restrict.v: equal by reflexivity).
   Oracles (function arguments, never axioms): the valuations [Es] (one environment per sample: values of every
   variable / constant / sibling, all functions, all suffixes), the comparison [compare] (comparer, tolerance,
   consolidation and the answer's grade), for sums the index range and the addition of the terms. *)
From Coq Require Import ZArith QArith List Bool.
From Verif.Model Require Import Result Lexer Parser Eval RestrictBase.
Import ListNotations.
Local Open Scope Z_scope.

(* ================================================================================================
   1. the declarative fragments
   ================================================================================================ *)
Definition get_permitted_functions (default_funcs : names) (whitelist : list welem) (blacklist always_allowed : names)
  : option names :=
  if truthy whitelist && truthy blacklist then None else                  (* ValueError *)
  let permitted_functions :=
    if wl_is_empty whitelist then set_diff (set_union always_allowed default_funcs) blacklist
    else if wl_is_none whitelist then always_allowed
    else set_union always_allowed (wl_names whitelist) in
  Some permitted_functions.

Definition validate_forbidden_strings_not_used (expr : sinput) (forbidden_strings : list str) : vres :=
  let expr := si_values expr in
  vseq (for_each expr (fun expression =>
          let stripped_expr := strip_spaces expression in
          vseq (for_each forbidden_strings (fun forbidden =>
                  let check_for := strip_spaces forbidden in
                  if substr check_for stripped_expr then VRaise VForbidden else VPass))
               VPass))
       VPass.

Definition validate_only_permitted_functions_used (used_funcs permitted_functions : names) : vres :=
  let used_not_permitted := py_sorted (filter (fun f => negb (mem f permitted_functions)) used_funcs) in
  if truthy used_not_permitted then VRaise (VNotPermitted used_not_permitted) else VPass.

Definition validate_required_functions_used (used_funcs required_funcs : names) : vres :=
  vseq (for_each required_funcs (fun func =>
          if negb (mem func used_funcs) then VRaise (VRequired func) else VPass))
       VPass.

Definition post_eval_validation (expr : sinput) (used_funcs : names)
           (forbidden_strings : list str) (required_functions permitted_functions : names) : vres :=
  vseq (validate_forbidden_strings_not_used expr forbidden_strings)
  (vseq (validate_required_functions_used used_funcs required_functions)
  (vseq (validate_only_permitted_functions_used used_funcs permitted_functions)
        VPass)).

(* check_math_response:  if result['ok'] is True or result['ok'] == 'partial': self.post_eval_validation(...) *)
Definition runs_post_validation (ok : okv) : bool := okv_eqb ok OkTrue || okv_eqb ok OkPartial.

(* the sampling loops of FormulaGrader / SumGrader / IntegralGrader.gen_evaluations, and var_blacklist *)
Definition loop_events : list loop_event := [EvUpdate; EvAuthorEval; EvScrub; EvStudentEval; EvRestore].
Definition sum_loop_events : list loop_event :=
  [EvUpdate; EvAuthorEval; EvScrub; EvGuardVariable; EvStudentEval; EvRestore].
Definition formula_blacklist : list blacklist_part := [BInstructorInSample; BSiblings].
Definition summation_blacklist : list blacklist_part := [BInstructorInSample].

(* numbered_vars_regexp:  "^((" + '|'.join(map(re.escape, heads)) + ")_{(?:[-]?[1-9]\d*|0)})$" *)
Definition numbered_regexp : numbered_re :=
  mkNumRe [124]
    [ [94; 40; 40];
      [41; 95; 123; 40; 63; 58; 91; 45; 93; 63; 91; 49; 45; 57; 93; 92; 100; 42; 124; 48; 41; 125; 41; 36] ].

(* ================================================================================================
   2. numbered variables: the language of that regular expression
   ================================================================================================ *)
Definition is_digit19 (c : Z) : bool := (49 <=? c) && (c <=? 57).

(* (?:[-]?[1-9]\d*|0) against a whole string (names contain ASCII only, so \d is [0-9]) *)
Definition num_pattern (s : str) : bool :=
  match s with
  | [] => false
  | [d] => (d =? 48) || is_digit19 d
  | c :: ((d :: r) as tl) =>
      if c =? 45 then is_digit19 d && forallb is_digit r
      else is_digit19 c && forallb is_digit tl
  end.

Fixpoint strip_prefix (p s : str) : option str :=
  match p, s with
  | [], _ => Some s
  | x :: p', y :: s' => if x =? y then strip_prefix p' s' else None
  | _ :: _, [] => None
  end.

(* head + "_{" + number + "}" *)
Definition match_head (h n : str) : bool :=
  match strip_prefix (h ++ [95; 123]) n with
  | Some rest => match rev rest with
                 | c :: m => (c =? 125) && num_pattern (rev m)
                 | [] => false
                 end
  | None => false
  end.

Definition numbered_match (heads : names) (n : str) : bool := existsb (fun h => match_head h n) heads.

(* ================================================================================================
   3. configuration, sample names, student scope
   ================================================================================================ *)
Record rcfg := mkCfg {
  c_defaults   : names;          (* keys of self.default_functions *)
  c_userfuncs  : names;          (* keys of config['user_functions'] *)
  c_whitelist  : list welem;
  c_blacklist  : names;
  c_required   : names;          (* config['required_functions'] *)
  c_forbidden  : list str;       (* config['forbidden_strings'] *)
  c_variables  : names;          (* config['variables'] *)
  c_numbered   : names;          (* config['numbered_vars'] *)
  c_instructor : names;          (* config['instructor_vars'] *)
  c_constants  : names;          (* keys of self.constants *)
  c_suffixes   : names;          (* keys of self.suffixes *)
  c_sampler_deps : names         (* the `depends` of every DependentSampler in config['sample_from'] *)
}.

Definition cfg_permitted (c : rcfg) : option names :=
  get_permitted_functions (c_defaults c) (c_whitelist c) (c_blacklist c) (c_userfuncs c).

(* self.functions: every default and user function is callable during evaluation, permitted or not *)
Definition func_scope (c : rcfg) : names := set_union (c_defaults c) (c_userfuncs c).

(* generate_variable_list: config['variables'] + the used names that are instances of a numbered variable *)
Definition variable_list (c : rcfg) (vars_used : names) : names :=
  c_variables c ++
  filter (numbered_match (c_numbered c)) (filter (fun v => negb (mem v (c_variables c))) (dedup vars_used)).

(* keys of every var_samples[i]: the symbols (variables, numbered instances, sibling keys) and the constants they
   do not shadow (gen_symbols_samples: pruned_constants) *)
Definition sample_names (c : rcfg) (vars_used siblings : names) : names :=
  let symbols := variable_list c vars_used ++ siblings in
  filter (fun k => negb (mem k symbols)) (c_constants c) ++ symbols.

Definition var_blacklist (parts : list blacklist_part) (instructor sample siblings : names) : names :=
  flat_map (fun p => match p with
                     | BInstructorInSample => filter (fun v => mem v sample) instructor
                     | BSiblings => siblings
                     end) parts.

(* the names a student formula may mention as variables *)
Definition student_scope (parts : list blacklist_part) (c : rcfg) (sample siblings : names) : names :=
  set_diff sample (var_blacklist parts (c_instructor c) sample siblings).

(* ================================================================================================
   4. the sampling loop at the level of bindings: (name, index of the sample the value came from)
   ================================================================================================ *)
Definition bindings := list (str * nat).

Definition b_update (b : bindings) (sample : names) (i : nat) : bindings :=
  map (fun n => (n, i)) sample ++ filter (fun p => negb (mem (fst p) sample)) b.
Definition b_delete (b : bindings) (keys : names) : bindings := filter (fun p => negb (mem (fst p) keys)) b.

Record seen := mkSeen { seen_author : list bindings; seen_student : list bindings }.

Fixpoint run_events (evs : list loop_event) (sample bl : names) (i : nat) (b : bindings) (acc : seen)
  : bindings * seen :=
  match evs with
  | [] => (b, acc)
  | EvUpdate :: r => run_events r sample bl i (b_update b sample i) acc
  | EvRestore :: r => run_events r sample bl i (b_update b sample i) acc
  | EvAuthorEval :: r => run_events r sample bl i b (mkSeen (seen_author acc ++ [b]) (seen_student acc))
  | EvScrub :: r => run_events r sample bl i (b_delete b bl) acc
  | EvGuardVariable :: r => run_events r sample bl i b acc
  | EvStudentEval :: r => run_events r sample bl i b (mkSeen (seen_author acc) (seen_student acc ++ [b]))
  end.

(* iterations i, i+1, ..., i+n-1; what each iteration's author / student evaluations saw *)
Fixpoint run_loop (evs : list loop_event) (sample bl : names) (n i : nat) (b : bindings) : list seen :=
  match n with
  | O => []
  | S n' => let '(b', s) := run_events evs sample bl i b (mkSeen [] []) in
            s :: run_loop evs sample bl n' (S i) b'
  end.

(* ================================================================================================
   5. check_math_response for FormulaGrader / NumericalGrader / MatrixGrader
   ================================================================================================ *)
Inductive gout :=
| GParseError (e : parse_error)      (* UnbalancedBrackets / UnableToParse *)
| GEvalError (e : everr)             (* UndefinedVariable / UndefinedFunction (also for suffixes) / other CalcErrors *)
| GInvalid (v : verr)                (* InvalidInput from post_eval_validation *)
| GDummyVariable                     (* InvalidInput from validate_user_dummy_variable *)
| GSummationError                    (* SummationError *)
| GMissingInput
| GGenericError                      (* StudentFacingError "Invalid Input: Could not check input ..." (an unexpected exception) *)
| GConfigError                       (* author-facing *)
| GResult (e : entry).

Definition restrict_env (scope : names) (E : env) : env :=
  mkEnv (fun n => if mem n scope then venv E n else None) (fenv E) (senv E).

(* one evaluation of a string in an environment (max_array_dim given): an error, or a value (None = nan).
   The model functions below take the evaluation as a parameter [ev]; the theorems instantiate it with [eval1],
   the C03 evaluator, or hold for every evaluation that checks the scope first; the correspondence harness runs the
   same functions with [scope_eval], which stops after the scope check (values are the implementation's business). *)
Definition evaluation := env -> option nat -> str -> gout + option val.

(* nan (blank input) is a value for the comparer *)
Definition eval1 (E : env) (max_dim : option nat) (s : str) : gout + option val :=
  match evaluator E max_dim (Some s) with
  | ONan => inr None
  | OVal v => inr (Some v)
  | OParseError e => inl (GParseError e)
  | OError e => inl (GEvalError e)
  end.

(* the evaluation that stops after the scope check.  Its value identifies the text that was evaluated (an injective
   code of the string), so that recorded oracle answers can be keyed by expression. *)
Definition str_code (s : str) : Z := fold_left (fun a c => a * 1114112 + c + 1) s 0.
Definition code_val (s : str) : val := VS (mkC (inject_Z (str_code s)) 0).

Definition scope_eval (E : env) (max_dim : option nat) (s : str) : gout + option val :=
  match py_strip s with
  | [] => inr None
  | s' => match parse_formula s' with
          | PUnbalanced e => inl (GParseError (PEUnbalanced e))
          | PUnparsable => inl (GParseError PEUnparsable)
          | PTree t => match check_scope E t with
                       | Some e => inl (GEvalError e)
                       | None => inr (Some (code_val s))
                       end
          end
  end.

(* an environment that only says which names exist *)
Definition name_env (vars funcs sufs : names) : env :=
  mkEnv (fun n => if mem n vars then Some (code_val n) else None)
        (fun f => if mem f funcs then Some (fun _ => Ok (code_val f)) else None)
        (fun u => if mem u sufs then Some 1%Q else None).

Fixpoint eval_all (ev : evaluation) (E : env) (l : list str) : gout + list (option val) :=
  match l with
  | [] => inr []
  | s :: r => match ev E None s with
              | inl g => inl g
              | inr v => match eval_all ev E r with inl g => inl g | inr vs => inr (v :: vs) end
              end
  end.

(* meta.functions_used of the student's input (empty usage for a blank input) *)
Definition used_functions (s : str) : names :=
  match py_strip s with
  | [] => []
  | s' => match parse_formula s' with PTree t => dedup (funcs_of t) | _ => [] end
  end.

Definition used_variables (s : str) : names :=
  match py_strip s with
  | [] => []
  | s' => match parse_formula s' with PTree t => dedup (vars_of t) | _ => [] end
  end.

(* FormulaGrader.gen_evaluations: per sample, the author's expressions in the full scope, then the student's input
   in the scrubbed scope; the first error propagates *)
Fixpoint gen_evaluations (ev : evaluation) (scope : names) (max_dim : option nat) (params : list str) (input : str) (Es : list env)
  : gout + list (list (option val) * option val) :=
  match Es with
  | [] => inr []
  | E :: r =>
      match eval_all ev E params with
      | inl g => inl g
      | inr pv =>
          match ev (restrict_env scope E) max_dim input with
          | inl g => inl g
          | inr sv => match gen_evaluations ev scope max_dim params input r with
                      | inl g => inl g
                      | inr l => inr ((pv, sv) :: l)
                      end
          end
      end
  end.

Definition comparison := list (list (option val) * option val) -> entry.

Definition finish (c : rcfg) (permitted : names) (compare_result : entry) (expr : sinput) (used : names) : gout :=
  if runs_post_validation (e_ok compare_result)
  then match post_eval_validation expr used (c_forbidden c) (c_required c) permitted with
       | VRaise v => GInvalid v
       | VPass => GResult compare_result
       end
  else GResult compare_result.

(* sibling keys handed to the grader: the keys of sibling_formulas *)
Definition formula_check (ev : evaluation) (c : rcfg) (permitted : names) (max_dim : option nat) (params : list str)
           (sibling_formulas : list (str * str)) (Es : list env) (compare : comparison) (input : str) : gout :=
  let siblings := map fst sibling_formulas in
  let vars_used := used_variables input ++ flat_map (fun p => used_variables (snd p)) sibling_formulas
                   ++ flat_map used_variables params in
  let sample := sample_names c vars_used siblings in
  let scope := student_scope formula_blacklist c sample siblings in
  match gen_evaluations ev scope max_dim params input Es with
  | inl g => g
  | inr evals => finish c permitted (compare evals) (SIStr input) (used_functions input)
  end.

(* ================================================================================================
   6. ordered ListGrader whose answers reference sibling inputs
   ================================================================================================ *)
(* gen_symbols_samples: dependent symbols are computed once everything they depend on is available;
   no progress = ConfigError (undefined quantity or circular dependency) *)
Fixpoint resolve (fuel : nat) (avail : names) (pending : list (str * names)) : bool :=
  match pending with
  | [] => true
  | _ =>
      match fuel with
      | O => false
      | S f =>
          let ready := filter (fun p => forallb (fun d => mem d avail) (snd p)) pending in
          let rest := filter (fun p => negb (forallb (fun d => mem d avail) (snd p))) pending in
          match ready with
          | [] => false
          | _ => resolve f (map fst ready ++ avail) rest
          end
      end
  end.

Record box := mkBox {
  b_cfg : rcfg;
  b_key : str;                 (* 'sibling_<position>' *)
  b_params : list str;         (* comparer_params of this box's answer *)
  b_maxdim : option nat;
  b_input : str;
  b_envs : list env;           (* oracle: the valuations of this box's samples (including sibling values) *)
  b_compare : comparison
}.

(* get_sibling_formulas: the inputs of the boxes whose key occurs in this box's comparer_params or in the
   dependencies of a DependentSampler of its grader (raw_check: required_siblings) *)
Definition sibling_formulas_of (all : list box) (b : box) : list (str * str) :=
  let required := flat_map used_variables (b_params b) ++ c_sampler_deps (b_cfg b) in
  map (fun x => (b_key x, b_input x)) (filter (fun x => mem (b_key x) required) all).

(* a sibling input becomes DependentSampler(formula=input): it must be non-empty, parse, resolve, and evaluate *)
Definition sibling_sampler_ok (c : rcfg) (formula : str) : bool :=
  match py_strip formula with
  | [] => true                              (* blank but not '': evaluates to nan *)
  | s' => match parse_formula s' with
          | PTree t => forallb (fun f => mem f (func_scope c)) (funcs_of t)
                       && forallb (fun u => mem u (c_suffixes c)) (suffixes_of t)
          | _ => false
          end
  end.

Definition parses (formula : str) : bool :=
  match parse_formula formula with PTree _ => true | _ => false end.

Definition box_check (ev : evaluation) (all : list box) (b : box) : gout :=
  let c := b_cfg b in
  let sf := sibling_formulas_of all b in
  let siblings := map fst sf in
  let vars_used := used_variables (b_input b) ++ flat_map (fun p => used_variables (snd p)) sf
                   ++ flat_map used_variables (b_params b) in
  let base := sample_names c vars_used [] in
  if existsb (fun p => match snd p with [] => true | _ => false end) sf then GMissingInput
  else if negb (forallb (fun p => parses (snd p)) sf) then GConfigError          (* DependentSampler.__init__ *)
  else if negb (resolve (S (length sf)) base (map (fun p => (fst p, used_variables (snd p))) sf)) then GConfigError
  else if negb (forallb (fun p => sibling_sampler_ok c (snd p)) sf) then GConfigError   (* compute_sample *)
  else match cfg_permitted c with
       | None => GConfigError
       | Some permitted =>
           formula_check ev c permitted (b_maxdim b) (b_params b) sf (b_envs b) (b_compare b) (b_input b)
       end.

Definition is_result (g : gout) : bool := match g with GResult _ => true | _ => false end.

(* get_ordered_input_list: boxes are checked in order, the first error propagates *)
Fixpoint ordered_go (ev : evaluation) (all todo : list box) : gout + list entry :=
  match todo with
  | [] => inr []
  | b :: r => match box_check ev all b with
              | GResult e => match ordered_go ev all r with inl g => inl g | inr es => inr (e :: es) end
              | g => inl g
              end
  end.

Definition ordered_list_check (ev : evaluation) (boxes : list box) : gout + list entry := ordered_go ev boxes boxes.

(* ================================================================================================
   7. SumGrader
   ================================================================================================ *)
Record sumfields := mkSum { s_lower : str; s_upper : str; s_summand : str; s_variable : str }.

Definition k_lower : str := [108; 111; 119; 101; 114].
Definition k_upper : str := [117; 112; 112; 101; 114].
Definition k_summand : str := [115; 117; 109; 109; 97; 110; 100].
Definition k_variable : str := [115; 117; 109; 109; 97; 116; 105; 111; 110; 95; 118; 97; 114; 105; 97; 98; 108; 101].

Definition sum_dict (f : sumfields) : sinput :=
  SIDict [(k_lower, s_lower f); (k_upper, s_upper f); (k_summand, s_summand f); (k_variable, s_variable f)].

(* which fields the student enters (input_positions[key] is not None); the others come from config['answers'] *)
Record entered := mkEntered { en_lower : bool; en_upper : bool; en_summand : bool; en_variable : bool }.

Definition structure_input (en : entered) (author student : sumfields) : sumfields :=
  mkSum (if en_lower en then s_lower student else s_lower author)
        (if en_upper en then s_upper student else s_upper author)
        (if en_summand en then s_summand student else s_summand author)
        (if en_variable en then s_variable student else s_variable author).

Definition bind_var (E : env) (x : str) (v : val) : env :=
  mkEnv (fun n => if str_eqb n x then Some v else venv E n) (fenv E) (senv E).

Fixpoint eval_terms (ev : evaluation) (E : env) (x : str) (summand : str) (idx : list val)
  : gout + list (option val) :=
  match idx with
  | [] => inr []
  | i :: r => match ev (bind_var E x i) None summand with
              | inl g => inl g
              | inr v => match eval_terms ev E x summand r with inl g => inl g | inr vs => inr (v :: vs) end
              end
  end.

(* oracles of a summation: the index values for given limits (or the error the limits cause), adding the terms *)
Record sum_oracle := mkSumOracle {
  so_range : option val -> option val -> option (list val);      (* None: SummationError about the limits *)
  so_total : list (option val) -> option val
}.

(* SumGrader.evaluate_sum; returns the value and the functions used in the limits and the summand *)
Definition evaluate_sum (ev : evaluation) (O : sum_oracle) (E : env) (f : sumfields) : gout + (option val * names) :=
  if defined (venv E) (s_variable f) then inl GSummationError
  else
    match ev E None (s_lower f) with
    | inl g => inl g
    | inr lo =>
        match ev E None (s_upper f) with
        | inl g => inl g
        | inr hi =>
            match parse_formula (s_summand f) with          (* parse(expression), not evaluator(): no strip() *)
            | PUnbalanced e => inl (GParseError (PEUnbalanced e))
            | PUnparsable => inl (GParseError PEUnparsable)
            | PTree t =>
                let used := dedup (used_functions (s_lower f) ++ used_functions (s_upper f) ++ funcs_of t) in
                match so_range O lo hi with
                | None => inl GSummationError
                | Some idx =>
                    (* parse(summand_str).check_scope(varscope + summation variable): the names of the summand
                       are checked even when no term is summed *)
                    match check_scope (bind_var E (s_variable f) (code_val [])) t with
                    | Some e => inl (GEvalError e)
                    | None => match eval_terms ev E (s_variable f) (s_summand f) idx with
                              | inl g => inl g
                              | inr vs => inr (so_total O vs, used)
                              end
                    end
                end
            end
        end
    end.

Fixpoint sum_evaluations (ev : evaluation) (O : sum_oracle) (scope bl : names) (author student : sumfields) (Es : list env)
  : gout + (list (list (option val) * option val) * names) :=
  match Es with
  | [] => inr ([], [])
  | E :: r =>
      match evaluate_sum ev O E author with
      | inl _ => inl GConfigError                   (* "Summation Error with author's stored answer" *)
      | inr (av, _) =>
          (* an instructor variable already has a meaning, so cannot be the summation variable *)
          if mem (s_variable student) bl then inl GSummationError
          else
          match evaluate_sum ev O (restrict_env scope E) student with
          | inl g => inl g
          | inr (sv, used) =>
              match sum_evaluations ev O scope bl author student r with
              | inl g => inl g
              | inr (l, _) => inr (([av], sv) :: l, used)
              end
          end
      end
  end.

Definition is_empty_str (s : str) : bool := match s with [] => true | _ => false end.

(* SummationGraderBase.check + check_math_response + raw_check *)
Definition sum_check (ev : evaluation) (c : rcfg) (permitted : names) (O : sum_oracle) (en : entered) (author student : sumfields)
           (Es : list env) (compare : comparison) : gout :=
  let inp := structure_input en author student in
  if is_empty_str (s_lower inp) || is_empty_str (s_upper inp) || is_empty_str (s_summand inp)
     || is_empty_str (s_variable inp) then GMissingInput
  else if mem (s_variable inp) (func_scope c) || mem (s_variable inp) (c_constants c) then GDummyVariable
  else
    let vars_used := flat_map used_variables [s_lower author; s_upper author; s_summand author; s_variable author;
                                              s_lower inp; s_upper inp; s_summand inp; s_variable inp] in
    let sample := sample_names c vars_used [] in
    let scope := student_scope summation_blacklist c sample [] in
    let bl := var_blacklist summation_blacklist (c_instructor c) sample [] in
    match sum_evaluations ev O scope bl author inp Es with
    | inl g => g
    | inr (evals, used) => finish c permitted (compare evals) (sum_dict inp) used
    end.

(* ================================================================================================
   8. how MathExpression.check_scope REPORTS an undefined name (expressions.py:598-660), over explicit name lists:
      the first non-empty of bad variables / bad functions / bad suffixes decides the class.  (The message is
      formatted with the offending names before the "did you mean" suggestions are appended, so the text of a
      suggestion cannot disturb it.)
   ================================================================================================ *)
Definition scope_report (vars funcs sufs : names) (t : tree) : option gout :=
  let bad_vars := filter (fun v => negb (mem v vars)) (vars_of t) in
  if truthy bad_vars then Some (GEvalError EUndefVar)
  else
    let bad_funcs := filter (fun f => negb (mem f funcs)) (funcs_of t) in
    if truthy bad_funcs then Some (GEvalError EUndefFun)
    else
      let bad_sufs := filter (fun u => negb (mem u sufs)) (suffixes_of t) in
      if truthy bad_sufs then Some (GEvalError EUndefSuffix) else None.
