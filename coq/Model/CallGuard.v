(* CallGuard.v -- executable model for C02 (only library errors escape).  No proofs here.

   Mirrors, in mitxgraders/:
     baseclasses.AbstractGrader.__call__ (input check, try/except around check, attempt number, message formatting)
     baseclasses.AbstractGrader.ensure_text_inputs + ItemGrader/ListGrader wrappers
     helpers/calc/expressions.py: handle_np_floating_errors, BracketValidator, MathParser.parse/raw_parse,
       MathExpression.eval / eval_node / eval_function / validate_function_call
     exceptions.py, helpers/calc/exceptions.py (class tree)

   Every function that interprets a table takes the table as an argument, so that the harness can run the very
   same interpreter on the tables REGENERATED from the source (Gen/CallGuard.v); Bridge/CallGuard.v proves the
   regenerated tables equal to the constants below, on which the theorems are proved. *)
From Coq Require Import ZArith QArith List Bool String Ascii DecimalString.
From Verif.Lib Require Import CallGuardBase.
From Verif.Model Require Import Result Credit.
Import ListNotations.
Open Scope string_scope.
Open Scope list_scope.

(* ------------------------------------------------------------------------------------------------------- *)
(* 0. text                                                                                                  *)
(* ------------------------------------------------------------------------------------------------------- *)
Definition NL : Z := 10%Z.

Fixpoint prefixb (p s : cstr) : bool :=
  match p, s with
  | [], _ => true
  | x :: p', y :: s' => Z.eqb x y && prefixb p' s'
  | _ :: _, [] => false
  end.

(* Python `p in s` *)
Fixpoint containsb (p s : cstr) : bool :=
  prefixb p s || match s with [] => false | _ :: r => containsb p r end.

(* str.replace for a one-character pattern *)
Fixpoint replace1 (a : Z) (b : cstr) (s : cstr) : cstr :=
  match s with
  | [] => []
  | c :: r => if Z.eqb c a then b ++ replace1 a b r else c :: replace1 a b r
  end.

Definition replace_pat (pat rep s : cstr) : cstr :=
  match pat with [a] => replace1 a rep s | _ => s end.

Fixpoint remove_chars (cs : cstr) (s : cstr) : cstr :=
  match s with
  | [] => []
  | c :: r => if existsb (Z.eqb c) cs then remove_chars cs r else c :: remove_chars cs r
  end.

Fixpoint join (sep : cstr) (items : list cstr) : cstr :=
  match items with
  | [] => []
  | [x] => x
  | x :: r => x ++ sep ++ join sep r
  end.

Definition dec (n : nat) : cstr := s2z (NilZero.string_of_uint (Nat.to_uint n)).

Definition render (parts : list tpart) (env : string -> cstr) : cstr :=
  flat_map (fun p => match p with Lit s => s | Hole h => env h end) parts.

(* ------------------------------------------------------------------------------------------------------- *)
(* 1. exceptions                                                                                            *)
(* ------------------------------------------------------------------------------------------------------- *)
(* an exception object: the names along type(e).__mro__ (head = its class) and str(e) *)
Record exc := mkExc { x_mro : list string; x_msg : cstr }.

Inductive outcome (A : Type) := Ret (a : A) | Raise (e : exc).
Arguments Ret {A} a.
Arguments Raise {A} e.

Definition isinst (e : exc) (c : string) : bool := existsb (String.eqb c) (x_mro e).
Definition cls_of (e : exc) : string := hd "" (x_mro e).

Definition exc_table : list (string * string) :=
  [("MITxError", "Exception"); ("ConfigError", "MITxError"); ("StudentFacingError", "MITxError");
   ("InvalidInput", "StudentFacingError"); ("InputTypeError", "InvalidInput"); ("MissingInput", "StudentFacingError");
   ("CalcError", "StudentFacingError"); ("UndefinedVariable", "CalcError"); ("UndefinedFunction", "CalcError");
   ("UnbalancedBrackets", "CalcError"); ("CalcZeroDivisionError", "CalcError"); ("CalcOverflowError", "CalcError");
   ("FunctionEvalError", "CalcError"); ("UnableToParse", "CalcError"); ("DomainError", "CalcError");
   ("ArgumentError", "DomainError"); ("ArgumentShapeError", "DomainError"); ("MathArrayError", "CalcError");
   ("MathArrayShapeError", "MathArrayError"); ("IntegrationError", "StudentFacingError");
   ("SummationError", "StudentFacingError")].

Fixpoint lookup (tbl : list (string * string)) (c : string) : option string :=
  match tbl with
  | [] => None
  | (k, v) :: r => if String.eqb k c then Some v else lookup r c
  end.

Definition builtin_tail : list string := ["Exception"; "BaseException"; "object"].

(* single inheritance: follow the base until it leaves the table *)
Fixpoint mro_fuel (tbl : list (string * string)) (fuel : nat) (c : string) : list string :=
  match fuel with
  | O => [c]
  | S f => match lookup tbl c with
           | Some b => c :: mro_fuel tbl f b
           | None => if String.eqb c "Exception" then builtin_tail else [c]
           end
  end.

Definition mro_of (tbl : list (string * string)) (c : string) : list string := mro_fuel tbl (S (List.length tbl)) c.

(* the few built-in classes the library raises or catches by name *)
Definition builtin_mro (c : string) : list string :=
  if String.eqb c "ZeroDivisionError" then "ZeroDivisionError" :: "ArithmeticError" :: builtin_tail
  else if String.eqb c "OverflowError" then "OverflowError" :: "ArithmeticError" :: builtin_tail
  else if String.eqb c "FloatingPointError" then "FloatingPointError" :: "ArithmeticError" :: builtin_tail
  else if String.eqb c "RecursionError" then "RecursionError" :: "RuntimeError" :: builtin_tail
  else if String.eqb c "KeyError" then "KeyError" :: "LookupError" :: builtin_tail
  else if String.eqb c "IndexError" then "IndexError" :: "LookupError" :: builtin_tail
  else if String.eqb c "ParseException" then "ParseException" :: "ParseBaseException" :: builtin_tail
  else if String.eqb c "Exception" then builtin_tail
  else if String.eqb c "BaseException" then ["BaseException"; "object"]
  else if String.eqb c "KeyboardInterrupt" then ["KeyboardInterrupt"; "BaseException"; "object"]
  else c :: builtin_tail.

Definition mk_named (tbl : list (string * string)) (c : string) (m : cstr) : exc :=
  match lookup tbl c with
  | Some _ => mkExc (mro_of tbl c) m
  | None => mkExc (builtin_mro c) m
  end.

(* a try/except clause list: the first clause whose class the exception is an instance of decides *)
Fixpoint apply_handlers (tbl : list (string * string)) (hs : list (string * action)) (env : string -> cstr) (e : exc) : exc :=
  match hs with
  | [] => e
  | (c, a) :: r =>
      if isinst e c
      then match a with Reraise => e | RaiseNew c' parts => mk_named tbl c' (render parts env) end
      else apply_handlers tbl r env e
  end.

Definition handle {A} (tbl : list (string * string)) (hs : list (string * action)) (env : string -> cstr) (o : outcome A)
  : outcome A :=
  match o with Ret a => Ret a | Raise e => Raise (apply_handlers tbl hs env e) end.

(* ------------------------------------------------------------------------------------------------------- *)
(* 2. numpy floating point errors (handle_np_floating_errors, installed process-wide)                       *)
(* ------------------------------------------------------------------------------------------------------- *)
Definition np_err_rules : list (cstr * string) :=
  [(s2z "divide by zero", "ZeroDivisionError"); (s2z "overflow", "OverflowError"); (s2z "value", "ValueError")].
Definition np_err_default : string := "Exception".
Definition np_seterr : list (string * string) := [("divide", "call"); ("over", "call"); ("invalid", "call")].
Definition np_seterrcall : string := "handle_np_floating_errors".

Fixpoint np_pick (rules : list (cstr * string)) (dflt : string) (err : cstr) : string * bool :=
  match rules with
  | [] => (dflt, true)
  | (k, c) :: r => if containsb k err then (c, false) else np_pick r dflt err
  end.

(* the exception raised for numpy's message `err` *)
Definition np_raise (rules : list (cstr * string)) (dflt : string) (err : cstr) : exc :=
  let (c, is_default) := np_pick rules dflt err in
  mkExc (builtin_mro c) (if is_default then err else []).

(* ------------------------------------------------------------------------------------------------------- *)
(* 3. ensure_text_inputs                                                                                    *)
(* ------------------------------------------------------------------------------------------------------- *)
(* what edX can hand to a grader: text, a list, or anything else; `ty` is the text of type(x) *)
Inductive pyval :=
| PStr (ty : cstr) (s : cstr)
| PList (ty : cstr) (items : list pyval)
| POther (ty : cstr).

Definition ty_of (v : pyval) : cstr := match v with PStr t _ => t | PList t _ => t | POther t => t end.
Definition is_str (v : pyval) : bool := match v with PStr _ _ => true | _ => false end.
Definition is_list (v : pyval) : bool := match v with PList _ _ => true | _ => false end.
Definition text_of (v : pyval) : cstr := match v with PStr _ s => s | _ => [] end.

Fixpoint first_bad (l : list pyval) (i : nat) : option nat :=
  match l with
  | [] => None
  | x :: r => if is_str x then first_bad r (S i) else Some i
  end.

Fixpoint eval_cond (al asg il : bool) (c : cond) : bool :=
  match c with
  | CAtom n => if String.eqb n "allow_lists" then al else if String.eqb n "allow_single" then asg
               else if String.eqb n "is_list" then il else false
  | CNot c' => negb (eval_cond al asg il c')
  | CAnd a b => eval_cond al asg il a && eval_cond al asg il b
  end.

Fixpoint first_true {B} (al asg il : bool) (l : list (cond * B)) : option B :=
  match l with
  | [] => None
  | (c, b) :: r => if eval_cond al asg il c then Some b else first_true al asg il r
  end.

Definition ensure : ensure_spec :=
  mkEnsureSpec (true, true)
    [(CAnd (CAtom "allow_lists") (CAtom "is_list"), SListOfStr);
     (CAnd (CAtom "allow_single") (CNot (CAtom "is_list")), SStr)]
    "MultipleInvalid"
    (CAtom "allow_lists")
    [(CAnd (CAtom "allow_lists") (CAtom "allow_single"),
      [Lit (s2z "The student_input passed to a grader should be:" ++ [NL]
            ++ s2z " - a text string for problems with a single input box" ++ [NL]
            ++ s2z " - a list of text strings for problems with multiple input boxes" ++ [NL]
            ++ s2z "Received student_input of ")%list; Hole "0"]);
     (CAnd (CAtom "allow_lists") (CNot (CAtom "is_list")),
      [Lit (s2z "Expected student_input to be a list of text strings, but received "); Hole "0"]);
     (CAtom "allow_lists",
      [Lit (s2z "Expected a list of text strings for student_input, but item at position "); Hole "pos";
       Lit (s2z " has "); Hole "thetype"]);
     (CAtom "allow_single", [Lit (s2z "Expected string for student_input, received "); Hole "0"])]
    ("ValueError", s2z "At least one of (allow_lists, allow_single) must be True.")
    "ConfigError"
    [("allow_lists", false)]
    [("allow_single", false)].

(* outcome of the validation inside the try: returned / invalid (with the failing position, if any) / fell through *)
Inductive validated := VRet | VInvalid (pos : option nat) | VNone.

Definition run_validation (en : ensure_spec) (al asg : bool) (v : pyval) : validated :=
  match first_true al asg (is_list v) (en_validate en) with
  | None => VNone
  | Some SStr => if is_str v then VRet else VInvalid None
  | Some SListOfStr =>
      match v with
      | PList _ items => match first_bad items 0 with None => VRet | Some i => VInvalid (Some i) end
      | _ => VInvalid None
      end
  end.

Definition uses_hole (h : string) (parts : list tpart) : bool :=
  existsb (fun p => match p with Hole n => String.eqb n h | Lit _ => false end) parts.

Definition type_error : exc := mkExc (builtin_mro "TypeError") [].

(* ensure_text_inputs(student_input, allow_lists, allow_single) *)
Definition ensure_text (tbl : list (string * string)) (en : ensure_spec) (al asg : bool) (v : pyval) : outcome pyval :=
  match run_validation en al asg v with
  | VRet => Ret v
  | vr =>
      let pos := match vr with
                 | VInvalid p => if eval_cond al asg (is_list v) (en_pos_cond en) then p else None
                 | _ => None
                 end in
      match first_true al asg (is_list v) (en_messages en) with
      | None => Raise (mk_named tbl (fst (en_else en)) (snd (en_else en)))
      | Some parts =>
          let need_pos := uses_hole "pos" parts || uses_hole "thetype" parts in
          match need_pos, pos, v with
          | true, Some i, PList _ items =>
              let env := fun h => if String.eqb h "pos" then dec i
                                  else if String.eqb h "thetype" then ty_of (nth i items (POther []))
                                  else ty_of v in
              Raise (mk_named tbl (en_cls en) (render parts env))
          | true, _, _ => Raise type_error            (* pos unbound / None: cannot happen for the shipped table *)
          | false, _, _ => Raise (mk_named tbl (en_cls en) (render parts (fun _ => ty_of v)))
          end
      end
  end.

Definition kw (l : list (string * bool)) (k : string) (d : bool) : bool :=
  match find (fun p => String.eqb (fst p) k) l with Some (_, b) => b | None => d end.

(* the three ways the library calls it *)
Inductive gmode := ModeItem | ModeList | ModeBoth.

Definition mode_flags (en : ensure_spec) (m : gmode) : bool * bool :=
  let d := en_defaults en in
  match m with
  | ModeBoth => d
  | ModeItem => (kw (en_item_call en) "allow_lists" (fst d), kw (en_item_call en) "allow_single" (snd d))
  | ModeList => (kw (en_list_call en) "allow_lists" (fst d), kw (en_list_call en) "allow_single" (snd d))
  end.

Definition ensure_mode (tbl : list (string * string)) (en : ensure_spec) (m : gmode) (v : pyval) : outcome pyval :=
  let (al, asg) := mode_flags en m in ensure_text tbl en al asg v.

(* what the property calls "text as the grader requires" *)
Fixpoint all_str (l : list pyval) : bool :=
  match l with [] => true | x :: r => is_str x && all_str r end.

Definition shape_ok (m : gmode) (v : pyval) : bool :=
  match v with
  | PStr _ _ => match m with ModeList => false | _ => true end
  | PList _ items => match m with ModeItem => false | _ => all_str items end
  | POther _ => false
  end.

(* ------------------------------------------------------------------------------------------------------- *)
(* 4. the guard of AbstractGrader.__call__                                                                  *)
(* ------------------------------------------------------------------------------------------------------- *)
Definition BR : cstr := s2z "<br/>".

Definition guard : guard_spec :=
  mkGuardSpec "Exception" "debug" "MITxError" ([NL], BR)
    [Lit (s2z "Invalid Input: Could not check inputs '"); Hole "0"; Lit (s2z "'")]
    (s2z "', '")
    [Lit (s2z "Invalid Input: Could not check input '"); Hole "0"; Lit (s2z "'")]
    "StudentFacingError".

Definition generic_msg (g : guard_spec) (inp : pyval) : cstr :=
  match inp with
  | PList _ items => render (g_list_msg g) (fun _ => join (g_list_sep g) (map text_of items))
  | _ => render (g_single_msg g) (fun _ => text_of inp)
  end.

(* try: result = self.check(None, student_input)  except <catch> as error: ... *)
Definition guard_exc (tbl : list (string * string)) (g : guard_spec) (debug : bool) (inp : pyval) (e : exc) : exc :=
  if negb (isinst e (g_catch g)) then e
  else if debug then e
  else if isinst e (g_keep_root g)
       then mkExc (x_mro e) (replace_pat (fst (g_replace g)) (snd (g_replace g)) (x_msg e))
       else mk_named tbl (g_generic_cls g) (generic_msg g inp).

Definition guarded {A} (tbl : list (string * string)) (g : guard_spec) (debug : bool) (inp : pyval) (o : outcome A)
  : outcome A :=
  match o with Ret a => Ret a | Raise e => Raise (guard_exc tbl g debug inp e) end.

(* ------------------------------------------------------------------------------------------------------- *)
(* 5. the whole call                                                                                        *)
(* ------------------------------------------------------------------------------------------------------- *)
Inductive result := RSingle (e : entry) | RMulti (overall : str) (es : list entry).

Definition entries_of (r : result) : list entry := match r with RSingle e => [e] | RMulti _ es => es end.

Definition ATTEMPT_MSG : cstr :=
  s2z "Attempt number not passed to grader as keyword argument 'attempt'. The attribute <code>cfn_extra_args=""attempt""</code> may need to be set in the <code>customresponse</code> tag.".

(* format_messages: "\n" -> "<br/>\n" *)
Definition fmt (s : str) : str := replace1 NL (BR ++ [NL]) s.
Definition fmt_entry (e : entry) : entry := mkEntry (e_ok e) (e_grade e) (fmt (e_msg e)).

Record call_cfg := mkCallCfg {
  cc_debug  : bool;
  cc_mode   : gmode;
  cc_credit : option (Q -> Q);      (* attempt_based_credit (None = disabled); author-defined schedules are total functions *)
  cc_credit_msg : bool
}.

Definition rebuild (r : result) (es : list entry) : result :=
  match r with
  | RSingle e => match es with [e'] => RSingle e' | _ => RSingle e end
  | RMulti o _ => RMulti o es
  end.

(* after a successful check: attempt-based credit (Model/Credit.v), then message formatting.  The texts appended
   to messages (credit note, debug log) are not modelled here -- C17 / C01 state them. *)
Definition post (cfg : call_cfg) (attempt : option Z) (r : result) : outcome result :=
  let after_credit :=
    match cc_credit cfg with
    | None => Ret r
    | Some sched =>
        match apply_credit sched (cc_credit_msg cfg) attempt (entries_of r) with
        | None => Raise (mk_named exc_table "ConfigError" ATTEMPT_MSG)
        | Some c => Ret (rebuild r (c_entries c))
        end
    end in
  match after_credit with
  | Raise e => Raise e
  | Ret r' => Ret (match r' with
                   | RSingle e => RSingle (fmt_entry e)
                   | RMulti o es => RMulti (fmt o) (map fmt_entry es)
                   end)
  end.

(* AbstractGrader.__call__(expect=None, student_input, attempt=...) with `check` an arbitrary oracle *)
Definition call (tbl : list (string * string)) (g : guard_spec) (en : ensure_spec) (cfg : call_cfg)
                (check : pyval -> outcome result) (attempt : option Z) (inp : pyval) : outcome result :=
  match ensure_mode tbl en (cc_mode cfg) inp with
  | Raise e => Raise e
  | Ret v =>
      match guarded tbl g (cc_debug cfg) v (check v) with
      | Raise e => Raise e
      | Ret r => post cfg attempt r
      end
  end.

(* ItemGrader.__call__: answers are inferred from `expect` before anything else (outside the guarded region);
   `infer` is the oracle for schema validation of the author's expect value. *)
Definition item_call (tbl : list (string * string)) (g : guard_spec) (en : ensure_spec) (cfg : call_cfg)
                     (infer : outcome unit) (expect_given : bool)
                     (check : pyval -> outcome result) (attempt : option Z) (inp : pyval) : outcome result :=
  if expect_given
  then match infer with Raise e => Raise e | Ret _ => call tbl g en cfg check attempt inp end
  else call tbl g en cfg check attempt inp.

(* ------------------------------------------------------------------------------------------------------- *)
(* 6. BracketValidator and MathParser.parse                                                                 *)
(* ------------------------------------------------------------------------------------------------------- *)
Inductive bkind := Curly | Paren | Square.

Definition bkind_eqb (a b : bkind) : bool :=
  match a, b with Curly, Curly | Paren, Paren | Square, Square => true | _, _ => false end.

(* Some (kind, is_closer) for the six registered characters *)
Definition classify (c : Z) : option (bkind * bool) :=
  if Z.eqb c 123 then Some (Curly, false) else if Z.eqb c 125 then Some (Curly, true)
  else if Z.eqb c 40 then Some (Paren, false) else if Z.eqb c 41 then Some (Paren, true)
  else if Z.eqb c 91 then Some (Square, false) else if Z.eqb c 93 then Some (Square, true)
  else None.

Inductive bv_result :=
| BvOk
| BvCloseWithoutOpen (idx : nat) (k : bkind)
| BvWrongCloser (prev : nat) (pk : bkind) (idx : nat) (k : bkind)
| BvOpenWithoutClose (stack : list (nat * bkind)).      (* top of the stack first *)

Fixpoint bv_scan (s : cstr) (i : nat) (stack : list (nat * bkind)) : bv_result :=
  match s with
  | [] => match stack with [] => BvOk | _ => BvOpenWithoutClose stack end
  | c :: r =>
      match classify c with
      | None => bv_scan r (S i) stack
      | Some (k, false) => bv_scan r (S i) ((i, k) :: stack)
      | Some (k, true) =>
          match stack with
          | [] => BvCloseWithoutOpen i k
          | (j, pk) :: st' => if bkind_eqb pk k then bv_scan r (S i) st' else BvWrongCloser j pk i k
          end
      end
  end.

Definition bv_validate (s : cstr) : bv_result := bv_scan s 0 [].

Definition bname (k : bkind) : cstr :=
  match k with Curly => s2z "curly brace" | Paren => s2z "parenthesis" | Square => s2z "square bracket" end.
Definition bplural (k : bkind) : cstr :=
  match k with Curly => s2z "curly braces" | Paren => s2z "parentheses" | Square => s2z "square brackets" end.

Fixpoint highlight_from (s : cstr) (i : nat) (idxs : list nat) : cstr :=
  match s with
  | [] => []
  | c :: r => (if existsb (Nat.eqb i) idxs then s2z "<mark>" ++ [c] ++ s2z "</mark>" else [c]) ++ highlight_from r (S i) idxs
  end.

Definition highlight (s : cstr) (idxs : list nat) : cstr := s2z "<code>" ++ highlight_from s 0 idxs ++ s2z "</code>".

Definition count_kind (k : bkind) (st : list (nat * bkind)) : nat :=
  List.length (filter (fun p => bkind_eqb (snd p) k) st).

Definition open_line (k : bkind) (st : list (nat * bkind)) : cstr :=
  let n := count_kind k st in
  match n with
  | O => []
  | S O => dec n ++ s2z " " ++ bname k ++ s2z " was opened without being closed (highlighted below)" ++ [NL]
  | _ => dec n ++ s2z " " ++ bplural k ++ s2z " were opened without being closed (highlighted below)" ++ [NL]
  end.

(* the message of the UnbalancedBrackets error, None when balanced *)
Definition bv_message (s : cstr) : option cstr :=
  match bv_validate s with
  | BvOk => None
  | BvCloseWithoutOpen i k =>
      Some (s2z "Invalid Input: a " ++ bname k ++ s2z " was closed without ever being opened, highlighted below." ++ [NL]
            ++ highlight s [i])
  | BvWrongCloser j pk i k =>
      Some (s2z "Invalid Input: a " ++ bname pk ++ s2z " was opened and then closed by a " ++ bname k
            ++ s2z ", highlighted below." ++ [NL] ++ highlight s [j; i])
  | BvOpenWithoutClose st =>
      Some (s2z "Invalid Input:" ++ [NL] ++ open_line Curly st ++ open_line Paren st ++ open_line Square st
            ++ highlight s (map fst st))
  end.

(* the outcome of pyparsing's engine on the space-free string is an oracle *)
Inductive gram_outcome := GOk | GRaise (e : exc).

Definition parse_handlers : list (string * action) :=
  [("ParseException", RaiseNew "UnableToParse" [Lit (s2z "Invalid Input: Could not parse '"); Hole "0"; Lit (s2z "' as a formula")])].
Definition parse_strip : cstr := [32%Z].
Definition raw_parse_steps : list string := ["BracketValidator.validate"; "self.grammar.parseString"; "MathExpression"].

Fixpoint run_steps (tbl : list (string * string)) (steps : list string) (s : cstr) (gram : cstr -> gram_outcome) : outcome unit :=
  match steps with
  | [] => Ret tt
  | st :: r =>
      if String.eqb st "BracketValidator.validate"
      then match bv_message s with
           | Some m => Raise (mk_named tbl "UnbalancedBrackets" m)
           | None => run_steps tbl r s gram
           end
      else if String.eqb st "self.grammar.parseString"
      then match gram s with GRaise e => Raise e | GOk => run_steps tbl r s gram end
      else run_steps tbl r s gram
  end.

(* MathParser.parse on a string that is not in the cache *)
Definition parse_model (tbl : list (string * string)) (hs : list (string * action)) (strip : cstr) (steps : list string)
                       (expr : cstr) (gram : cstr -> gram_outcome) : outcome unit :=
  handle tbl hs (fun _ => expr) (run_steps tbl steps (remove_chars strip expr) gram).

(* ------------------------------------------------------------------------------------------------------- *)
(* 7. MathExpression.eval / eval_node / eval_function                                                       *)
(* ------------------------------------------------------------------------------------------------------- *)
Definition eval_handlers : list (string * action) :=
  [("OverflowError", RaiseNew "CalcOverflowError" [Lit (s2z "Numerical overflow occurred. Does your input generate very large numbers?")]);
   ("ZeroDivisionError", RaiseNew "CalcZeroDivisionError" [Lit (s2z "Division by zero occurred. Check your input's denominators.")])].

Definition evalfn_handlers : list (string * action) :=
  [("StudentFacingError", Reraise);
   ("ZeroDivisionError", RaiseNew "CalcZeroDivisionError"
      [Lit (s2z "There was an error evaluating "); Hole "name"; Lit (s2z "(...). Its input does not seem to be in its domain.")]);
   ("OverflowError", RaiseNew "CalcOverflowError"
      [Lit (s2z "There was an error evaluating "); Hole "name"; Lit (s2z "(...). (Numerical overflow).")]);
   ("Exception", RaiseNew "FunctionEvalError"
      [Lit (s2z "There was an error evaluating "); Hole "name"; Lit (s2z "(...). Its input does not seem to be in its domain.")])].

Definition arity_error : string * list tpart :=
  ("ArgumentError", [Lit (s2z "Wrong number of arguments passed to "); Hole "func"; Lit (s2z "(...): Expected "); Hole "num";
                     Lit (s2z " inputs, but received "); Hole "num2"; Lit (s2z ".")]).

Definition INF_MSG : cstr := s2z "Numerical overflow occurred. Does your expression generate very large numbers?".

(* the list comprehension of eval_node: children left to right, the first exception propagates *)
Section Children.
  Variables (A B : Type) (ev : A -> outcome B).
  Fixpoint eval_children (l : list A) : outcome (list B) :=
    match l with
    | [] => Ret []
    | x :: r => match ev x with
                | Raise e => Raise e
                | Ret v => match eval_children r with Raise e => Raise e | Ret vs => Ret (v :: vs) end
                end
    end.
End Children.
Arguments eval_children {A B} ev l.

Section Eval.
  Variable val : Type.
  Variable isnan isinf : val -> bool.
  Variable nanv : val.
  Variable tbl : list (string * string).
  Variable fn_hs ev_hs : list (string * action).
  Variable arity_spec : string * list tpart.
  Variable allow_inf : bool.

  (* a parse tree with its leaves and operations given as oracles:
       Leaf  -- number / variable node, already a value
       Fn    -- function node: name, `validated` attribute, expected number of arguments, the function itself
       Op    -- power / negation / parallel / product / sum / array node with its action *)
  Inductive node :=
  | Leaf (v : val)
  | Fn (name : cstr) (validated : bool) (expected : nat) (f : list val -> outcome val) (args : list node)
  | Op (f : list val -> outcome val) (children : list node).

  (* the checks eval_node performs on the value an action returned *)
  Definition post_check (v : val) : outcome val :=
    if negb allow_inf && isinf v then Raise (mk_named tbl "CalcOverflowError" INF_MSG)
    else if isnan v then Ret nanv else Ret v.

  (* eval_function *)
  Definition call_function (name : cstr) (validated : bool) (expected : nat) (f : list val -> outcome val) (args : list val)
    : outcome val :=
    if negb validated && negb (Nat.eqb expected (List.length args))
    then Raise (mk_named tbl (fst arity_spec)
                  (render (snd arity_spec) (fun h => if String.eqb h "func" then name
                                                     else if String.eqb h "num" then dec expected else dec (List.length args))))
    else handle tbl fn_hs (fun _ => name) (f args).

  Fixpoint eval_node (n : node) : outcome val :=
    match n with
    | Leaf v => post_check v
    | Fn name validated expected f args =>
        match eval_children eval_node args with
        | Raise e => Raise e
        | Ret vs => if existsb isnan vs then Ret nanv
                    else match call_function name validated expected f vs with
                         | Raise e => Raise e
                         | Ret v => post_check v
                         end
        end
    | Op f children =>
        match eval_children eval_node children with
        | Raise e => Raise e
        | Ret vs => if existsb isnan vs then Ret nanv
                    else match f vs with Raise e => Raise e | Ret v => post_check v end
        end
    end.

  (* MathExpression.eval *)
  Definition eval_top (n : node) : outcome val := handle tbl ev_hs (fun _ => []) (eval_node n).
End Eval.

Arguments Leaf {val} v.
Arguments Fn {val} name validated expected f args.
Arguments Op {val} f children.
