(* ItemCheckAgree.v -- executable agreement predicates used by the correspondence cases of C08
   (harness/props/c08.py).  The check_response oracle of a case is the table of results the
   implementation produced, keyed by the identity of the expect value; the observed configuration,
   the observed sequence of check_response calls and the observed outcome are embedded in the case. *)
From Coq Require Import ZArith QArith List Bool.
From Verif.Lib Require Import QRound.
From Verif.Model Require Import Result ItemCheck.
Import ListNotations.
Open Scope Q_scope.

Definition exc := (bool * Z)%type.            (* (is a subclass of MITxError, class id) *)
Definition tbl := list (Z * (entry + exc)).

Definition cls_config_error : Z := 1.          (* mitxgraders.exceptions.ConfigError *)
Definition cls_student_facing : Z := 2.        (* mitxgraders.exceptions.StudentFacingError *)
Definition cls_value_error : Z := 3.           (* builtins.ValueError *)

Fixpoint lookup (t : tbl) (k : Z) : entry + exc :=
  match t with
  | [] => inr (false, (-1)%Z)
  | (k', v) :: r => if (k =? k')%Z then v else lookup r k
  end.

Definition table_cr (t : tbl) (s : single Z) (_ : unit) : entry + exc := lookup t (s_expect s).

Definition entry_eqb (a b : entry) : bool :=
  okv_eqb (e_ok a) (e_ok b) && Qeq_bool (e_grade a) (e_grade b) && str_eqb (e_msg a) (e_msg b).

Fixpoint zlist_eqb (a b : list Z) : bool :=
  match a, b with
  | [], [] => true
  | x :: a', y :: b' => (x =? y)%Z && zlist_eqb a' b'
  | _, _ => false
  end.

Definition single_eqb (a b : single Z) : bool :=
  (s_expect a =? s_expect b)%Z && Qeq_bool (s_credit a) (s_credit b) && str_eqb (s_msg a) (s_msg b)
  && okv_eqb (s_ok a) (s_ok b).

Definition answer_eqb (a b : answer Z) : bool :=
  zlist_eqb (a_expects a) (a_expects b) && Qeq_bool (a_credit a) (a_credit b) && str_eqb (a_msg a) (a_msg b)
  && okv_eqb (a_ok a) (a_ok b).

Fixpoint list_eqb {A} (f : A -> A -> bool) (a b : list A) : bool :=
  match a, b with
  | [], [] => true
  | x :: a', y :: b' => f x y && list_eqb f a' b'
  | _, _ => false
  end.

(* what the caller of check observes *)
Inductive obs := ORet (e : entry) | OExc (cls : Z).

Definition obs_eqb (a b : obs) : bool :=
  match a, b with
  | ORet x, ORet y => entry_eqb x y
  | OExc c, OExc d => (c =? d)%Z
  | _, _ => false
  end.

(* as seen by the direct caller of ItemGrader.check (a list grader using the item grader as subgrader) *)
Definition surface_sub (o : outcome exc) : obs :=
  match o with
  | Ret e => ORet e
  | NoAnswers => OExc cls_config_error
  | NoResults => OExc cls_value_error
  | Raised (_, c) => OExc c
  end.

(* as seen through AbstractGrader.__call__ (debug off): MITxError subclasses keep their class, anything
   else becomes StudentFacingError *)
Definition surface_top (o : outcome exc) : obs :=
  match o with
  | Ret e => ORet e
  | NoAnswers => OExc cls_config_error
  | NoResults => OExc cls_student_facing
  | Raised (mitx, c) => OExc (if mitx then c else cls_student_facing)
  end.

(* one call of the grader: the oracle table, the check_response calls seen, the outcome seen *)
Definition run := (tbl * list (single Z) * obs)%type.

Definition run_agree (surface : outcome exc -> obs) (wm : str) (l : list (answer Z)) (r : run) : bool :=
  match r with
  | (t, seen, out) =>
      list_eqb single_eqb (calls (table_cr t) (flatten l) tt) seen
      && obs_eqb (surface (check (table_cr t) wm l tt)) out
  end.

Inductive case :=
| Top (raw : raw_answers Z) (wm : str) (cfg : option (list (answer Z))) (runs : list run)
       (* author's answers, wrong_msg, observed config['answers'] (None: construction refused), calls *)
| Sub (answers : list (answer Z)) (wm : str) (r : run).
       (* ItemGrader.check(answers, input) called by a list grader *)

Definition agree (c : case) : bool :=
  match c with
  | Top raw wm cfg runs =>
      match canon raw, cfg with
      | None, None => match runs with [] => true | _ => false end
      | Some l, Some l' => list_eqb answer_eqb l l' && forallb (run_agree surface_top wm l) runs
      | _, _ => false
      end
  | Sub l wm r => run_agree surface_sub wm l r
  end.

(* monomorphic constructors for the generated case files (no implicit arguments to infer: the files
   elaborate several times faster) *)
Definition ans (es : list Z) (c : Q) (m : str) (o : okv) : answer Z := mkAnswer es c m o.
Definition sgl (e : Z) (c : Q) (m : str) (o : okv) : single Z := mkSingle e c m o.
Definition t_hit (k : Z) (o : okv) (g : Q) (m : str) : Z * (entry + exc) := (k, inl (mkEntry o g m)).
Definition t_exc (k : Z) (mitx : bool) (c : Z) : Z * (entry + exc) := (k, inr (mitx, c)).
Definition o_ret (o : okv) (g : Q) (m : str) : obs := ORet (mkEntry o g m).
Definition mkrun (t : tbl) (c : list (single Z)) (o : obs) : run := (t, c, o).
Definition r_one (e : Z) : raw_expect Z := ROne e.
Definition r_many (e : list Z) : raw_expect Z := RMany e.
Definition r_bare (e : raw_expect Z) : raw_answer Z := RBare e.
Definition r_dict (e : raw_expect Z) (c : option Q) (m : option str) (o : option raw_ok) : raw_answer Z := RDict e c m o.
Definition r_tuple (l : list (raw_answer Z)) : raw_answers Z := RTuple l.
Definition r_single (a : raw_answer Z) : raw_answers Z := RSingle a.
Definition someq (q : Q) : option Q := Some q.
Definition somes (s : str) : option str := Some s.
Definition noq : option Q := None.
Definition nos : option str := None.
Definition nook : option raw_ok := None.
Definition someok (o : raw_ok) : option raw_ok := Some o.
Definition cfg_some (l : list (answer Z)) : option (list (answer Z)) := Some l.
Definition cfg_none : option (list (answer Z)) := None.
