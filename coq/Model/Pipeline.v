(* Pipeline.v -- hand-written executable model of the RESULT-ASSEMBLY pipeline of mitxgraders (property C01).

   What is modelled (file : function):
     baseclasses.py   : AbstractGrader.__call__ (input typing, key stripping, attempt credit, debug append,
                        format_messages), ItemGrader.check (best alternative, wrong_msg),
                        ItemGrader.standardize_cfn_return, ItemGrader.validate_single_answer (ok canonicalisation)
     listgrader.py    : padded_check, get_padded_lists, consolidate_grades, consolidate_single_return,
                        SingleListGrader.check_response / process_grade_list,
                        ListGrader.check / perform_check / validate_submission / groupify_list / ungroupify_list /
                        get_ordered_input_list, find_optimal_order (the assignment itself is an ORACLE),
                        the partial_credit=False zeroing
     stringgrader.py  : the three result shapes of StringGrader.check_response (accept / reject / construct_message)
     math_helpers.py  : MathMixin.consolidate_results, the grade scaling loop of FormulaGrader.raw_check
     matrixgrader.py  : MatrixGrader.check_response (suppression branches)
     intervalgrader.py: IntervalGrader.check_response / grade_bracket
     integralgrader.py: SummationGraderBase.raw_check's consolidation (SumGrader)

   What is an oracle (function argument, never an axiom), keyed by the PATH of the call in the tree of
   check / check_response invocations (the k-th child call made inside a frame has path p ++ [k]):
     o_leaf : what a leaf grader's comparison produced (the raw comparer returns of a formula-type grader, the
              accept/reject decision of a StringGrader, the exception class MatrixGrader caught, an opaque
              result of an author-defined ItemGrader, or "it raised")
     o_perm : the (row, column) pairs Munkres returned for the cost matrix built in that frame
     o_best : the index ListGrader.get_best_result chose among the alternative answer lists
   No proofs here. *)
From Coq Require Import ZArith QArith Qabs List Bool Arith.
From Verif.Lib Require Import QRound PyNum.
From Verif.Model Require Import Result Credit.
Import ListNotations.
Open Scope Q_scope.

(* ------------------------------------------------------------------------------------------------
   strings (Python str = list of code points)
   ------------------------------------------------------------------------------------------------ *)
Definition is_empty (s : str) : bool := match s with [] => true | _ => false end.

(* "<br/>\n" *)
Definition s_br : str := [60; 98; 114; 47; 62; 10]%Z.

(* msg.replace("\n", "<br/>\n") *)
Fixpoint replace_nl (s : str) : str :=
  match s with
  | [] => []
  | c :: r => if (c =? 10)%Z then s_br ++ replace_nl r else c :: replace_nl r
  end.

(* sep.join(l) *)
Fixpoint join (sep : str) (l : list str) : str :=
  match l with
  | [] => []
  | [s] => s
  | s :: r => s ++ sep ++ join sep r
  end.

Definition s_nl : str := [10]%Z.
Definition s_nlnl : str := [10; 10]%Z.

(* the characters str.strip() removes / for which a one-character string has strip() == '' (Py_UNICODE_ISSPACE);
   the harness checks this table against Python over every code point on each run *)
Definition is_space (c : Z) : bool :=
  ((9 <=? c) && (c <=? 13) || (28 <=? c) && (c <=? 32) || (c =? 133) || (c =? 160) || (c =? 5760)
   || (8192 <=? c) && (c <=? 8202) || (c =? 8232) || (c =? 8233) || (c =? 8239) || (c =? 8287) || (c =? 12288))%Z.

Definition is_blank (s : str) : bool := forallb is_space s.       (* s.strip() == '' *)

Fixpoint lstrip (s : str) : str :=
  match s with
  | [] => []
  | c :: r => if is_space c then lstrip r else s
  end.
Definition strip (s : str) : str := rev (lstrip (rev (lstrip s))).

Fixpoint is_prefix (d s : str) : bool :=
  match d, s with
  | [], _ => true
  | x :: d', y :: s' => (x =? y)%Z && is_prefix d' s'
  | _ :: _, [] => false
  end.

(* s.split(d) for a non-empty d: left to right, non-overlapping.  `skip` characters of a delimiter just
   recognised are still to be consumed; `cur` is the current piece, reversed. *)
Fixpoint split_aux (d s cur : str) (skip : nat) : list str :=
  match s with
  | [] => [rev cur]
  | c :: r =>
      match skip with
      | S k => split_aux d r cur k
      | O => if is_prefix d s then rev cur :: split_aux d r [] (length d - 1)
             else split_aux d r (c :: cur) 0
      end
  end.
Definition split (d s : str) : option (list str) :=
  match d with [] => None (* ValueError: empty separator *) | _ => Some (split_aux d s [] 0) end.

Fixpoint mem_z (c : Z) (s : str) : bool :=
  match s with [] => false | x :: r => (x =? c)%Z || mem_z c r end.

(* decimal rendering of an integer *)
Fixpoint digits (fuel : nat) (n : Z) (acc : str) : str :=
  match fuel with
  | O => acc
  | S f => let acc' := (48 + n mod 10)%Z :: acc in
           if (n / 10 =? 0)%Z then acc' else digits f (n / 10)%Z acc'
  end.
Definition dec (n : Z) : str := if (n <? 0)%Z then 45%Z :: digits 80 (- n)%Z [] else digits 80 n [].

(* ------------------------------------------------------------------------------------------------
   results
   ------------------------------------------------------------------------------------------------ *)
(* an item-level result dictionary as it travels between nesting levels: the three edX keys plus the
   bookkeeping key 'all_awarded' ('individual' is carried separately where it is needed) *)
Record ires := mkI { i_e : entry; i_all : bool }.

Definition short (e : entry) : ires := mkI e false.
Definition zero_res (m : str) : ires := short (mkEntry OkFalse 0 m).
(* padded_check: {'ok': False, 'msg': '', 'grade_decimal': 0, 'all_awarded': False} *)
Definition auto_fail : ires := mkI (mkEntry OkFalse 0 []) false.

(* a slot of a long-form input_list: a result dictionary, or something that is not one (None left by
   ungroupify_list, a nested list, a dictionary key) -- the latter makes the call fail later *)
Inductive res :=
| RShort (r : ires)
| RLong (overall : str) (slots : list (option ires)).

Inductive out (A : Type) :=
| Ret (a : A)
| Raise            (* an exception leaves the function (which one is C02's business) *)
| Missing          (* the oracle tables of a correspondence case have no row for a call the model makes *)
| Fuel.            (* recursion budget exhausted (never on trees of depth < fuel) *)
Arguments Ret {A}. Arguments Raise {A}. Arguments Missing {A}. Arguments Fuel {A}.

Definition bind {A B} (o : out A) (f : A -> out B) : out B :=
  match o with Ret a => f a | Raise => Raise | Missing => Missing | Fuel => Fuel end.

(* evaluation order: the first call that does not return decides *)
Fixpoint collect {A} (l : list (out A)) : out (list A) :=
  match l with
  | [] => Ret []
  | o :: r => bind o (fun a => bind (collect r) (fun t => Ret (a :: t)))
  end.

Fixpoint mapi_from {A B} (f : nat -> A -> B) (i : nat) (l : list A) : list B :=
  match l with [] => [] | a :: r => f i a :: mapi_from f (S i) r end.
Definition mapi {A B} (f : nat -> A -> B) (l : list A) : list B := mapi_from f 0 l.

(* what edX receives *)
Inductive edx :=
| ESingle (e : entry)
| EMulti (overall : str) (l : list entry).

(* ------------------------------------------------------------------------------------------------
   configuration: answers, graders, oracles
   ------------------------------------------------------------------------------------------------ *)
(* validated config['answers'] values *)
Inductive ans :=
| AItem (alts : list alt)                 (* ItemGrader: tuple of answer dictionaries *)
| AList (lists : list (list ans))         (* ListGrader: tuple of answer lists *)
with alt := Alt (expects : list expect) (credit : Q) (amsg : str) (aok : okv)
with expect :=
| ELeaf (s : str)                         (* leaf graders: the comparison is the oracle's; brackets: the character *)
| EItems (items : list ans).              (* SingleListGrader: one validated sub-answer per list item *)

Definition alt_expects (a : alt) := match a with Alt e _ _ _ => e end.
Definition alt_credit (a : alt) := match a with Alt _ c _ _ => c end.
Definition alt_msg (a : alt) := match a with Alt _ _ m _ => m end.
Definition alt_ok (a : alt) := match a with Alt _ _ _ o => o end.

(* ItemGrader.validate_single_answer: ok is recomputed unless it was given explicitly AND grade_decimal == 1 *)
Inductive raw_ok := RComputed | RPinned (o : okv).
Definition canon_ok (c : Q) (r : raw_ok) : okv :=
  match r with
  | RComputed => grade_to_ok c
  | RPinned o => if Qeq_bool c 1 then o else grade_to_ok c
  end.
Definition mk_alt (e : list expect) (c : Q) (m : str) (r : raw_ok) : alt := Alt e c m (canon_ok c r).

Record mcfg := mkM { m_suppress : bool; m_shape_errors : bool; m_is_raised : bool }.
Inductive leafkind :=
| KOpaque                                   (* author-defined ItemGrader: check_response is arbitrary *)
| KString
| KFormula (failable : nat)                 (* FormulaGrader / NumericalGrader *)
| KMatrix (failable : nat) (c : mcfg).

Record slcfg := mkSL { sl_ordered : bool; sl_partial : bool; sl_length_error : bool; sl_missing_error : bool;
                       sl_delim : str }.
Record ivcfg := mkIV { iv_partial : bool; iv_delim : str; iv_open : str; iv_close : str }.
Record lcfg := mkL { l_ordered : bool; l_partial : bool; l_grouping : list nat; l_single : bool }.

Inductive grader :=
| GItem (k : leafkind) (wrong : str)
| GSList (c : slcfg) (wrong : str) (sub : grader)
| GInterval (c : ivcfg) (wrong : str) (sub : grader)
| GList (c : lcfg) (subs : list grader)       (* l_single: `subgraders` is one grader = [g] *)
| GSum (failable : nat).

(* isinstance(g, SingleListGrader) *)
Definition is_slist (g : grader) : bool :=
  match g with GSList _ _ _ | GInterval _ _ _ => true | _ => false end.

Inductive input := IStr (s : str) | IList (l : list str).

(* raw comparer returns, as classified by standardize_cfn_return *)
Inductive cfn := CfTrue | CfFalse | CfPartial | CfDict (g : Q) (m : str).
Inductive sout := SAccept | SReject | SInvalid (m : str).
Inductive materr := MShape | MInputType | MOther.
Inductive lout :=
| LRet (r : ires)
| LStr (o : sout)
| LCfn (l : list cfn)
| LMatErr (k : materr) (m : str)
| LRaise
| LMissing.

Definition path := list nat.
(* o_recompute is not an oracle but the VERSION of FormulaGrader.raw_check in force: after scaling a comparer result by the
   answer's grade_decimal, does it re-derive 'ok' from the scaled grade for results whose ok is not True?
   false for the code as found (finding C01, see Props/C01.v); the harness reads it off the source on every run, so that
   the model follows the repaired /repo. *)
Record oracles := mkO { o_leaf : path -> lout; o_perm : path -> list (nat * nat); o_best : path -> nat;
                        o_recompute : bool }.

(* ------------------------------------------------------------------------------------------------
   leaves
   ------------------------------------------------------------------------------------------------ *)
(* ItemGrader.standardize_cfn_return *)
Definition standardize (v : cfn) : entry :=
  match v with
  | CfTrue => mkEntry OkTrue 1 []
  | CfPartial => mkEntry OkPartial (1 # 2) []
  | CfFalse => mkEntry OkFalse 0 []
  | CfDict g m => mkEntry (grade_to_ok g) g m
  end.

(* FormulaGrader.raw_check:  result['grade_decimal'] *= answer['grade_decimal']
   code as found (recompute = false): 'ok' is left alone;
   repaired code (recompute = true):  if result['ok'] is not True: result['ok'] = grade_decimal_to_ok(result['grade_decimal']) *)
Definition scale_raw (recompute : bool) (c : Q) (e : entry) : entry :=
  mkEntry (if recompute && negb (okv_eqb (e_ok e) OkTrue) then grade_to_ok (e_grade e * c) else e_ok e)
          (e_grade e * c) (e_msg e).

(* MathMixin.consolidate_results: the first result that makes the failure count exceed failable_evals
   (or the only result, if it is not ok) is returned; otherwise the pruned answer *)
Fixpoint consolidate_loop (single : bool) (failable failures : nat) (rs : list entry) : option entry :=
  match rs with
  | [] => None
  | r :: t =>
      if okv_eqb (e_ok r) OkTrue then consolidate_loop single failable failures t
      else if single || (failable <? S failures)%nat then Some r
           else consolidate_loop single failable (S failures) t
  end.
Definition consolidate (rs : list entry) (pruned : entry) (failable : nat) : entry :=
  match consolidate_loop (length rs =? 1)%nat failable 0 rs with Some r => r | None => pruned end.

Definition formula_response (recompute : bool) (failable : nat) (c : Q) (m : str) (o : okv) (l : list cfn) : ires :=
  short (consolidate (map (fun v => scale_raw recompute c (standardize v)) l) (mkEntry o c m) failable).

(* SummationGraderBase.raw_check: consolidate_results(results, None, failable_evals) *)
Definition sum_response (failable : nat) (l : list cfn) : ires :=
  short (consolidate (map standardize l) (mkEntry OkTrue 1 []) failable).

Definition string_response (c : Q) (m : str) (o : okv) (s : sout) : ires :=
  match s with
  | SAccept => short (mkEntry o c m)
  | SReject => zero_res []
  | SInvalid im => zero_res im
  end.

(* MatrixGrader.check_response, the except branches *)
Definition matrix_err (c : mcfg) (k : materr) (m : str) : out ires :=
  if m_suppress c then Ret (zero_res [])
  else match k with
       | MShape => if m_shape_errors c then Raise else Ret (zero_res m)
       | MInputType => if m_is_raised c then Raise else Ret (zero_res m)
       | MOther => Raise
       end.

Definition leaf_response (rc : bool) (k : leafkind) (c : Q) (m : str) (o : okv) (l : lout) : out ires :=
  match l with
  | LRaise => Raise
  | LMissing => Missing
  | LRet r => Ret r
  | LStr s => match k with KString => Ret (string_response c m o s) | _ => Missing end
  | LCfn v => match k with
              | KFormula f | KMatrix f _ => Ret (formula_response rc f c m o v)
              | _ => Missing
              end
  | LMatErr e em => match k with KMatrix _ mc => matrix_err mc e em | _ => Missing end
  end.

(* ------------------------------------------------------------------------------------------------
   ItemGrader.check: best alternative
   ------------------------------------------------------------------------------------------------ *)
(* max(): the first maximal element *)
Fixpoint max_grade (cur : Q) (rs : list ires) : Q :=
  match rs with
  | [] => cur
  | r :: t => max_grade (if Qltb cur (e_grade (i_e r)) then e_grade (i_e r) else cur) t
  end.
Fixpoint longest (cur : ires) (rs : list ires) : ires :=
  match rs with
  | [] => cur
  | r :: t => longest (if (length (e_msg (i_e cur)) <? length (e_msg (i_e r)))%nat then r else cur) t
  end.

Definition set_msg (r : ires) (m : str) : ires :=
  mkI (mkEntry (e_ok (i_e r)) (e_grade (i_e r)) m) (i_all r).

Definition item_select (wrong : str) (rs : list ires) : out ires :=
  match rs with
  | [] => Raise                                         (* max() of an empty list *)
  | r0 :: t =>
      let best := max_grade (e_grade (i_e r0)) t in
      match filter (fun r => Qeq_bool (e_grade (i_e r)) best) rs with
      | [] => Raise
      | b0 :: bt =>
          let ch := longest b0 bt in
          Ret (if is_empty (e_msg (i_e ch)) && Qeq_bool best 0 then set_msg ch wrong else ch)
      end
  end.

(* for answer in answers: for entry in answer['expect'] *)
Definition singles (alts : list alt) : list (expect * alt) :=
  flat_map (fun a => map (fun e => (e, a)) (alt_expects a)) alts.

(* ------------------------------------------------------------------------------------------------
   SingleListGrader
   ------------------------------------------------------------------------------------------------ *)
Fixpoint sumq (l : list Q) : Q := match l with [] => 0 | x :: r => x + sumq r end.

(* consolidate_grades (the list always has at least n_expect entries here: it was padded) *)
Definition consolidate_grades (grades : list Q) (n_expect : nat) : Q :=
  let n_extra := (length grades - n_expect)%nat in
  Qmax 0 ((sumq grades - inject_Z (Z.of_nat n_extra)) / inject_Z (Z.of_nat n_expect)).

(* consolidate_single_return + process_grade_list *)
Definition process_grade_list (sub_is_slist partial : bool) (gl : list ires) (n_expect : nat) (m : str) (c : Q)
  : out ires :=
  match n_expect with
  | O => Raise                                          (* ZeroDivisionError *)
  | _ =>
      let g0 := consolidate_grades (map (fun r => e_grade (i_e r)) gl) n_expect in
      let g1 := if negb partial && Qltb g0 1 then 0 else g0 in
      let msgs := filter (fun s => negb (is_empty s)) (map (fun r => e_msg (i_e r)) gl) in
      let m0 := join s_nl msgs in
      let all_awarded := if sub_is_slist then forallb i_all gl
                         else forallb (fun r => Qltb 0 (e_grade (i_e r))) gl in
      let m1 := if all_awarded && negb (is_empty m) then (if is_empty m0 then m else m0 ++ s_nl ++ m) else m0 in
      let g2 := g1 * c in
      Ret (mkI (mkEntry (grade_to_ok g2) g2 m1) all_awarded)
  end.

(* get_padded_lists *)
Definition pad_to {A} (n : nat) (l : list A) : list (option A) :=
  map Some l ++ repeat None (n - length l)%nat.

Fixpoint zip {A B} (a : list A) (b : list B) : list (A * B) :=
  match a, b with x :: a', y :: b' => (x, y) :: zip a' b' | _, _ => [] end.

Definition nth2 {A} (m : list (list A)) (i j : nat) : option A :=
  match nth_error m i with Some row => nth_error row j | None => None end.

(* [result_matrix[i][j] for i, j in indexes] *)
Definition pick_pairs {A} (m : list (list A)) (pairs : list (nat * nat)) : out (list A) :=
  collect (map (fun ij => match nth2 m (fst ij) (snd ij) with Some a => Ret a | None => Raise end) pairs).

Fixpoint chunks {A} (w : nat) (n : nat) (l : list A) : list (list A) :=
  match n with O => [] | S n' => firstn w l :: chunks w n' (skipn w l) end.

(* IntervalGrader.grade_bracket *)
Fixpoint expect_has (c : Z) (es : list expect) : bool :=
  match es with
  | [] => false
  | ELeaf [x] :: r => (x =? c)%Z || expect_has c r
  | _ :: r => expect_has c r
  end.
Fixpoint best_bracket (c : Z) (alts : list alt) (best : option alt) : option alt :=
  match alts with
  | [] => best
  | a :: r =>
      if expect_has c (alt_expects a)
      then match best with
           | None => best_bracket c r (Some a)
           | Some b => best_bracket c r (if Qltb (alt_credit b) (alt_credit a) then Some a else Some b)
           end
      else best_bracket c r best
  end.
Definition grade_bracket (a : ans) (c : Z) (r : ires) : out ires :=
  if Qeq_bool (e_grade (i_e r)) 0 then Ret r
  else match a with
       | AItem alts =>
           match best_bracket c alts None with
           | None => Ret (mkI (mkEntry OkFalse 0 (e_msg (i_e r))) (i_all r))
           | Some b =>
               let g := e_grade (i_e r) * alt_credit b in
               let m := if is_empty (alt_msg b) then e_msg (i_e r)
                        else (if is_empty (e_msg (i_e r)) then alt_msg b else e_msg (i_e r) ++ s_nl ++ alt_msg b) in
               Ret (mkI (mkEntry (grade_to_ok g) g m) (i_all r))
           end
       | AList _ => Raise
       end.

(* ------------------------------------------------------------------------------------------------
   ListGrader helpers
   ------------------------------------------------------------------------------------------------ *)
(* create_grouping_map: group g (1-based) -> indices of the inputs carrying that number, ascending *)
Fixpoint indices_of (g : nat) (grouping : list nat) (i : nat) : list nat :=
  match grouping with
  | [] => []
  | x :: r => if (x =? g)%nat then i :: indices_of g r (S i) else indices_of g r (S i)
  end.
Definition grouping_map (grouping : list nat) : list (list nat) :=
  map (fun g => indices_of (S g) grouping 0) (seq 0 (fold_right Nat.max 0%nat grouping)).

Definition nth_str (l : list str) (i : nat) : str := nth i l [].

(* groupify_list *)
Definition groupify (gm : option (list (list nat))) (inputs : list str) : list input :=
  match gm with
  | None => map IStr inputs
  | Some groups => map (fun grp => match grp with
                                   | [i] => IStr (nth_str inputs i)
                                   | _ => IList (map (nth_str inputs) grp)
                                   end) groups
  end.

Fixpoint set_nth {A} (l : list A) (i : nat) (a : A) : list A :=
  match l, i with
  | [], _ => []
  | _ :: r, O => a :: r
  | x :: r, S i' => x :: set_nth r i' a
  end.

(* the inner loop of ungroupify_list:  for idx, item in zip(indices, items): ungrouped[idx] = item *)
Fixpoint assign {A} (l : list A) (idx : list nat) (items : list A) : list A :=
  match idx, items with
  | i :: idx', a :: items' => assign (set_nth l i a) idx' items'
  | _, _ => l
  end.

(* nested = [r['input_list'] if 'input_list' in r else r ...]; ungroupify_list *)
Definition slots_of_group (grp : list nat) (r : res) : list (option ires) :=
  match grp, r with
  | [_], RShort d => [Some d]
  | [_], RLong _ _ => [None]                     (* a list lands in the slot *)
  | _, RLong _ l => l
  | _, RShort _ => map (fun _ => None) grp       (* iterating a dict yields its keys *)
  end.
Fixpoint ungroup_loop (acc : list (option ires)) (groups : list (list nat)) (rs : list res) : list (option ires) :=
  match groups, rs with
  | grp :: groups', r :: rs' => ungroup_loop (assign acc grp (slots_of_group grp r)) groups' rs'
  | _, _ => acc
  end.
Definition ungroupify (gm : option (list (list nat))) (n_inputs : nat) (rs : list res) : list (option ires) :=
  match gm with
  | None => map (fun r => match r with RShort d => Some d | RLong _ _ => None end) rs
  | Some groups => ungroup_loop (repeat None n_inputs) groups rs
  end.

Definition all_slots_good (l : list (option ires)) : bool :=
  forallb (fun s => match s with Some _ => true | None => false end) l.

(* partial_credit=False: zero everything unless every entry has ok is True *)
Definition zero_unless_perfect (l : list (option ires)) : out (list (option ires)) :=
  if negb (all_slots_good l) then Raise                 (* entry['ok'] on something that is not a dict *)
  else
    let perfect := forallb (fun s => match s with Some r => okv_eqb (e_ok (i_e r)) OkTrue | None => false end) l in
    if perfect then Ret l
    else Ret (map (fun s => match s with
                            | Some r => Some (mkI (mkEntry OkFalse 0 (e_msg (i_e r))) (i_all r))
                            | None => None
                            end) l).

(* get_best_result: a single answer list is returned untouched; otherwise every entry's grade is read (which
   fails on a slot that is not a dictionary) and the oracle names the winner *)
Definition choose_best (results : list (list (option ires))) (best : nat) : out (list (option ires)) :=
  match results with
  | [r] => Ret r
  | _ => if forallb all_slots_good results
         then match nth_error results best with Some r => Ret r | None => Missing end
         else Raise
  end.

(* ------------------------------------------------------------------------------------------------
   check / check_response, all graders
   ------------------------------------------------------------------------------------------------ *)
Definition as_short (o : out res) : out ires :=
  bind o (fun r => match r with RShort d => Ret d | RLong _ _ => Raise end).   (* result['grade_decimal'] *)

Section Check.
  Variable OR : oracles.

  (* padded_check(subgrader.check) applied to the idx-th pair *)
  Definition sl_checker (chk : grader -> ans -> input -> path -> out res) (sub : grader) (p : path)
             (idx : nat) (oa : option ans) (os : option str) : out ires :=
    match oa, os with
    | Some a', Some x' => as_short (chk sub a' (IStr x') (p ++ [idx]))
    | _, _ => Ret auto_fail
    end.

  (* the grade list: zip (ordered) or the assignment the oracle chose in the padded square matrix
     result_matrix = [[check(a, i) for a in answers] for i in student_list] *)
  Definition sl_graded (chk : grader -> ans -> input -> path -> out res) (ordered : bool) (sub : grader) (p : path)
             (n : nat) (pa : list (option ans)) (ps : list (option str)) : out (list ires) :=
    if ordered
    then collect (mapi (fun k pr => sl_checker chk sub p k (fst pr) (snd pr)) (zip pa ps))
    else bind (collect (concat (mapi (fun i os => mapi (fun j oa => sl_checker chk sub p (i * n + j)%nat oa os) pa) ps)))
              (fun flat => pick_pairs (chunks n n flat) (o_perm OR p)).

  (* SingleListGrader.check_response for ONE expect list; returns the consolidated result and 'individual' *)
  Definition slist_response (chk : grader -> ans -> input -> path -> out res)
             (c : slcfg) (sub : grader) (a : alt) (e : expect) (x : input) (p : path) : out (ires * list ires) :=
    match e, x with
    | EItems items, IStr s =>
        match split (sl_delim c) s with
        | None => Raise
        | Some studs =>
            if sl_length_error c && negb (length items =? length studs)%nat then Raise      (* MissingInput *)
            else if sl_missing_error c && existsb is_blank studs then Raise                  (* MissingInput *)
            else
              let n := Nat.max (length items) (length studs) in
              bind (sl_graded chk (sl_ordered c) sub p n (pad_to n items) (pad_to n studs)) (fun gl =>
                bind (process_grade_list (is_slist sub) (sl_partial c) gl (length items) (alt_msg a) (alt_credit a))
                     (fun r => Ret (r, gl)))
        end
    | _, _ => Raise
    end.

  Definition interval_response (chk : grader -> ans -> input -> path -> out res)
             (c : ivcfg) (sub : grader) (a : alt) (e : expect) (x : input) (p : path) : out ires :=
    match e, x with
    | EItems [a_open; a_lo; a_hi; a_close], IStr s0 =>
        let s := strip s0 in
        if (length s <? 5)%nat then Raise                                       (* ConfigError *)
        else
          let opening := hd 0%Z s in
          let closing := last s 0%Z in
          let middle := removelast (tl s) in
          if negb (mem_z opening (iv_open c)) then Raise                        (* InvalidInput *)
          else if negb (mem_z closing (iv_close c)) then Raise
          else
            let sc := mkSL true (iv_partial c) true true (iv_delim c) in
            bind (slist_response chk sc sub a (EItems [a_lo; a_hi]) (IStr middle) (p ++ [0%nat]))
                 (fun rg => match snd rg with
                            | [g0; g1] =>
                                bind (grade_bracket a_open opening g0) (fun g0' =>
                                bind (grade_bracket a_close closing g1) (fun g1' =>
                                  process_grade_list (is_slist sub) (iv_partial c) [g0'; g1'] 2 (alt_msg a) (alt_credit a)))
                            | _ => Raise
                            end)
    | _, _ => Raise
    end.

  (* get_ordered_input_list / find_optimal_order over the grouped inputs: the per-group results and the number of
     sub-check calls made.  `off` = calls made before in this frame, `k` = index of the answer list. *)
  Definition run_groups (chk : grader -> ans -> input -> path -> out res)
             (c : lcfg) (subs : list grader) (answers : list ans) (grouped : list input) (p : path) (off k : nat)
    : out (list res) * nat :=
    if l_ordered c then
      let graders := if l_single c then repeat (hd (GSum 0) subs) (length answers) else subs in
      let triples := zip graders (zip answers grouped) in
      (collect (mapi (fun i t => chk (fst t) (fst (snd t)) (snd (snd t)) (p ++ [(off + i)%nat])) triples),
       length triples)
    else
      let sub := hd (GSum 0) subs in
      let m := length answers in
      (bind (collect (concat (mapi (fun i xi => mapi (fun j aj => chk sub aj xi (p ++ [(off + i * m + j)%nat]))
                                                     answers) grouped)))
            (fun flat => pick_pairs (chunks m (length grouped) flat) (o_perm OR (p ++ [k]))),
       (length grouped * m)%nat).

  (* ListGrader.perform_check for one answer list.  Returns the slots and the calls consumed. *)
  Definition perform_check (chk : grader -> ans -> input -> path -> out res)
             (c : lcfg) (subs : list grader) (answers : list ans) (inputs : list str) (p : path) (off k : nat)
    : out (list (option ires)) * nat :=
    let bad_count := match l_grouping c with
                     | [] => negb (length answers =? length inputs)%nat
                     | g => negb (length g =? length inputs)%nat
                     end in
    if bad_count then (Raise, 0%nat)                                             (* ConfigError *)
    else
      let gm := match l_grouping c with [] => None | g => Some (grouping_map g) end in
      let ran := run_groups chk c subs answers (groupify gm inputs) p off k in
      (bind (fst ran) (fun rs => Ret (ungroupify gm (length inputs) rs)), snd ran).

  Fixpoint perform_all (chk : grader -> ans -> input -> path -> out res)
           (c : lcfg) (subs : list grader) (lists : list (list ans)) (inputs : list str) (p : path) (off k : nat)
    : list (out (list (option ires))) :=
    match lists with
    | [] => []
    | al :: r =>
        let pr := perform_check chk c subs al inputs p off k in
        fst pr :: perform_all chk c subs r inputs p (off + snd pr)%nat (S k)
    end.

  Fixpoint check (fuel : nat) (g : grader) (a : ans) (x : input) (p : path) {struct fuel} : out res :=
    match fuel with
    | O => Fuel
    | S f =>
        match g with
        | GItem k wrong =>
            match a with
            | AItem [] => Raise                                                     (* ConfigError: no answers *)
            | AItem alts =>
                bind (collect (mapi (fun i ea => leaf_response (o_recompute OR) k (alt_credit (snd ea)) (alt_msg (snd ea))
                                                               (alt_ok (snd ea)) (o_leaf OR (p ++ [i])))
                                    (singles alts)))
                     (fun rs => bind (item_select wrong rs) (fun r => Ret (RShort r)))
            | AList _ => Raise
            end
        | GSList c wrong sub =>
            match a with
            | AItem [] => Raise
            | AItem alts =>
                bind (collect (mapi (fun i ea => bind (slist_response (check f) c sub (snd ea) (fst ea) x (p ++ [i]))
                                                      (fun rg => Ret (fst rg)))
                                    (singles alts)))
                     (fun rs => bind (item_select wrong rs) (fun r => Ret (RShort r)))
            | AList _ => Raise
            end
        | GInterval c wrong sub =>
            match a with
            | AItem [] => Raise
            | AItem alts =>
                bind (collect (mapi (fun i ea => interval_response (check f) c sub (snd ea) (fst ea) x (p ++ [i]))
                                    (singles alts)))
                     (fun rs => bind (item_select wrong rs) (fun r => Ret (RShort r)))
            | AList _ => Raise
            end
        | GList c subs =>
            match a, x with
            | AList [], _ => Raise
            | AList lists, IList inputs =>
                bind (collect (perform_all (check f) c subs lists inputs p 0 0))
                     (fun results =>
                        bind (choose_best results (o_best OR p)) (fun slots =>
                          bind (if l_partial c then Ret slots else zero_unless_perfect slots)
                               (fun slots' => Ret (RLong [] slots'))))
            | _, _ => Raise
            end
        | GSum failable =>
            match o_leaf OR p with
            | LCfn l => Ret (RShort (sum_response failable l))
            | LRet r => Ret (RShort r)
            | LRaise => Raise
            | _ => Missing
            end
        end
    end.
End Check.

(* ------------------------------------------------------------------------------------------------
   AbstractGrader.__call__
   ------------------------------------------------------------------------------------------------ *)
Record ccfg := mkC { c_debug : bool; c_sched : option (Q -> Q); c_msgflag : bool }.

(* "Maximum credit for attempt #" , " is " , "%." *)
Definition s_note1 : str :=
  [77;97;120;105;109;117;109;32;99;114;101;100;105;116;32;102;111;114;32;97;116;116;101;109;112;116;32;35]%Z.
Definition s_note2 : str := [32;105;115;32]%Z.
Definition s_note3 : str := [37;46]%Z.

(* Decimal(credit*100).quantize(Decimal('.1')), printed without a trailing .0 *)
Definition pct_text (pct10 : Z) : str :=
  if (pct10 mod 10 =? 0)%Z then dec (pct10 / 10)%Z
  else dec (pct10 / 10)%Z ++ [46%Z] ++ dec (pct10 mod 10)%Z.
Definition note_text (attempt pct10 : Z) : str := s_note1 ++ dec attempt ++ s_note2 ++ pct_text pct10 ++ s_note3.

Definition append_sep (m extra : str) : str := if is_empty m then extra else m ++ s_nlnl ++ extra.

(* the input type each class accepts (ensure_text_inputs) *)
Definition input_ok (g : grader) (x : input) : bool :=
  match g, x with
  | GList _ _, IList _ => true
  | GList _ _, IStr _ => false
  | GSum _, _ => true
  | _, IStr _ => true
  | _, IList _ => false
  end.

Definition slots_entries (l : list (option ires)) : out (list entry) :=
  collect (map (fun s => match s with Some r => Ret (i_e r) | None => Raise end) l).   (* entry.items() *)

Definition call (fuel : nat) (OR : oracles) (cfg : ccfg) (g : grader) (a : ans) (x : input)
           (attempt : option Z) (log : str) : out edx :=
  if negb (input_ok g x) then Raise
  else
    bind (check OR fuel g a x [])
      (fun r =>
         (* key stripping *)
         let stripped : out (str * list entry * bool) :=
             match r with
             | RShort d => Ret ([], [i_e d], false)
             | RLong ov slots => bind (slots_entries slots) (fun es => Ret (ov, es, true))
             end in
         bind stripped (fun t =>
           let '(ov, es, multi) := t in
           (* attempt-based credit *)
           let credited : out (list entry * option str) :=
               match c_sched cfg with
               | None => Ret (es, None)
               | Some sched =>
                   match apply_credit sched (c_msgflag cfg) attempt es with
                   | None => Raise
                   | Some cr => Ret (c_entries cr,
                                     if c_note cr then Some (note_text (c_attempt cr) (c_pct10 cr)) else None)
                   end
               end in
           bind credited (fun ce =>
             let '(es', note) := ce in
             let top0 := if multi then ov else match es' with e :: _ => e_msg e | [] => [] end in
             let top1 := match note with Some n => append_sep top0 n | None => top0 end in
             let top2 := if c_debug cfg then append_sep top1 log else top1 in
             if multi
             then Ret (EMulti (replace_nl top2)
                              (map (fun e => mkEntry (e_ok e) (e_grade e) (replace_nl (e_msg e))) es'))
             else match es' with
                  | [e] => Ret (ESingle (mkEntry (e_ok e) (e_grade e) (replace_nl top2)))
                  | _ => Raise
                  end))).
