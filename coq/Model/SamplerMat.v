(* Model/SamplerMat.v -- executable model of the array samplers of mitxgraders/matrixsampling.py (C12).
   No proofs here.

   Matrices are functions nat -> nat -> C used on indices below the stated dimensions
   (of_rows / to_rows convert from and to lists of rows).  Every value the code obtains from
   numpy's PRNG or LAPACK is an oracle field of the `attempt` record: the raw random_sample
   draws, np.linalg.det, np.power(.,1/n), np.random.randint, eigvals/eigvalsh, np.linalg.norm. *)
From Coq Require Import ZArith QArith Qabs List Bool Arith.
From Verif.Lib Require Import QRound.
From Verif.Model Require Import Sampler.
Import ListNotations.
Open Scope Q_scope.

Definition fmat : Type := nat -> nat -> C.

Definition of_rows (l : list (list C)) : fmat := fun i j => nth j (nth i l []) c0.
Definition to_rows (n m : nat) (M : fmat) : list (list C) :=
  map (fun i => map (fun j => cred (M i j)) (seq 0 m)) (seq 0 n).
(* evaluate a matrix once (closures are not memoised) *)
Definition materialize (n m : nat) (M : fmat) : fmat := of_rows (to_rows n m M).

Definition mT (M : fmat) : fmat := fun i j => M j i.
Definition mconj (M : fmat) : fmat := fun i j => cconj (M i j).
Definition madd (A B : fmat) : fmat := fun i j => cadd (A i j) (B i j).
Definition msub (A B : fmat) : fmat := fun i j => csub (A i j) (B i j).
Definition mopp (A : fmat) : fmat := fun i j => copp (A i j).
Definition mscale (c : C) (A : fmat) : fmat := fun i j => cmul c (A i j).
Definition mdivc (A : fmat) (c : C) : fmat := fun i j => cdiv (A i j) c.
Definition meye : fmat := fun i j => if Nat.eqb i j then c1 else c0.
Definition mdiagonal (A : fmat) : fmat := fun i j => if Nat.eqb i j then A i j else c0.   (* np.diag(np.diag(A)) *)
Definition mtriu (A : fmat) : fmat := fun i j => if Nat.leb i j then A i j else c0.
Definition mtril (A : fmat) : fmat := fun i j => if Nat.leb j i then A i j else c0.
Definition mset (A : fmat) (a b : nat) (v : C) : fmat :=
  fun i j => if Nat.eqb i a && Nat.eqb j b then v else A i j.

Fixpoint csum (n : nat) (f : nat -> C) : C :=
  match n with O => c0 | S k => cadd (csum k f) (f k) end.
Fixpoint qsum (n : nat) (f : nat -> Q) : Q :=
  match n with O => 0 | S k => qsum k f + f k end.

Definition mtrace (n : nat) (A : fmat) : C := csum n (fun i => A i i).
(* squared Frobenius norm of an n x m array *)
Definition mnormsq (n m : nat) (A : fmat) : Q := qsum n (fun i => qsum m (fun j => cnormsq (A i j))).

(* determinant: Laplace expansion along the first row *)
Definition minor (A : fmat) (k : nat) : fmat := fun a b => A (S a) (if Nat.ltb b k then b else S b).
Definition alt (j : nat) (z : C) : C := if Nat.even j then z else copp z.
Fixpoint mdet (n : nat) (A : fmat) : C :=
  match n with
  | O => c1
  | S k => csum (S k) (fun j => alt j (cmul (A 0%nat j) (mdet k (minor A j))))
  end.

(* the same determinant with every partial result reduced to lowest terms (used when evaluating cases:
   Proofs/SamplerMat.v shows mdetr = mdet) *)
Fixpoint csum_red (n : nat) (f : nat -> C) : C :=
  match n with O => c0 | S k => cred (cadd (csum_red k f) (f k)) end.
Fixpoint mdetr (n : nat) (A : fmat) : C :=
  match n with
  | O => c1
  | S k => csum_red (S k) (fun j => alt j (cred (cmul (A 0%nat j) (mdetr k (minor A j)))))
  end.

(* ------------------------------------------------------------------------------------------ *)
(* configuration                                                                              *)
(* ------------------------------------------------------------------------------------------ *)
Inductive symm := SNone | SDiag | SSym | SAnti | SHerm | SAHerm.
Inductive detopt := DNone | DZero | DOne.
Inductive triopt := TNone | TUpper | TLower.

Definition symm_eqb (a b : symm) : bool :=
  match a, b with
  | SNone, SNone | SDiag, SDiag | SSym, SSym | SAnti, SAnti | SHerm, SHerm | SAHerm, SAHerm => true
  | _, _ => false
  end.
Definition detopt_eqb (a b : detopt) : bool :=
  match a, b with DNone, DNone | DZero, DZero | DOne, DOne => true | _, _ => false end.
Definition triopt_eqb (a b : triopt) : bool :=
  match a, b with TNone, TNone | TUpper, TUpper | TLower, TLower => true | _, _ => false end.

(* SquareMatrices.__init__ (matrixsampling.py:605-638): None = ConfigError, Some c = accepted with
   config['complex'] = c afterwards *)
Definition sqm_init (sym : symm) (traceless : bool) (det : detopt) (cplx : bool) (dim : Z) : option bool :=
  let cplx := if symm_eqb sym SHerm || symm_eqb sym SAHerm then true else cplx in
  if detopt_eqb det DZero
     && (traceless
         || (symm_eqb sym SAnti && (cplx || (dim mod 2 =? 0)%Z)))
  then None
  else if detopt_eqb det DOne
          && (((dim =? 2)%Z && traceless
               && ((symm_eqb sym SDiag && negb cplx) || (symm_eqb sym SSym && negb cplx) || symm_eqb sym SHerm))
              || ((dim mod 2 =? 1)%Z && (symm_eqb sym SAnti || symm_eqb sym SAHerm)))
  then None
  else Some cplx.

(* ------------------------------------------------------------------------------------------ *)
(* apply_symmetry                                                                             *)
(* ------------------------------------------------------------------------------------------ *)
(* GeneralMatrices.apply_symmetry (matrixsampling.py:327-333) *)
Definition tri_apply (tri : triopt) (array : fmat) : fmat :=
  match tri with TUpper => mtriu array | TLower => mtril array | TNone => array end.

(* SquareMatrices.apply_symmetry (matrixsampling.py:640-664) *)
Definition sq_symmetrize (sym : symm) (array : fmat) : fmat :=
  match sym with
  | SDiag => mdiagonal array
  | SSym => madd array (mT array)
  | SAnti => msub array (mT array)
  | SHerm => madd array (mconj (mT array))
  | SAHerm => msub array (mconj (mT array))
  | SNone => array
  end.
Definition sq_traceless (dim : nat) (working : fmat) : fmat :=
  let trace := mtrace dim working in
  msub working (mscale (cdiv trace (cofQ (inject_Z (Z.of_nat dim)))) meye).
Definition sq_apply_symmetry (sym : symm) (traceless : bool) (dim : nat) (array : fmat) : fmat :=
  let working := sq_symmetrize sym array in
  if traceless then sq_traceless dim working else working.

(* ------------------------------------------------------------------------------------------ *)
(* one pass of the generate_sample loop, with its oracle answers                              *)
(* ------------------------------------------------------------------------------------------ *)
Record attempt := mkAttempt {
  a_re : list (list Q);     (* np.random.random_sample(shape), raw values in [0,1) *)
  a_im : list (list Q);     (* second draw (complex only) *)
  a_det : C;                (* np.linalg.det(array) *)
  a_root : C;               (* np.power(x, 1/dimension) *)
  a_index : nat;            (* np.random.randint(dimension) *)
  a_eigs : list C;          (* np.linalg.eigvals / eigvalsh *)
  a_take : nat;             (* np.random.randint(len(idxs)) *)
  a_norm : Q;               (* np.linalg.norm(array) *)
  a_u : Q                   (* np.random.random_sample() for the desired norm *)
}.

(* which oracles a pass consulted, in order (trace-level comparison) *)
Inductive okind := ODet | ORoot | OIndex | OEigh | OEig | OTake | ONorm.
Definition okind_eqb (a b : okind) : bool :=
  match a, b with
  | ODet, ODet | ORoot, ORoot | OIndex, OIndex | OEigh, OEigh | OEig, OEig | OTake, OTake | ONorm, ONorm => true
  | _, _ => false
  end.

Inductive outcome := Done (M : fmat) (trace : list okind) | Retry (trace : list okind) | Unknown.

(* array = random_sample(shape) - 0.5 (+ 1j*(random_sample(shape) - 0.5)) *)
Definition raw_array (cplx : bool) (re im : list (list Q)) : fmat :=
  fun i j => (nth j (nth i re []) 0 - (1 # 2),
              if cplx then nth j (nth i im []) 0 - (1 # 2) else 0).

Definition tiny : Q := 4951760157141521 # 9903520314283042199192993792.   (* the float 5e-13, exactly *)
Definition cabs_lt (z : C) (t : Q) : bool := Qltb (cnormsq z) (t * t).

(* ArraySamplingSet.normalize (matrixsampling.py:143-151): array * desired_norm / actual_norm *)
Definition base_normalize (lo hi : Q) (a : attempt) (array : fmat) : fmat :=
  let desired := real_interval lo hi (a_u a) in
  fun i j => cscale (/ a_norm a) (cscale desired (array i j)).

(* make_det_one (matrixsampling.py:677-713) *)
Definition make_det_one (sym : symm) (cplx : bool) (dim : nat) (a : attempt) (array : fmat) : outcome :=
  if (symm_eqb sym SAnti || symm_eqb sym SAHerm) && Nat.odd dim then Unknown      (* the assert *)
  else
  let det := a_det a in
  if negb cplx || symm_eqb sym SHerm || symm_eqb sym SAHerm then
    let d := cre det in
    if Qltb 0 d then Done (mdivc array (a_root a)) [ODet; ORoot]
    else if Nat.odd dim && Qltb d 0 then Done (mdivc (mopp array) (a_root a)) [ODet; ORoot]
    else Retry [ODet]
  else if (symm_eqb sym SNone || symm_eqb sym SDiag || symm_eqb sym SSym || symm_eqb sym SAnti) && cplx then
    if cabs_lt det tiny then Retry [ODet]
    else Done (mdivc array (a_root a)) [ODet; ORoot]
  else Unknown.

(* make_det_zero (matrixsampling.py:715-759) *)
Definition real_idxs (eigs : list C) : list nat :=
  map fst (filter (fun p => Qltb (Qabs (cim (snd p))) tiny) (combine (seq 0 (length eigs)) eigs)).

Definition make_det_zero (sym : symm) (cplx : bool) (dim : nat) (a : attempt) (array : fmat) : outcome :=
  if cabs_lt (a_det a) tiny then Done array [ODet]
  else
  let index := a_index a in
  if symm_eqb sym SDiag then Done (mset array index index c0) [ODet; OIndex]
  else if (symm_eqb sym SSym && negb cplx) || symm_eqb sym SHerm then
    let ev := cofQ (cre (nth index (a_eigs a) c0)) in
    Done (msub array (mscale ev meye)) [ODet; OIndex; OEigh]
  else if symm_eqb sym SAHerm then
    (* eigvalsh(1j*array); eigenvalue = -1j * real(eigenvalues[index]) *)
    let ev := cmul (copp ci) (cofQ (cre (nth index (a_eigs a) c0))) in
    Done (msub array (mscale ev meye)) [ODet; OIndex; OEigh]
  else if negb cplx then
    let idxs := real_idxs (a_eigs a) in
    match idxs with
    | [] => Retry [ODet; OIndex; OEig]
    | _ => let index' := nth (a_take a) idxs O in
           let ev := cofQ (cre (nth index' (a_eigs a) c0)) in
           Done (msub array (mscale ev meye)) [ODet; OIndex; OEig; OTake]
    end
  else
    let ev := nth index (a_eigs a) c0 in
    Done (msub array (mscale ev meye)) [ODet; OIndex; OEig].

(* SquareMatrices.normalize (matrixsampling.py:666-675) *)
Definition sq_normalize (sym : symm) (cplx : bool) (det : detopt) (dim : nat) (lo hi : Q)
           (a : attempt) (array : fmat) : outcome :=
  match det with
  | DOne => make_det_one sym cplx dim a array
  | DZero =>
      match make_det_zero sym cplx dim a array with
      | Done M tr => Done (base_normalize lo hi a (materialize dim dim M)) (tr ++ [ONorm])
      | other => other
      end
  | DNone => Done (base_normalize lo hi a array) [ONorm]
  end.

(* one pass of ArraySamplingSet.generate_sample for SquareMatrices *)
Definition sq_attempt (sym : symm) (traceless : bool) (det : detopt) (cplx : bool) (dim : nat)
           (lo hi : Q) (a : attempt) : outcome :=
  let array := raw_array cplx (a_re a) (a_im a) in
  let working := materialize dim dim (sq_apply_symmetry sym traceless dim array) in
  sq_normalize sym cplx det dim lo hi a working.

(* the retry loop (while loops < 100): the passes the implementation made, in order *)
Inductive gen_result := GDone (M : fmat) (passes : nat) (traces : list (list okind))
                      | GExhausted | GOutOfDraws | GUnknown.

Fixpoint generate_loop (step : attempt -> outcome) (fuel : nat) (atts : list attempt)
         (passes : nat) (traces : list (list okind)) : gen_result :=
  match fuel with
  | O => GExhausted
  | S fuel' =>
    match atts with
    | [] => GOutOfDraws
    | a :: rest =>
      match step a with
      | Done M tr => GDone M (S passes) (traces ++ [tr])
      | Retry tr => generate_loop step fuel' rest (S passes) (traces ++ [tr])
      | Unknown => GUnknown
      end
    end
  end.

Definition sq_generate (sym : symm) (traceless : bool) (det : detopt) (cplx : bool) (dim : nat)
           (lo hi : Q) (atts : list attempt) : gen_result :=
  generate_loop (sq_attempt sym traceless det cplx dim lo hi) 100 atts 0 [].

(* the whole sampler: constructor, then generate with the complex flag the constructor left *)
Definition square_matrices (sym : symm) (traceless : bool) (det : detopt) (cplx : bool) (dim : nat)
           (lo hi : Q) (atts : list attempt) : option gen_result :=
  match sqm_init sym traceless det cplx (Z.of_nat dim) with
  | None => None
  | Some c => Some (sq_generate sym traceless det c dim lo hi atts)
  end.

(* ------------------------------------------------------------------------------------------ *)
(* general arrays (vectors, matrices, tensors): flat n x m view (tensors are flattened to 1 x size) *)
(* ------------------------------------------------------------------------------------------ *)
Definition array_attempt (tri : triopt) (cplx : bool) (n m : nat) (lo hi : Q) (a : attempt) : fmat :=
  let array := raw_array cplx (a_re a) (a_im a) in
  base_normalize lo hi a (materialize n m (tri_apply tri array)).

(* IdentityMatrixMultiples.generate_sample: scaling * np.eye(dimension) *)
Definition identity_multiple (scaling : C) : fmat := mscale scaling meye.

(* ------------------------------------------------------------------------------------------ *)
(* property predicates (decidable versions used on case data)                                 *)
(* ------------------------------------------------------------------------------------------ *)

Definition forall2b (n m : nat) (p : nat -> nat -> bool) : bool :=
  forallb (fun i => forallb (fun j => p i j) (seq 0 m)) (seq 0 n).

Definition has_symmetry_b (sym : symm) (n : nat) (M : fmat) : bool :=
  match sym with
  | SNone => true
  | SDiag => forall2b n n (fun i j => Nat.eqb i j || ceqb (M i j) c0)
  | SSym => forall2b n n (fun i j => ceqb (M i j) (M j i))
  | SAnti => forall2b n n (fun i j => ceqb (M i j) (copp (M j i)))
  | SHerm => forall2b n n (fun i j => ceqb (M i j) (cconj (M j i)))
  | SAHerm => forall2b n n (fun i j => ceqb (M i j) (copp (cconj (M j i))))
  end.

(* ------------------------------------------------------------------------------------------ *)
(* fast determinant for case evaluation: clear denominators, expand over Gaussian integers      *)
(* (Proofs/SamplerDet.v: fast_det n W = Some d -> d = mdet n W)                                 *)
(* ------------------------------------------------------------------------------------------ *)

Definition zc : Type := (Z * Z)%type.
Definition zc_add (a b : zc) : zc := ((fst a + fst b)%Z, (snd a + snd b)%Z).
Definition zc_opp (a : zc) : zc := ((- fst a)%Z, (- snd a)%Z).
Definition zc_mul (a b : zc) : zc := ((fst a * fst b - snd a * snd b)%Z, (fst a * snd b + snd a * fst b)%Z).
Definition zc_embed (a : zc) : C := (inject_Z (fst a), inject_Z (snd a)).
Fixpoint zsum (n : nat) (f : nat -> zc) : zc :=
  match n with O => (0, 0)%Z | S k => zc_add (zsum k f) (f k) end.
Definition zalt (j : nat) (z : zc) : zc := if Nat.even j then z else zc_opp z.
Definition zminor (A : nat -> nat -> zc) (k : nat) : nat -> nat -> zc :=
  fun a b => A (S a) (if Nat.ltb b k then b else S b).
Fixpoint zdet (n : nat) (A : nat -> nat -> zc) : zc :=
  match n with
  | O => (1, 0)%Z
  | S k => zsum (S k) (fun j => zalt j (zc_mul (A 0%nat j) (zdet k (zminor A j))))
  end.

Definition pos_lcm (a b : positive) : positive := Z.to_pos (Z.lcm (Zpos a) (Zpos b)).
Definition common_den (n : nat) (W : fmat) : positive :=
  fold_right (fun i acc => fold_right (fun j acc' =>
      pos_lcm (Qden (fst (W i j))) (pos_lcm (Qden (snd (W i j))) acc')) acc (seq 0 n)) 1%positive (seq 0 n).
Definition to_zc (D : positive) (z : C) : zc :=
  ((Qnum (fst z) * (Zpos D / Zpos (Qden (fst z))))%Z, (Qnum (snd z) * (Zpos D / Zpos (Qden (snd z))))%Z).
Definition zrows (n : nat) (D : positive) (W : fmat) : list (list zc) :=
  map (fun i => map (fun j => to_zc D (W i j)) (seq 0 n)) (seq 0 n).
Definition of_zrows (l : list (list zc)) : nat -> nat -> zc := fun i j => nth j (nth i l []) (0, 0)%Z.
Definition zdet_of (n : nat) (D : positive) (Zm : nat -> nat -> zc) : C :=
  cmul (cpow (cofQ (1 # D)) n) (zc_embed (zdet n Zm)).
Definition fast_det (n : nat) (W : fmat) : option C :=
  let D := common_den n W in
  let Zm := of_zrows (zrows n D W) in
  if forall2b n n (fun i j => ceqb (W i j) (cmul (cofQ (1 # D)) (zc_embed (Zm i j))))
  then Some (cred (zdet_of n D Zm)) else None.
