(* Model/MunkresAgree.v -- agreement predicate used by the C06 correspondence (evaluated by vm_compute) *)
From Coq Require Import ZArith List Bool Arith PrimFloat.
From Verif.Model Require Import Munkres MunkresFloat.
Import ListNotations.

Fixpoint list_eqb {A} (eqb : A -> A -> bool) (a b : list A) : bool :=
  match a, b with
  | [], [] => true
  | x :: a', y :: b' => eqb x y && list_eqb eqb a' b'
  | _, _ => false
  end.
Definition pair_eqb (p q : nat * nat) : bool := Nat.eqb (fst p) (fst q) && Nat.eqb (snd p) (snd q).

Definition observed (K : Type) : Type := (list (nat * nat) * list nat * list (list K) * list (list nat))%type.

Inductive mcase :=
| CaseZ (m : list (list Z)) (obs : option (observed Z))
| CaseF (m : list (list float)) (obs : option (observed float)).

Definition agree_gen {K} (keq : K -> K -> bool)
  (model : option (list (nat * nat) * state K * list nat)) (obs : option (observed K)) : bool :=
  match model, obs with
  | None, None => true
  | Some (r, s, t), Some (r', t', C', M') =>
      list_eqb pair_eqb r r' && list_eqb Nat.eqb t t'
      && list_eqb (list_eqb keq) (sC K s) C' && list_eqb (list_eqb Nat.eqb) (sM K s) M'
  | _, _ => false
  end.

Definition agree_case (c : mcase) : bool :=
  match c with
  | CaseZ m obs => agree_gen Z.eqb (compute_fullZ m) obs
  | CaseF m obs => agree_gen PrimFloat.eqb (compute_fullF m) obs
  end.
