(* Model/Munkres.v -- executable model of mitxgraders/helpers/munkres.py (class Munkres), step by step.
   Generic over the cost type: instantiated at Z (theorems) and PrimFloat (bit-exact replay of float runs).
   No proofs here.  Shape and details follow DESIGN.md Appendix C:
     - find_a_zero scans rows cyclically from i0 and, inside the first row holding an uncovered zero,
       keeps the LAST such zero in cyclic column order from j0;
     - find_smallest starts from the first uncovered value (None), sys.maxsize only if there is none (fix ea8a5bc);
     - step 6 adds to covered rows first, then subtracts from uncovered columns (order matters for floats);
     - loops run on explicit fuel and return None when it is exhausted or when the Python code would
       raise (no prime in the row during step 5, events == 0 in step 6). *)
From Coq Require Import ZArith List Bool Arith.
Import ListNotations.

Section Generic.
  Variable K : Type.
  Variable kzero : K.
  Variables kadd ksub : K -> K -> K.
  Variables kltb keqb : K -> K -> bool.
  Variable kmaxsize : K.

  Definition matrix := list (list K).
  Definition marks := list (list nat).        (* 0 none, 1 star, 2 prime *)

  Record state := mkState {
    sC : matrix; sM : marks; sRC : list bool; sCC : list bool; sZ0 : nat * nat }.

  (* ---- list helpers ---- *)
  Fixpoint upd {A} (l : list A) (i : nat) (v : A) : list A :=
    match l, i with
    | [], _ => []
    | _ :: r, O => v :: r
    | x :: r, S i' => x :: upd r i' v
    end.
  Definition get2 {A} (d : A) (m : list (list A)) (i j : nat) : A := nth j (nth i m []) d.
  Definition upd2 {A} (m : list (list A)) (i j : nat) (v : A) : list (list A) :=
    upd m i (upd (nth i m []) j v).
  Fixpoint mapi_from {A B} (f : nat -> A -> B) (i : nat) (l : list A) : list B :=
    match l with [] => [] | x :: r => f i x :: mapi_from f (S i) r end.
  Definition mapi {A B} (f : nat -> A -> B) (l : list A) : list B := mapi_from f 0 l.
  Definition mapij {A B} (f : nat -> nat -> A -> B) (m : list (list A)) : list (list B) :=
    mapi (fun i row => mapi (fun j x => f i j x) row) m.

  (* ---- pad_matrix: rows right-padded with zeros to n = max(rows, widest row), then zero rows ---- *)
  Definition width (m : matrix) : nat := fold_left (fun w row => Nat.max w (length row)) m 0.
  Definition pad_n (m : matrix) : nat := Nat.max (width m) (length m).
  Definition pad (m : matrix) : matrix :=
    let n := pad_n m in
    map (fun row => row ++ repeat kzero (n - length row)) m
    ++ repeat (repeat kzero n) (n - length m).

  (* ---- step 1 ---- *)
  Definition kmin (d : K) (l : list K) : K :=
    match l with [] => d | x :: r => fold_left (fun m y => if kltb y m then y else m) r x end.
  Definition step1 (s : state) : state :=
    mkState (map (fun row => let m := kmin kzero row in map (fun x => ksub x m) row) (sC s))
            (sM s) (sRC s) (sCC s) (sZ0 s).

  (* ---- step 2 ---- *)
  Fixpoint first_free_zero (row : list K) (cc : list bool) (j : nat) : option nat :=
    match row, cc with
    | x :: r, c :: cr => if keqb x kzero && negb c then Some j else first_free_zero r cr (S j)
    | _, _ => None
    end.
  (* rows are visited in order; row i can only have been covered by itself, so its flag is false on arrival
     when all covers are clear on entry; the flag is modelled anyway *)
  Fixpoint step2_rows (rows : matrix) (i : nat) (mk : marks) (rc cc : list bool) : marks * list bool * list bool :=
    match rows with
    | [] => (mk, rc, cc)
    | row :: rest =>
        if nth i rc false then step2_rows rest (S i) mk rc cc
        else match first_free_zero row cc 0 with
             | Some j => step2_rows rest (S i) (upd2 mk i j 1) (upd rc i true) (upd cc j true)
             | None => step2_rows rest (S i) mk rc cc
             end
    end.
  Definition clear (l : list bool) : list bool := map (fun _ => false) l.
  Definition step2 (s : state) : state :=
    match step2_rows (sC s) 0 (sM s) (sRC s) (sCC s) with
    | (mk, rc, cc) => mkState (sC s) mk (clear rc) (clear cc) (sZ0 s)
    end.

  (* ---- step 3 ---- *)
  Definition col_has (v : nat) (mk : marks) (j : nat) : bool := existsb (fun row => Nat.eqb (nth j row 0) v) mk.
  Definition step3 (n : nat) (s : state) : state * nat :=
    let newly := mapi (fun j c => negb c && col_has 1 (sM s) j) (sCC s) in
    let count := length (filter (fun b => b) newly) in
    let cc' := mapi (fun j c => c || col_has 1 (sM s) j) (sCC s) in
    (mkState (sC s) (sM s) (sRC s) cc' (sZ0 s), if Nat.leb n count then 7 else 4).

  (* ---- step 4 ---- *)
  Definition cyc (n start : nat) : list nat := map (fun k => (start + k) mod n) (seq 0 n).
  Definition uncovered_zero (s : state) (i j : nat) : bool :=
    keqb (get2 kzero (sC s) i j) kzero && negb (nth i (sRC s) false) && negb (nth j (sCC s) false).
  (* last uncovered zero of row i in cyclic column order from j0 *)
  Definition last_zero_in_row (n : nat) (s : state) (i j0 : nat) : option nat :=
    fold_left (fun acc j => if uncovered_zero s i j then Some j else acc) (cyc n j0) None.
  Fixpoint first_row_with (n : nat) (s : state) (j0 : nat) (rows : list nat) : option (nat * nat) :=
    match rows with
    | [] => None
    | i :: r => match last_zero_in_row n s i j0 with
                | Some j => Some (i, j)
                | None => first_row_with n s j0 r
                end
    end.
  Definition find_a_zero (n : nat) (s : state) (i0 j0 : nat) : option (nat * nat) :=
    first_row_with n s j0 (cyc n i0).
  Fixpoint index_of (v : nat) (l : list nat) (j : nat) : option nat :=
    match l with [] => None | x :: r => if Nat.eqb x v then Some j else index_of v r (S j) end.
  Definition find_in_row (v : nat) (mk : marks) (i : nat) : option nat := index_of v (nth i mk []) 0.
  Definition find_in_col (v : nat) (mk : marks) (j : nat) : option nat := index_of v (map (fun row => nth j row 0) mk) 0.

  Fixpoint step4_loop (fuel n : nat) (s : state) (row col : nat) : option (state * nat) :=
    match fuel with
    | O => None
    | S f =>
        match find_a_zero n s row col with
        | None => Some (s, 6)
        | Some (r, c) =>
            let mk := upd2 (sM s) r c 2 in
            match find_in_row 1 mk r with
            | Some sc => step4_loop f n (mkState (sC s) mk (upd (sRC s) r true) (upd (sCC s) sc false) (sZ0 s)) r sc
            | None => Some (mkState (sC s) mk (sRC s) (sCC s) (r, c), 5)
            end
        end
    end.
  Definition step4 (n : nat) (s : state) : option (state * nat) := step4_loop (S (S n)) n s 0 0.

  (* ---- step 5 ---- *)
  (* path is built most-recent-first; returns None where Python would index with -1 *)
  Fixpoint step5_path (fuel : nat) (mk : marks) (path : list (nat * nat)) : option (list (nat * nat)) :=
    match fuel with
    | O => None
    | S f =>
        match path with
        | [] => None
        | (_, c) :: _ =>
            match find_in_col 1 mk c with
            | None => Some path
            | Some r =>
                match find_in_row 2 mk r with
                | None => None
                | Some c' => step5_path f mk ((r, c') :: (r, c) :: path)
                end
            end
        end
    end.
  Definition flip (mk : marks) (p : nat * nat) : marks :=
    let (i, j) := p in if Nat.eqb (get2 0 mk i j) 1 then upd2 mk i j 0 else upd2 mk i j 1.
  Definition erase_primes (mk : marks) : marks := map (map (fun v => if Nat.eqb v 2 then 0 else v)) mk.
  Definition step5 (n : nat) (s : state) : option state :=
    match step5_path (S (S n)) (sM s) [sZ0 s] with
    | None => None
    | Some path =>
        let mk := fold_left flip (rev path) (sM s) in
        Some (mkState (sC s) (erase_primes mk) (clear (sRC s)) (clear (sCC s)) (sZ0 s))
    end.

  (* ---- step 6 ---- *)
  (* munkres.py after fix ea8a5bc: the search starts from None (first uncovered value wins), and falls back to
     sys.maxsize only when there is no uncovered cell at all *)
  Definition find_smallest_opt (s : state) : option K :=
    fold_left (fun (m : option K) (irow : nat * list K) =>
      let (i, row) := irow in
      if nth i (sRC s) false then m
      else fold_left (fun (m' : option K) (jx : nat * K) => let (j, x) := jx in
                        if nth j (sCC s) false then m'
                        else match m' with
                             | None => Some x
                             | Some v => if kltb x v then Some x else m'
                             end)
                     (combine (seq 0 (length row)) row) m)
      (combine (seq 0 (length (sC s))) (sC s)) None.
  Definition find_smallest (s : state) : K :=
    match find_smallest_opt s with None => kmaxsize | Some v => v end.
  Definition events (s : state) : Z :=
    fold_left Z.add
      (map (fun i => fold_left Z.add
              (map (fun j => ((if nth i (sRC s) false then 1 else 0)
                              + (if nth j (sCC s) false then 0 else 1)
                              - (if nth i (sRC s) false && negb (nth j (sCC s) false) then 2 else 0))%Z)
                   (seq 0 (length (sCC s)))) 0%Z)
           (seq 0 (length (sRC s)))) 0%Z.
  Definition step6 (s : state) : option state :=
    let m := find_smallest s in
    let C' := mapij (fun i j x =>
                let x1 := if nth i (sRC s) false then kadd x m else x in
                if nth j (sCC s) false then x1 else ksub x1 m) (sC s) in
    if Z.eqb (events s) 0 then None else Some (mkState C' (sM s) (sRC s) (sCC s) (sZ0 s)).

  (* ---- driver ---- *)
  Fixpoint drive (fuel n : nat) (s : state) (step : nat) (trace : list nat) : option (state * list nat) :=
    match fuel with
    | O => None
    | S f =>
        match step with
        | 1 => drive f n (step1 s) 2 (1 :: trace)
        | 2 => drive f n (step2 s) 3 (2 :: trace)
        | 3 => let (s', nx) := step3 n s in drive f n s' nx (3 :: trace)
        | 4 => match step4 n s with None => None | Some (s', nx) => drive f n s' nx (4 :: trace) end
        | 5 => match step5 n s with None => None | Some s' => drive f n s' 3 (5 :: trace) end
        | 6 => match step6 s with None => None | Some s' => drive f n s' 4 (6 :: trace) end
        | _ => Some (s, rev trace)
        end
    end.

  Definition init (m : matrix) : state :=
    let c := pad m in let n := length c in
    mkState c (repeat (repeat 0 n) n) (repeat false n) (repeat false n) (0, 0).

  Definition fuel_for (n : nat) : nat := 4 * (S n) * (S n) + 8.

  Definition read_result (r c : nat) (mk : marks) : list (nat * nat) :=
    flat_map (fun i => flat_map (fun j => if Nat.eqb (get2 0 mk i j) 1 then [(i, j)] else []) (seq 0 c)) (seq 0 r).

  (* compute: result pairs, final state, step trace *)
  Definition compute_full (m : matrix) : option (list (nat * nat) * state * list nat) :=
    let s0 := init m in let n := length (sC s0) in
    match drive (fuel_for n) n s0 1 [] with
    | None => None
    | Some (s, tr) => Some (read_result (length m) (length (hd [] m)) (sM s), s, tr)
    end.
  Definition compute (m : matrix) : option (list (nat * nat)) :=
    match compute_full m with None => None | Some (r, _, _) => Some r end.
End Generic.

(* ---- instances ---- *)
Definition zmaxsize : Z := 9223372036854775807.
Definition computeZ := compute Z 0%Z Z.add Z.sub Z.ltb Z.eqb zmaxsize.
Definition compute_fullZ := compute_full Z 0%Z Z.add Z.sub Z.ltb Z.eqb zmaxsize.
