(* Model/PipelineAgree.v -- definitions used by the C01 correspondence cases (harness/props/c01.py):
   the recorded oracle tables and the agreement predicate evaluated by vm_compute.  Definitions only. *)
From Coq Require Import ZArith QArith Qabs List Bool Arith Uint63.
From Verif.Lib Require Import QRound.
From Verif.Model Require Import Result Credit Pipeline.
From Verif.Model Require Export PipelineTables.
Import ListNotations.
Open Scope Q_scope.

(* strings of the case terms are packed three code points (+1) per primitive 63-bit integer: a literal
   `list Z` of a multi-kilobyte debug log takes tens of seconds to type-check, this takes milliseconds *)
Definition m21 : int := 2097151%uint63.
Definition unpack1 (i : int) : list Z := if Uint63.eqb i 0 then [] else [(Uint63.to_Z i - 1)%Z].
Definition unpack3 (i : int) : list Z :=
  unpack1 (Uint63.land i m21) ++ unpack1 (Uint63.land (Uint63.lsr i 21) m21) ++ unpack1 (Uint63.land (Uint63.lsr i 42) m21).
Definition S_ (l : list int) : str := flat_map unpack3 l.

Definition eps : Q := 1 # 1000000000.

(* the grade is compared within eps; `ok` exactly, except when the MODEL's grade sits within eps of 0 or 1
   without being equal to it (a float product / quotient may land on the other side): guard band, counted *)
Definition near_edge (g : Q) : bool :=
  (Qclose eps g 0 && negb (Qeq_bool g 0)) || (Qclose eps g 1 && negb (Qeq_bool g 1)).

Definition entry_agree (m o : entry) : bool :=
  Qclose eps (e_grade m) (e_grade o) && (okv_eqb (e_ok m) (e_ok o) || near_edge (e_grade m))
  && str_eqb (e_msg m) (e_msg o).

Fixpoint entries_agree (a b : list entry) : bool :=
  match a, b with
  | [], [] => true
  | x :: a', y :: b' => entry_agree x y && entries_agree a' b'
  | _, _ => false
  end.

Definition edx_agree (m o : edx) : bool :=
  match m, o with
  | ESingle a, ESingle b => entry_agree a b
  | EMulti ov l, EMulti ov' l' => str_eqb ov ov' && entries_agree l l'
  | _, _ => false
  end.

Definition pipe_fuel : nat := 12.

Record pcase := mkCase {
  pc_recompute : bool; pc_debug : bool; pc_credit : option Q; pc_msgflag : bool;
  pc_grader : grader; pc_ans : ans; pc_input : input; pc_attempt : option Z; pc_log : str;
  pc_leafs : list (path * lout); pc_perms : list (path * list (nat * nat)); pc_bests : list (path * nat);
  pc_observed : option edx           (* None: the call raised *)
}.

Definition run_case (c : pcase) : out edx :=
  call pipe_fuel (table_oracles_v (pc_recompute c) (pc_leafs c) (pc_perms c) (pc_bests c))
       (mkC (pc_debug c) (match pc_credit c with Some v => Some (fun _ => v) | None => None end) (pc_msgflag c))
       (pc_grader c) (pc_ans c) (pc_input c) (pc_attempt c) (pc_log c).

Definition pipe_agree (c : pcase) : bool :=
  match run_case c, pc_observed c with
  | Ret r, Some o => edx_agree r o
  | Raise, None => true
  | _, _ => false
  end.

(* 0 = agree, 1 = model returns / impl raised, 2 = model raises / impl returned, 3 = both return, differ,
   4 = Missing, 5 = Fuel : for diagnostics *)
Definition pipe_diag (c : pcase) : nat :=
  match run_case c, pc_observed c with
  | Ret r, Some o => if edx_agree r o then 0 else 3
  | Raise, None => 0
  | Ret _, None => 1
  | Raise, Some _ => 2
  | Missing, _ => 4
  | Fuel, _ => 5
  end%nat.
