(* RestrictBase.v -- vocabulary shared by the regenerated Gen/Restrict.v and the hand-written Model/Restrict.v (C09).
   Only data types and the Python primitives the translated fragments use; no proofs.

   Python value          here
   --------------------  ------------------------------------------------------------
   set / dict keys       names = list str, read through [mem] (order and repetitions are irrelevant)
   whitelist             list welem, welem = option str   ([None] is the "no default functions" marker)
   s.replace(' ', '')    strip_spaces (Model/Lexer.v: the same deletion MathParser.parse performs)
   a in b  (strings)     substr a b
   x in S  (sets)        mem x S
   sorted(list of str)   py_sorted (code point order)
   raise InvalidInput    VRaise (which validator fired and with what)                              *)
From Coq Require Import ZArith List Bool.
From Verif.Model Require Import Result Lexer.
Import ListNotations.
Local Open Scope Z_scope.

Definition names := list str.

Definition mem (x : str) (l : names) : bool := existsb (str_eqb x) l.
Definition set_union (a b : names) : names := a ++ b.
Definition set_diff (a b : names) : names := filter (fun x => negb (mem x b)) a.
Definition truthy {A : Type} (l : list A) : bool := match l with [] => false | _ => true end.

Fixpoint dedup (l : names) : names :=
  match l with
  | [] => []
  | x :: r => if mem x r then dedup r else x :: dedup r
  end.

(* ---------- whitelist: a Python list whose elements are str or None ---------- *)
Definition welem := option str.
Definition wl_is_empty (w : list welem) : bool := match w with [] => true | _ => false end.        (* w == []     *)
Definition wl_is_none (w : list welem) : bool := match w with [None] => true | _ => false end.     (* w == [None] *)
Fixpoint wl_names (w : list welem) : names :=
  match w with
  | [] => []
  | Some n :: r => n :: wl_names r
  | None :: r => wl_names r                (* None is never equal to the name of a function *)
  end.

(* ---------- strings ---------- *)
Fixpoint is_prefix (a b : str) : bool :=
  match a, b with
  | [], _ => true
  | x :: a', y :: b' => (x =? y) && is_prefix a' b'
  | _ :: _, [] => false
  end.

(* a in b *)
Fixpoint substr (a b : str) : bool :=
  match b with
  | [] => is_prefix a []
  | _ :: b' => is_prefix a b || substr a b'
  end.

(* code point order on strings, and sorted() *)
Fixpoint str_leb (a b : str) : bool :=
  match a, b with
  | [], _ => true
  | _ :: _, [] => false
  | x :: a', y :: b' => if x <? y then true else if y <? x then false else str_leb a' b'
  end.

Fixpoint insert_sorted (x : str) (l : names) : names :=
  match l with
  | [] => [x]
  | y :: r => if str_leb x y then x :: l else y :: insert_sorted x r
  end.

Definition py_sorted (l : names) : names := fold_right insert_sorted [] l.

(* ---------- the student's input as handed to the validators: a string, a list of strings, or a dict ---------- *)
Inductive sinput := SIStr (s : str) | SIList (l : list str) | SIDict (d : list (str * str)).

(* the first two branches of validate_forbidden_strings_not_used:
     if isinstance(expr, dict): expr = [v for k, v in expr.items()]
     elif not isinstance(expr, list): expr = [expr]                                   *)
Definition si_values (e : sinput) : list str :=
  match e with
  | SIDict d => map snd d
  | SIList l => l
  | SIStr s => [s]
  end.

(* ---------- validation outcomes ---------- *)
Inductive verr :=
| VForbidden                     (* InvalidInput(forbidden_message) *)
| VRequired (f : str)            (* "Invalid Input: Answer must contain the function f" *)
| VNotPermitted (fs : names).    (* "Invalid Input: function(s) 'a', 'b' not permitted in answer" (sorted) *)

Inductive vres := VPass | VRaise (e : verr).

(* `for x in l: body`, where the body either raises or falls through *)
Fixpoint for_each {A : Type} (l : list A) (body : A -> vres) : vres :=
  match l with
  | [] => VPass
  | x :: r => match body x with VRaise e => VRaise e | VPass => for_each r body end
  end.

(* statement sequencing *)
Definition vseq (a b : vres) : vres := match a with VRaise e => VRaise e | VPass => b end.

(* ---------- the events of one iteration of the sampling loop of gen_evaluations ---------- *)
Inductive loop_event :=
| EvUpdate            (* varlist.update(var_samples[i]) *)
| EvAuthorEval        (* the author's expressions are evaluated with varlist *)
| EvScrub             (* for key in var_blacklist: del varlist[key] *)
| EvGuardVariable     (* SumGrader: a student summation variable that is in var_blacklist raises SummationError *)
| EvStudentEval       (* the student's expressions are evaluated with varlist *)
| EvRestore.          (* varlist.update(var_samples[i]) again, for the debug output *)

(* how var_blacklist is assembled before the loop *)
Inductive blacklist_part :=
| BInstructorInSample     (* [var for var in config['instructor_vars'] if var in var_samples[0]] *)
| BSiblings.              (* + [key for key in sibling_formulas] *)

(* ---------- the pieces of the regular expression built by numbered_vars_regexp ---------- *)
Record numbered_re := mkNumRe {
  nre_joiner : str;      (* '|'.join(map(re.escape, numbered_vars)) *)
  nre_parts  : list str  (* the string literals concatenated around head_list, in order *)
}.
