(* Model/Sampler.v -- executable model of the scalar / discrete / function samplers of
   mitxgraders/sampling.py (C12).  No proofs here.

   Every source of randomness or of transcendental values is an ORACLE ARGUMENT of the model
   (never an axiom):  u : the value returned by np.random.random_sample() / np.random.rand(),
   randint : np.random.randint, idx : the position picked by random.choice,
   sinv : np.sin, expi t : np.exp(1j*t).  The theorems state the oracle contracts they need
   (0 <= u < 1, low <= randint low high < high, |sin| <= 1, |exp(it)| = 1) as hypotheses.

   Numbers are exact rationals; complex numbers are Gaussian rationals Q*Q. *)
From Coq Require Import ZArith QArith Qabs List Bool.
From Verif.Lib Require Import QRound.
Import ListNotations.
Open Scope Q_scope.

(* ------------------------------------------------------------------------------------------ *)
(* complex numbers                                                                            *)
(* ------------------------------------------------------------------------------------------ *)
Definition C : Type := (Q * Q)%type.
Definition c0 : C := (0, 0).
Definition c1 : C := (1, 0).
Definition ci : C := (0, 1).
Definition cre (z : C) : Q := fst z.
Definition cim (z : C) : Q := snd z.
Definition cofQ (q : Q) : C := (q, 0).
Definition cadd (a b : C) : C := (fst a + fst b, snd a + snd b).
Definition csub (a b : C) : C := (fst a - fst b, snd a - snd b).
Definition copp (a : C) : C := (- fst a, - snd a).
Definition cmul (a b : C) : C := (fst a * fst b - snd a * snd b, fst a * snd b + snd a * fst b).
Definition cconj (a : C) : C := (fst a, - snd a).
Definition cnormsq (a : C) : Q := fst a * fst a + snd a * snd a.
Definition cinv (a : C) : C := (fst a / cnormsq a, - snd a / cnormsq a).
Definition cdiv (a b : C) : C := cmul a (cinv b).
Definition cscale (q : Q) (a : C) : C := (q * fst a, q * snd a).
Definition ceq (a b : C) : Prop := fst a == fst b /\ snd a == snd b.
Definition ceqb (a b : C) : bool := Qeq_bool (fst a) (fst b) && Qeq_bool (snd a) (snd b).
Definition cred (a : C) : C := (Qred (fst a), Qred (snd a)).
Definition creal (a : C) : Prop := snd a == 0.
Definition crealb (a : C) : bool := Qeq_bool (snd a) 0.
(* |a - b| <= eps, decided on squares *)
Definition cclose (eps : Q) (a b : C) : bool := Qle_bool (cnormsq (csub a b)) (eps * eps).

Fixpoint cpow (a : C) (n : nat) : C := match n with O => c1 | S k => cmul a (cpow a k) end.

(* sums keep their partial results in lowest terms (cred z = z as numbers) so that evaluation stays cheap *)
Fixpoint csum_list (l : list C) : C := match l with [] => c0 | x :: r => cred (cadd x (csum_list r)) end.

(* ------------------------------------------------------------------------------------------ *)
(* RealInterval / IntegerRange (sampling.py:90-156)                                           *)
(* ------------------------------------------------------------------------------------------ *)
(* __init__: if start > stop, swap *)
Definition real_interval_init (start stop : Q) : Q * Q :=
  if Qltb stop start then (stop, start) else (start, stop).
(* gen_sample: start + (stop - start) * np.random.random_sample() *)
Definition real_interval_gen (start stop u : Q) : Q := start + (stop - start) * u.
Definition real_interval (a b u : Q) : Q :=
  let r := real_interval_init a b in real_interval_gen (fst r) (snd r) u.

Definition integer_range_init (start stop : Z) : Z * Z :=
  if (stop <? start)%Z then (stop, start) else (start, stop).
(* gen_sample: np.random.randint(low=start, high=stop + 1): the (low, high) handed to the PRNG *)
Definition integer_range_call (start stop : Z) : Z * Z := (start, (stop + 1)%Z).
Definition integer_range (randint : Z -> Z -> Z) (a b : Z) : Z :=
  let r := integer_range_init a b in
  let c := integer_range_call (fst r) (snd r) in randint (fst c) (snd c).

(* ------------------------------------------------------------------------------------------ *)
(* ComplexRectangle / ComplexSector (sampling.py:159-220)                                     *)
(* ------------------------------------------------------------------------------------------ *)
(* self.re.gen_sample() + self.im.gen_sample()*1j   (re is drawn first) *)
Definition complex_rectangle (re0 re1 im0 im1 u1 u2 : Q) : C :=
  (real_interval re0 re1 u1, real_interval im0 im1 u2).

(* self.modulus.gen_sample() * np.exp(1j * self.argument.gen_sample()); expi t = exp(1j*t) *)
Definition sector_modulus (m0 m1 u1 : Q) : Q := real_interval m0 m1 u1.
Definition sector_argument (a0 a1 u2 : Q) : Q := real_interval a0 a1 u2.
Definition complex_sector (expi : Q -> C) (m0 m1 a0 a1 u1 u2 : Q) : C :=
  cscale (sector_modulus m0 m1 u1) (expi (sector_argument a0 a1 u2)).

(* ------------------------------------------------------------------------------------------ *)
(* DiscreteSet / SpecificFunctions (sampling.py:223-264, 366-389)                             *)
(* ------------------------------------------------------------------------------------------ *)
(* TupleOfType / ListOfType wrap a single value into a one-element collection; random.choice
   returns the member at a position idx < len *)
Definition choice {A : Type} (members : list A) (idx : nat) (dflt : A) : A := nth idx members dflt.

(* ------------------------------------------------------------------------------------------ *)
(* RandomFunction (sampling.py:267-363)                                                       *)
(* ------------------------------------------------------------------------------------------ *)
(* the float np.pi as the exact rational it denotes *)
Definition pi_f : Q := 884279719003555 # 281474976710656.

(* one drawn coefficient triple, raw PRNG values in [0,1): A, complex phase, B, C *)
Record rf_raw := mkRaw { r_a : Q; r_p : Q; r_b : Q; r_c : Q }.
(* the coefficients gen_sample stores in the closure *)
Record rf_term := mkTerm { t_a : C; t_b : Q; t_c : Q }.

Definition rf_amp (u : Q) : Q := u / 2 + (1 # 2).                       (* rand/2 + 0.5 *)
Definition rf_phase_arg (u : Q) : Q := u * pi_f * 2.                     (* rand * np.pi * 2 (times j) *)
Definition rf_freq (u : Q) : Q := 2 * pi_f * (u - (1 # 2)).              (* 2*np.pi*(rand - 0.5) *)
Definition rf_shift (u : Q) : Q := 2 * pi_f * u.                         (* 2*np.pi*rand *)

Definition rf_coeff (expi : Q -> C) (cplx : bool) (r : rf_raw) : rf_term :=
  let a := cofQ (rf_amp (r_a r)) in
  mkTerm (if cplx then cmul a (expi (rf_phase_arg (r_p r))) else a) (rf_freq (r_b r)) (rf_shift (r_c r)).

(* a drawn function: for each output component i, for each term j, the coefficients over the inputs k *)
Definition rf_fn : Type := list (list (list rf_term)).

Definition rf_draw (expi : Q -> C) (cplx : bool) (raw : list (list (list rf_raw))) : rf_fn :=
  map (map (map (rf_coeff expi cplx))) raw.

(* sum over k of A*sin(B*x_k + C); terms and arguments are paired position-wise *)
Fixpoint rf_inner (sinv : Q -> Q) (ts : list rf_term) (xs : list Q) : C :=
  match ts, xs with
  | t :: ts', x :: xs' => cred (cadd (cscale (sinv (t_b t * x + t_c t)) (t_a t)) (rf_inner sinv ts' xs'))
  | _, _ => c0
  end.

(* fullsum * amplitude / (num_terms * input_dim) + center   (input_dim: the closure variable of gen_sample) *)
Definition rf_component (sinv : Q -> Q) (input_dim : nat) (center : C) (amplitude : Q) (num_terms : Z)
           (rows : list (list rf_term)) (xs : list Q) : C :=
  let fullsum := csum_list (map (fun ts => rf_inner sinv ts xs) rows) in
  cadd (cscale (amplitude / (inject_Z num_terms * inject_Z (Z.of_nat input_dim))) fullsum) center.

(* random_function( *args ): None = ConfigError (wrong number of arguments) *)
Definition rf_eval (sinv : Q -> Q) (input_dim : nat) (center : C) (amplitude : Q) (num_terms : Z)
           (f : rf_fn) (xs : list Q) : option (list C) :=
  if Nat.eqb (length xs) input_dim
  then Some (map (fun rows => rf_component sinv input_dim center amplitude num_terms rows xs) f)
  else None.

(* shape of the raw draw np.random.rand(output_dim, num_terms, input_dim) *)
Definition rf_shape_ok {A} (output_dim num_terms input_dim : nat) (raw : list (list (list A))) : bool :=
  Nat.eqb (length raw) output_dim
  && forallb (fun rows => Nat.eqb (length rows) num_terms
                          && forallb (fun ts => Nat.eqb (length ts) input_dim) rows) raw.
