(* ParserState.v -- the parser as a state machine (C10): MathParser.parse / raw_parse / reset_storage,
   the module-level PARSER shared by parse() and evaluator(), MathExpression's stored name sets and
   EvalMetaData (mitxgraders/helpers/calc/expressions.py:310-343, 494-530, 563-568, 598-712, 1168-1266).
   No proofs here.

   State of a MathParser:
     cache    dict  space-free string -> MathExpression, in insertion order
     heap     every triple of set objects (variables_used, functions_used, suffixes_used) ever allocated;
              Python's sets are mutable objects that are *shared by reference*, so a set is a heap cell
     cur      the cell the parser's own attributes self.variables_used/... currently point to ("scratch"):
              the parse actions add to heap[cur]
   A MathExpression (parsed) holds its tree and the *reference* p_ref to the cell it was given in raw_parse
   (MathExpression(expression, tree, self.variables_used, ...) stores the very objects the callbacks wrote to).
   reset_storage() makes the parser's attributes point to a new empty cell; it does not touch the old one.

   The machine is parametric in
     junk : str -> names     whatever callbacks pyparsing fired while *failing* to parse a string beyond the
                             ones the token-level model computes (e.g. suffix actions before a character the
                             lexer rejects); arbitrary, the theorems hold for every junk
     engine_fails : str -> bool
                             the strings on which the parsing engine itself gives up with a non-parse exception
                             (pyparsing recurses once per bracket level: RecursionError on deep nesting); the
                             exception is not a ParseException, so parse() does not translate it, it escapes
                             as it is -- after `finally` has reset the scratch.  Arbitrary as well.
     policy                  which of the anchored mechanisms are in place.  [faithful] is the code as it is;
                             the other policies exist only to show (Props/C10.v, Examples) that the theorems
                             fail without the mechanism: reset only after a successful parse (no `finally`),
                             reset by .clear() instead of replacing the sets, reset after parse-class errors
                             only (`except (ParseException, ...)` instead of `finally`).

   parse_op    MathParser.parse(expression)
   eval_op     evaluator(formula, variables, functions, suffixes, max_array_dim) through the same parser
   step / run  a history of calls;  the second component of step is what the caller observes (a view):
               the tree, the three reported name collections read through the returned object, the value and
               metadata, or the error together with the string it quotes. *)
From Coq Require Import ZArith QArith List Bool.
From Verif.Model Require Import Result Lexer Parser Eval ParserStateCb.
Import ListNotations.

Record parsed := mkParsed { p_tree : tree; p_ref : nat }.

Record pstate := mkState { cache : list (str * parsed); heap : list names; cur : nat }.

Record policy := mkPolicy { reset_on_error : bool; reset_replaces : bool; reset_on_engine_error : bool }.
Definition faithful : policy := mkPolicy true true true.

Definition init : pstate := mkState [] [no_names] 0.

Fixpoint upd {A} (l : list A) (i : nat) (f : A -> A) : list A :=
  match l, i with
  | [], _ => []
  | x :: r, O => f x :: r
  | x :: r, S i' => x :: upd r i' f
  end.

Definition cell (st : pstate) (i : nat) : names := nth i (heap st) no_names.
Definition scratch (st : pstate) : names := cell st (cur st).

(* a parse action:  self.variables_used.add(...) etc. on the objects the parser currently points to *)
Definition record (st : pstate) (l : names) : pstate :=
  mkState (cache st) (upd (heap st) (cur st) (fun c => c +++ l)) (cur st).

(* reset_storage: self.variables_used = set(); ...   (new objects)          -- the code as it is
   the .clear() variant empties the objects in place and keeps pointing to them *)
Definition reset (pol : policy) (st : pstate) : pstate :=
  if reset_replaces pol
  then mkState (cache st) (heap st ++ [no_names]) (length (heap st))
  else mkState (cache st) (upd (heap st) (cur st) (fun _ => no_names)) (cur st).

Inductive perr :=
| EUnbal (e : bracket_error) (quoted : str)      (* UnbalancedBrackets; highlights the space-free string *)
| EUnparse (quoted : str)                         (* UnableToParse "Could not parse '<quoted>' as a formula" *)
| EEngine.                                        (* a non-parse exception of the engine (RecursionError on deep nesting)
                                                     escapes parse() / evaluator() untranslated *)

Inductive raw_err := RawUnbal (e : bracket_error) | RawUnparsable | RawEngine.

Section Machine.
  Variable junk : str -> names.
  Variable engine_fails : str -> bool.
  Variable pol : policy.

  Definition fail (st : pstate) (l : names) (e : raw_err) : pstate * (parsed + raw_err) :=
    let st1 := record st l in
    let resets := match e with RawEngine => reset_on_engine_error pol | _ => reset_on_error pol end in
    (if resets then reset pol st1 else st1, inr e).

  (* raw_parse(expression): try: validate brackets; grammar.parseString (callbacks fire);
     MathExpression(..., self.variables_used, ...)   finally: reset_storage() *)
  Definition raw_parse (st : pstate) (k : str) : pstate * (parsed + raw_err) :=
    match check_brackets k with
    | Some e => fail st no_names (RawUnbal e)
    | None =>
        if engine_fails k then fail st (junk k) RawEngine else
        match lex k with
        | None => fail st (junk k) RawUnparsable
        | Some ts =>
            match cb_parse_tokens ts with
            | (Some t, l) => let st1 := record st l in
                             (reset pol st1, inl (mkParsed t (cur st1)))
            | (None, l) => fail st (l +++ junk k) RawUnparsable
            end
        end
    end.

  Definition lookup_cache (c : list (str * parsed)) (k : str) : option parsed := assoc c k.

  (* MathParser.parse(expression) *)
  Definition parse_op (st : pstate) (s : str) : pstate * (parsed + perr) :=
    let k := strip_spaces s in
    match lookup_cache (cache st) k with
    | Some p => (st, inl p)
    | None =>
        match raw_parse st k with
        | (st', inl p) => (mkState (cache st' ++ [(k, p)]) (heap st') (cur st'), inl p)
        | (st', inr (RawUnbal e)) => (st', inr (EUnbal e k))
        | (st', inr RawUnparsable) => (st', inr (EUnparse s))
        | (st', inr RawEngine) => (st', inr EEngine)
        end
    end.

  (* what a caller sees of a MathExpression: its tree and the three collections behind its references *)
  Inductive pview := VTree (t : tree) (nm : names) | VErr (e : perr).

  Definition view_parse (st : pstate) (r : parsed + perr) : pview :=
    match r with
    | inl p => VTree (p_tree p) (cell st (p_ref p))
    | inr e => VErr e
    end.

  (* MathExpression.check_scope reads the stored collections (not the tree) *)
  Definition check_scope_names (E : env) (nm : names) : option everr :=
    if negb (forallb (defined (venv E)) (n_vars nm)) then Some EUndefVar
    else if negb (forallb (defined (fenv E)) (n_funcs nm)) then Some EUndefFun
    else if negb (forallb (defined (senv E)) (n_sufs nm)) then Some EUndefSuffix
    else None.

  Inductive eview :=
  | EvNan                                        (* (nan, empty usage) *)
  | EvVal (v : val) (nm : names) (dim : nat)     (* (value, EvalMetaData) *)
  | EvPErr (e : perr)
  | EvTooManyDims
  | EvErr (e : everr).

  (* evaluator(formula, variables, functions, suffixes, max_array_dim) *)
  Definition eval_op (st : pstate) (E : env) (max_array_dim : option nat) (formula : option str)
    : pstate * eview :=
    match formula with
    | None => (st, EvNan)
    | Some s =>
        match py_strip s with
        | [] => (st, EvNan)
        | s' =>
            match parse_op st s' with
            | (st', inr e) => (st', EvPErr e)
            | (st', inl p) =>
                let nm := cell st' (p_ref p) in
                (st', match check_scope_names E nm with
                      | Some e => EvErr e
                      | None =>
                          match eval E (p_tree p) with
                          | Err e => EvErr e
                          | Ok v =>
                              let d := max_dim_used E (p_tree p) in
                              match max_array_dim with
                              | Some m => if (m <? d)%nat then EvTooManyDims else EvVal v nm d
                              | None => EvVal v nm d
                              end
                          end
                      end)
            end
        end
    end.

  Inductive op :=
  | OParse (s : str)
  | OEval (E : env) (max_array_dim : option nat) (formula : option str).

  Inductive view := VP (v : pview) | VE (v : eview).

  Definition step (st : pstate) (o : op) : pstate * view :=
    match o with
    | OParse s => let (st', r) := parse_op st s in (st', VP (view_parse st' r))
    | OEval E m f => let (st', v) := eval_op st E m f in (st', VE v)
    end.

  Definition run (st : pstate) (ops : list op) : pstate :=
    fold_left (fun s o => fst (step s o)) ops st.

  (* the views of a whole history, in order *)
  Fixpoint trace (st : pstate) (ops : list op) : list view :=
    match ops with
    | [] => []
    | o :: r => let (st', v) := step st o in v :: trace st' r
    end.
End Machine.

Arguments VTree t nm.
Arguments VErr e.
Arguments EvNan.
Arguments EvVal v nm dim.
Arguments EvPErr e.
Arguments EvTooManyDims.
Arguments EvErr e.
Arguments OParse s.
Arguments OEval E max_array_dim formula.
Arguments VP v.
Arguments VE v.

(* ---------- the reference: a freshly constructed parser ---------- *)
(* MathParser().parse(s), seen through the returned object *)
Definition fresh_parse (junk : str -> names) (engine : str -> bool) (s : str) : pview :=
  let (st, r) := parse_op junk engine faithful init s in view_parse st r.

(* the stateless description the history-independence theorems compare against: Model/Parser.v's
   parse_formula, the names read off the tree by the callbacks, errors quoting the call's own string *)
Definition spec_parse (engine : str -> bool) (s : str) : pview :=
  let k := strip_spaces s in
  match check_brackets k with
  | Some e => VErr (EUnbal e k)
  | None => if engine k then VErr EEngine else
            match lex k with
            | None => VErr (EUnparse s)
            | Some ts => match cb_parse_tokens ts with
                         | (Some t, l) => VTree t l
                         | (None, _) => VErr (EUnparse s)
                         end
            end
  end.

Definition spec_eval (engine : str -> bool) (E : env) (max_array_dim : option nat) (formula : option str) : eview :=
  match formula with
  | None => EvNan
  | Some s =>
      match py_strip s with
      | [] => EvNan
      | s' =>
          match spec_parse engine s' with
          | VErr e => EvPErr e
          | VTree t nm =>
              match check_scope_names E nm with
              | Some e => EvErr e
              | None =>
                  match eval E t with
                  | Err e => EvErr e
                  | Ok v =>
                      let d := max_dim_used E t in
                      match max_array_dim with
                      | Some m => if (m <? d)%nat then EvTooManyDims else EvVal v nm d
                      | None => EvVal v nm d
                      end
                  end
              end
          end
      end
  end.

Definition spec_view (engine : str -> bool) (o : op) : view :=
  match o with
  | OParse s => VP (spec_parse engine s)
  | OEval E m f => VE (spec_eval engine E m f)
  end.

(* projection of an evaluation view onto Model/Eval.v's outcome (C03's front door) *)
Definition eview_outcome (v : eview) : outcome :=
  match v with
  | EvNan => ONan
  | EvVal x _ _ => OVal x
  | EvPErr (EUnbal e _) => OParseError (PEUnbalanced e)
  | EvPErr (EUnparse _) => OParseError PEUnparsable
  | EvPErr EEngine => OError EUnsupported          (* outside Model/Eval.v: the engine gave up *)
  | EvTooManyDims => OParseError PETooManyDims
  | EvErr e => OError e
  end.

(* ---------- occurrences of names in a derivation (Model/EvalSpec.v's binary syntax), by role ---------- *)
From Verif.Model Require Import EvalSpec.

Fixpoint evars (e : expr) : list str :=
  match e with
  | ENum _ _ => []
  | EVar n => [n]
  | EApp _ args => flat_map evars args
  | EArr items => flat_map evars items
  | EParen a | ENeg a | EPos a => evars a
  | EAdd a b | ESub a b | EMul a b | EDiv a b | EPow a b => evars a ++ evars b
  | EPar l => flat_map evars l
  end.

Fixpoint efuncs (e : expr) : list str :=
  match e with
  | ENum _ _ | EVar _ => []
  | EApp f args => f :: flat_map efuncs args
  | EArr items => flat_map efuncs items
  | EParen a | ENeg a | EPos a => efuncs a
  | EAdd a b | ESub a b | EMul a b | EDiv a b | EPow a b => efuncs a ++ efuncs b
  | EPar l => flat_map efuncs l
  end.

Fixpoint esufs (e : expr) : list str :=
  match e with
  | ENum _ (Some u) => [u]
  | ENum _ None | EVar _ => []
  | EApp _ args => flat_map esufs args
  | EArr items => flat_map esufs items
  | EParen a | ENeg a | EPos a => esufs a
  | EAdd a b | ESub a b | EMul a b | EDiv a b | EPow a b => esufs a ++ esufs b
  | EPar l => flat_map esufs l
  end.

Definition enames (e : expr) : names := mkNames (evars e) (efuncs e) (esufs e).

(* ---------- comparison helpers used by the correspondence ---------- *)
Definition memb (x : str) (l : list str) : bool := existsb (str_eqb x) l.
Definition same_set (a b : list str) : bool := forallb (fun x => memb x b) a && forallb (fun x => memb x a) b.
Definition names_same (a b : names) : bool :=
  same_set (n_vars a) (n_vars b) && same_set (n_funcs a) (n_funcs b) && same_set (n_sufs a) (n_sufs b).
Definition names_empty (a : names) : bool :=
  match n_vars a, n_funcs a, n_sufs a with [], [], [] => true | _, _, _ => false end.

(* ---------- the names in a token stream, read off lexically ---------- *)
(* every name token directly followed by '(' counts as a function, every other name token as a variable,
   every numeral's suffix as a suffix; in order of occurrence *)
Fixpoint scan_names (ts : list token) : names :=
  match ts with
  | [] => no_names
  | TName n :: r => (match r with TLP :: _ => cb_fun n | _ => cb_var n end) +++ scan_names r
  | TNum _ s :: r => cb_suffix s +++ scan_names r
  | _ :: r => scan_names r
  end.
