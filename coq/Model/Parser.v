(* Parser.v -- token-level model of MathParser.get_grammar / MathParser.parse
   (mitxgraders/helpers/calc/expressions.py:361-530).  No proofs here.  Rules: DESIGN.md Appendix A.

   EXPORTS (for C03, C10, C09):
     tree      the parse tree, same information as pyparsing's flat named ParseResults:
                 Num text suffix            number   [text, suffix?]
                 Var name                   variable [name]
                 Fun name args              function [name, arguments[...]]       (args non-empty)
                 Paren t                    parentheses [t]
                 Arr items                  array [...]                           (items non-empty)
                 Pow base rest              power [base, '-'?, a, '-'?, a, ...]   rest : list (minus?, atom), non-empty
                 Neg t                      negation ['-', t]
                 Par first rest             parallel [first, n, n, ...]           rest non-empty
                 Prod first rest            product [first, op, p, op, p ...]     rest non-empty
                 Sum lead first rest        sum ['+'?, first, op, p, ...]         lead = leading '+'; lead or rest non-empty
               nodes with a single child collapse (group_if_multiple): the smart constructors
               mk_pow / mk_par / mk_prod / mk_sum return the child itself.
     to_sexp : tree -> sexp      the flat ParseResults shape (what the correspondence compares)
     parse_tokens : list token -> option tree            grammar + stringEnd
     presult = PTree t | PUnbalanced e | PUnparsable
     parse_formula : str -> presult                      MathParser.parse on a fresh parser
     vars_of / funcs_of / suffixes_of : tree -> list str   names in left-to-right order of occurrence
                                                           (with repetitions; compare as sets)
     print : tree -> list token                          canonical token text of a tree *)
From Coq Require Import ZArith List Bool.
From Verif.Model Require Import Result Lexer.
Import ListNotations.

Inductive addop := OpAdd | OpSub.
Inductive mulop := OpMul | OpDiv.

Inductive tree :=
| Num (text : str) (suffix : option str)
| Var (name : str)
| Fun (name : str) (args : list tree)
| Paren (t : tree)
| Arr (items : list tree)
| Pow (base : tree) (rest : list (bool * tree))
| Neg (t : tree)
| Par (first : tree) (rest : list tree)
| Prod (first : tree) (rest : list (mulop * tree))
| Sum (lead : bool) (first : tree) (rest : list (addop * tree)).

(* group_if_multiple *)
Definition mk_pow (b : tree) (rest : list (bool * tree)) : tree :=
  match rest with [] => b | _ => Pow b rest end.
Definition mk_neg (minus : bool) (t : tree) : tree := if minus then Neg t else t.
Definition mk_par (f : tree) (rest : list tree) : tree :=
  match rest with [] => f | _ => Par f rest end.
Definition mk_prod (f : tree) (rest : list (mulop * tree)) : tree :=
  match rest with [] => f | _ => Prod f rest end.
Definition mk_sum (lead : bool) (f : tree) (rest : list (addop * tree)) : tree :=
  match lead, rest with false, [] => f | _, _ => Sum lead f rest end.

(* ---------- the grammar; [rec] is the parser for a complete expression one bracket level down ---------- *)
Section Levels.
  Variable rec : list token -> option (tree * list token).

  (* delimitedList(expression) continuation:  { ',' expr } ; a failed body rewinds to before the comma *)
  Fixpoint list_loop (k : nat) (ts : list token) : list tree * list token :=
    match k with
    | O => ([], ts)
    | S k' => match ts with
              | TComma :: r => match rec r with
                               | Some (t, r') => let (l, r'') := list_loop k' r' in (t :: l, r'')
                               | None => ([], ts)
                               end
              | _ => ([], ts)
              end
    end.

  Definition parse_list (ts : list token) : option (list tree * list token) :=
    match rec ts with
    | Some (t, r) => let (l, r') := list_loop (length r) r in Some (t :: l, r')
    | None => None
    end.

  (* atom := number | function | variable | parentheses | array  (ordered choice) *)
  Definition parse_atom (ts : list token) : option (tree * list token) :=
    match ts with
    | TNum x s :: r => Some (Num x s, r)
    | TName n :: TLP :: r =>
        match parse_list r with
        | Some (args, TRP :: r') => Some (Fun n args, r')
        | _ => Some (Var n, TLP :: r)
        end
    | TName n :: r => Some (Var n, r)
    | TLP :: r => match rec r with
                  | Some (t, TRP :: r') => Some (Paren t, r')
                  | _ => None
                  end
    | TLB :: r => match parse_list r with
                  | Some (items, TRB :: r') => Some (Arr items, r')
                  | _ => None
                  end
    | _ => None
    end.

  (* power := atom { '^' ['-'] atom } *)
  Fixpoint pow_loop (k : nat) (ts : list token) : list (bool * tree) * list token :=
    match k with
    | O => ([], ts)
    | S k' => match ts with
              | TCaret :: r =>
                  let '(sg, r1) := match r with TMinus :: r0 => (true, r0) | _ => (false, r) end in
                  match parse_atom r1 with
                  | Some (a, r2) => let (l, r3) := pow_loop k' r2 in ((sg, a) :: l, r3)
                  | None => ([], ts)
                  end
              | _ => ([], ts)
              end
    end.

  Definition parse_power (ts : list token) : option (tree * list token) :=
    match parse_atom ts with
    | Some (a, r) => let (l, r') := pow_loop (length r) r in Some (mk_pow a l, r')
    | None => None
    end.

  (* negation := ['-'] power *)
  Definition parse_negation (ts : list token) : option (tree * list token) :=
    match ts with
    | TMinus :: r => match parse_power r with
                     | Some (p, r') => Some (Neg p, r')
                     | None => None
                     end
    | _ => parse_power ts
    end.

  (* parallel := negation { '|' '|' negation } *)
  Fixpoint par_loop (k : nat) (ts : list token) : list tree * list token :=
    match k with
    | O => ([], ts)
    | S k' => match ts with
              | TPipe :: TPipe :: r => match parse_negation r with
                                       | Some (n, r') => let (l, r'') := par_loop k' r' in (n :: l, r'')
                                       | None => ([], ts)
                                       end
              | _ => ([], ts)
              end
    end.

  Definition parse_parallel (ts : list token) : option (tree * list token) :=
    match parse_negation ts with
    | Some (n, r) => let (l, r') := par_loop (length r) r in Some (mk_par n l, r')
    | None => None
    end.

  (* product := parallel { ('*'|'/') parallel } *)
  Fixpoint prod_loop (k : nat) (ts : list token) : list (mulop * tree) * list token :=
    match k with
    | O => ([], ts)
    | S k' =>
        let step (o : mulop) (r : list token) :=
          match parse_parallel r with
          | Some (p, r') => let (l, r'') := prod_loop k' r' in ((o, p) :: l, r'')
          | None => ([], ts)
          end in
        match ts with
        | TStar :: r => step OpMul r
        | TSlash :: r => step OpDiv r
        | _ => ([], ts)
        end
    end.

  Definition parse_product (ts : list token) : option (tree * list token) :=
    match parse_parallel ts with
    | Some (p, r) => let (l, r') := prod_loop (length r) r in Some (mk_prod p l, r')
    | None => None
    end.

  (* sum := ['+'] product { ('+'|'-') product } *)
  Fixpoint sum_loop (k : nat) (ts : list token) : list (addop * tree) * list token :=
    match k with
    | O => ([], ts)
    | S k' =>
        let step (o : addop) (r : list token) :=
          match parse_product r with
          | Some (p, r') => let (l, r'') := sum_loop k' r' in ((o, p) :: l, r'')
          | None => ([], ts)
          end in
        match ts with
        | TPlus :: r => step OpAdd r
        | TMinus :: r => step OpSub r
        | _ => ([], ts)
        end
    end.

  Definition parse_sum (ts : list token) : option (tree * list token) :=
    let '(lead, ts1) := match ts with TPlus :: r => (true, r) | _ => (false, ts) end in
    match parse_product ts1 with
    | Some (p, r) => let (l, r') := sum_loop (length r) r in Some (mk_sum lead p l, r')
    | None => None
    end.
End Levels.

(* [fuel] bounds the bracket nesting depth *)
Fixpoint parse_expr (fuel : nat) (ts : list token) : option (tree * list token) :=
  match fuel with
  | O => None
  | S f => parse_sum (parse_expr f) ts
  end.

(* grammar + stringEnd *)
Definition parse_tokens (ts : list token) : option tree :=
  match parse_expr (S (length ts)) ts with
  | Some (t, []) => Some t
  | _ => None
  end.

(* ---------- MathParser.parse on a fresh parser ---------- *)
Inductive presult := PTree (t : tree) | PUnbalanced (e : bracket_error) | PUnparsable.

Definition parse_formula (s : str) : presult :=
  let s' := strip_spaces s in
  match check_brackets s' with
  | Some e => PUnbalanced e
  | None => match lex s' with
            | None => PUnparsable
            | Some ts => match parse_tokens ts with
                         | Some t => PTree t
                         | None => PUnparsable
                         end
            end
  end.

(* ---------- names used (variable_parse_action / function_parse_action / suffix_parse_action) ---------- *)
Fixpoint vars_of (t : tree) : list str :=
  match t with
  | Num _ _ => []
  | Var n => [n]
  | Fun _ args => flat_map vars_of args
  | Paren t => vars_of t
  | Arr items => flat_map vars_of items
  | Pow b rest => vars_of b ++ flat_map (fun p => vars_of (snd p)) rest
  | Neg t => vars_of t
  | Par f rest => vars_of f ++ flat_map vars_of rest
  | Prod f rest => vars_of f ++ flat_map (fun p => vars_of (snd p)) rest
  | Sum _ f rest => vars_of f ++ flat_map (fun p => vars_of (snd p)) rest
  end.

Fixpoint funcs_of (t : tree) : list str :=
  match t with
  | Num _ _ => []
  | Var _ => []
  | Fun n args => n :: flat_map funcs_of args
  | Paren t => funcs_of t
  | Arr items => flat_map funcs_of items
  | Pow b rest => funcs_of b ++ flat_map (fun p => funcs_of (snd p)) rest
  | Neg t => funcs_of t
  | Par f rest => funcs_of f ++ flat_map funcs_of rest
  | Prod f rest => funcs_of f ++ flat_map (fun p => funcs_of (snd p)) rest
  | Sum _ f rest => funcs_of f ++ flat_map (fun p => funcs_of (snd p)) rest
  end.

Fixpoint suffixes_of (t : tree) : list str :=
  match t with
  | Num _ (Some u) => [u]
  | Num _ None => []
  | Var _ => []
  | Fun _ args => flat_map suffixes_of args
  | Paren t => suffixes_of t
  | Arr items => flat_map suffixes_of items
  | Pow b rest => suffixes_of b ++ flat_map (fun p => suffixes_of (snd p)) rest
  | Neg t => suffixes_of t
  | Par f rest => suffixes_of f ++ flat_map suffixes_of rest
  | Prod f rest => suffixes_of f ++ flat_map (fun p => suffixes_of (snd p)) rest
  | Sum _ f rest => suffixes_of f ++ flat_map (fun p => suffixes_of (snd p)) rest
  end.

(* ---------- canonical token text of a tree ---------- *)
Fixpoint print (t : tree) : list token :=
  match t with
  | Num x s => [TNum x s]
  | Var n => [TName n]
  | Fun n args =>
      TName n :: TLP ::
      (match args with
       | [] => []
       | a :: l => print a ++ flat_map (fun t => TComma :: print t) l
       end) ++ [TRP]
  | Paren t => TLP :: print t ++ [TRP]
  | Arr items =>
      TLB ::
      (match items with
       | [] => []
       | a :: l => print a ++ flat_map (fun t => TComma :: print t) l
       end) ++ [TRB]
  | Pow b rest =>
      print b ++ flat_map (fun p : bool * tree => TCaret :: (if fst p then [TMinus] else []) ++ print (snd p)) rest
  | Neg t => TMinus :: print t
  | Par f rest => print f ++ flat_map (fun t => TPipe :: TPipe :: print t) rest
  | Prod f rest =>
      print f ++ flat_map (fun p : mulop * tree => (match fst p with OpMul => TStar | OpDiv => TSlash end) :: print (snd p)) rest
  | Sum lead f rest =>
      (if lead then [TPlus] else []) ++ print f ++
      flat_map (fun p : addop * tree => (match fst p with OpAdd => TPlus | OpSub => TMinus end) :: print (snd p)) rest
  end.

(* ---------- the flat ParseResults shape ---------- *)
Inductive sexp := SA (s : str) | SN (tag : Z) (kids : list sexp).

(* node tags: number 0, variable 1, function 2, arguments 3, parentheses 4, array 5, power 6,
   negation 7, parallel 8, product 9, sum 10 *)
Definition s_minus : sexp := SA [45%Z].
Definition s_plus : sexp := SA [43%Z].

Fixpoint to_sexp (t : tree) : sexp :=
  match t with
  | Num x None => SN 0 [SA x]
  | Num x (Some u) => SN 0 [SA x; SA u]
  | Var n => SN 1 [SA n]
  | Fun n args => SN 2 [SA n; SN 3 (map to_sexp args)]
  | Paren t => SN 4 [to_sexp t]
  | Arr items => SN 5 (map to_sexp items)
  | Pow b rest =>
      SN 6 (to_sexp b :: flat_map (fun p : bool * tree => (if fst p then [s_minus] else []) ++ [to_sexp (snd p)]) rest)
  | Neg t => SN 7 [s_minus; to_sexp t]
  | Par f rest => SN 8 (to_sexp f :: map to_sexp rest)
  | Prod f rest =>
      SN 9 (to_sexp f ::
            flat_map (fun p : mulop * tree => [SA [match fst p with OpMul => 42%Z | OpDiv => 47%Z end]; to_sexp (snd p)]) rest)
  | Sum lead f rest =>
      SN 10 ((if lead then [s_plus] else []) ++ to_sexp f ::
             flat_map (fun p : addop * tree => [SA [match fst p with OpAdd => 43%Z | OpSub => 45%Z end]; to_sexp (snd p)]) rest)
  end.

Fixpoint sexp_eqb (a b : sexp) : bool :=
  match a, b with
  | SA x, SA y => str_eqb x y
  | SN i k, SN j l =>
      Z.eqb i j &&
      (fix go (k l : list sexp) : bool :=
         match k, l with
         | [], [] => true
         | x :: k', y :: l' => sexp_eqb x y && go k' l'
         | _, _ => false
         end) k l
  | _, _ => false
  end.
