(* ParserStateCb.v -- the grammar of Model/Parser.v with its parse actions (C10).
   No proofs here.

   MathParser.get_grammar attaches three callbacks (mitxgraders/helpers/calc/expressions.py:327-343,
   390, 435, 449):
       suffix.setParseAction(self.suffix_parse_action)        fires when a numeral's suffix has been matched
       variable.setParseAction(self.variable_parse_action)    fires when the `variable` alternative of atom succeeds
       function.setParseAction(self.function_parse_action)    fires when name ( args ) has been matched completely
   pyparsing runs an action the moment its element succeeds -- also inside an alternative, an optional part
   or a repetition body that is abandoned afterwards (no packrat, callDuringTry = False).  So the callbacks
   record more than the final tree whenever something is parsed successfully and then thrown away.

   The functions below are the functions of Model/Parser.v, level for level, each additionally returning the
   [names] recorded by every callback fired while it ran, *including* those of abandoned attempts:
       - a repetition body (',' expr | '^' ['-'] atom | '||' negation | '*' parallel | '+' product) that fails
         rewinds the input, but whatever fired inside it stays recorded;
       - when  name '(' args  is not followed by ')', the function alternative is abandoned (what fired inside
         the arguments stays), and the variable alternative fires for the bare name;
       - a failed parenthesis / array keeps what fired inside.
   Order of recording = order of firing (a function's callback comes after those of its arguments).

   Proofs/ParserStateCb.v shows (i) the tree/rest component is exactly Model/Parser.v's, and (ii) whenever the
   whole input is accepted, the recorded names are a permutation of vars_of/funcs_of/suffixes_of of the tree:
   nothing fired in an abandoned attempt can belong to an accepted input. *)
From Coq Require Import ZArith List Bool.
From Verif.Model Require Import Result Lexer Parser.
Import ListNotations.

Record names := mkNames { n_vars : list str; n_funcs : list str; n_sufs : list str }.

Definition no_names : names := mkNames [] [] [].
Definition names_app (a b : names) : names :=
  mkNames (n_vars a ++ n_vars b) (n_funcs a ++ n_funcs b) (n_sufs a ++ n_sufs b).
Infix "+++" := names_app (at level 60, right associativity).

Definition cb_var (n : str) : names := mkNames [n] [] [].
Definition cb_fun (n : str) : names := mkNames [] [n] [].
Definition cb_suffix (s : option str) : names :=
  match s with Some u => mkNames [] [] [u] | None => no_names end.

(* the names that occur in a tree, by syntactic role *)
Definition names_of (t : tree) : names := mkNames (vars_of t) (funcs_of t) (suffixes_of t).

Section Levels.
  Variable rec : list token -> option (tree * list token) * names.

  Fixpoint cb_list_loop (k : nat) (ts : list token) : (list tree * list token) * names :=
    match k with
    | O => (([], ts), no_names)
    | S k' => match ts with
              | TComma :: r => match rec r with
                               | (Some (t, r'), l1) =>
                                   let '((l, r''), l2) := cb_list_loop k' r' in ((t :: l, r''), l1 +++ l2)
                               | (None, l1) => (([], ts), l1)
                               end
              | _ => (([], ts), no_names)
              end
    end.

  Definition cb_parse_list (ts : list token) : option (list tree * list token) * names :=
    match rec ts with
    | (Some (t, r), l1) => let '((l, r'), l2) := cb_list_loop (length r) r in (Some (t :: l, r'), l1 +++ l2)
    | (None, l1) => (None, l1)
    end.

  Definition cb_parse_atom (ts : list token) : option (tree * list token) * names :=
    match ts with
    | TNum x s :: r => (Some (Num x s, r), cb_suffix s)
    | TName n :: TLP :: r =>
        match cb_parse_list r with
        | (Some (args, TRP :: r'), l1) => (Some (Fun n args, r'), l1 +++ cb_fun n)
        | (_, l1) => (Some (Var n, TLP :: r), l1 +++ cb_var n)
        end
    | TName n :: r => (Some (Var n, r), cb_var n)
    | TLP :: r => match rec r with
                  | (Some (t, TRP :: r'), l1) => (Some (Paren t, r'), l1)
                  | (_, l1) => (None, l1)
                  end
    | TLB :: r => match cb_parse_list r with
                  | (Some (items, TRB :: r'), l1) => (Some (Arr items, r'), l1)
                  | (_, l1) => (None, l1)
                  end
    | _ => (None, no_names)
    end.

  Fixpoint cb_pow_loop (k : nat) (ts : list token) : (list (bool * tree) * list token) * names :=
    match k with
    | O => (([], ts), no_names)
    | S k' => match ts with
              | TCaret :: r =>
                  let '(sg, r1) := match r with TMinus :: r0 => (true, r0) | _ => (false, r) end in
                  match cb_parse_atom r1 with
                  | (Some (a, r2), l1) =>
                      let '((l, r3), l2) := cb_pow_loop k' r2 in (((sg, a) :: l, r3), l1 +++ l2)
                  | (None, l1) => (([], ts), l1)
                  end
              | _ => (([], ts), no_names)
              end
    end.

  Definition cb_parse_power (ts : list token) : option (tree * list token) * names :=
    match cb_parse_atom ts with
    | (Some (a, r), l1) => let '((l, r'), l2) := cb_pow_loop (length r) r in (Some (mk_pow a l, r'), l1 +++ l2)
    | (None, l1) => (None, l1)
    end.

  Definition cb_parse_negation (ts : list token) : option (tree * list token) * names :=
    match ts with
    | TMinus :: r => match cb_parse_power r with
                     | (Some (p, r'), l1) => (Some (Neg p, r'), l1)
                     | (None, l1) => (None, l1)
                     end
    | _ => cb_parse_power ts
    end.

  Fixpoint cb_par_loop (k : nat) (ts : list token) : (list tree * list token) * names :=
    match k with
    | O => (([], ts), no_names)
    | S k' => match ts with
              | TPipe :: TPipe :: r => match cb_parse_negation r with
                                       | (Some (n, r'), l1) =>
                                           let '((l, r''), l2) := cb_par_loop k' r' in ((n :: l, r''), l1 +++ l2)
                                       | (None, l1) => (([], ts), l1)
                                       end
              | _ => (([], ts), no_names)
              end
    end.

  Definition cb_parse_parallel (ts : list token) : option (tree * list token) * names :=
    match cb_parse_negation ts with
    | (Some (n, r), l1) => let '((l, r'), l2) := cb_par_loop (length r) r in (Some (mk_par n l, r'), l1 +++ l2)
    | (None, l1) => (None, l1)
    end.

  Fixpoint cb_prod_loop (k : nat) (ts : list token) : (list (mulop * tree) * list token) * names :=
    match k with
    | O => (([], ts), no_names)
    | S k' =>
        let step (o : mulop) (r : list token) :=
          match cb_parse_parallel r with
          | (Some (p, r'), l1) => let '((l, r''), l2) := cb_prod_loop k' r' in (((o, p) :: l, r''), l1 +++ l2)
          | (None, l1) => (([], ts), l1)
          end in
        match ts with
        | TStar :: r => step OpMul r
        | TSlash :: r => step OpDiv r
        | _ => (([], ts), no_names)
        end
    end.

  Definition cb_parse_product (ts : list token) : option (tree * list token) * names :=
    match cb_parse_parallel ts with
    | (Some (p, r), l1) => let '((l, r'), l2) := cb_prod_loop (length r) r in (Some (mk_prod p l, r'), l1 +++ l2)
    | (None, l1) => (None, l1)
    end.

  Fixpoint cb_sum_loop (k : nat) (ts : list token) : (list (addop * tree) * list token) * names :=
    match k with
    | O => (([], ts), no_names)
    | S k' =>
        let step (o : addop) (r : list token) :=
          match cb_parse_product r with
          | (Some (p, r'), l1) => let '((l, r''), l2) := cb_sum_loop k' r' in (((o, p) :: l, r''), l1 +++ l2)
          | (None, l1) => (([], ts), l1)
          end in
        match ts with
        | TPlus :: r => step OpAdd r
        | TMinus :: r => step OpSub r
        | _ => (([], ts), no_names)
        end
    end.

  Definition cb_parse_sum (ts : list token) : option (tree * list token) * names :=
    let '(lead, ts1) := match ts with TPlus :: r => (true, r) | _ => (false, ts) end in
    match cb_parse_product ts1 with
    | (Some (p, r), l1) => let '((l, r'), l2) := cb_sum_loop (length r) r in (Some (mk_sum lead p l, r'), l1 +++ l2)
    | (None, l1) => (None, l1)
    end.
End Levels.

Fixpoint cb_parse_expr (fuel : nat) (ts : list token) : option (tree * list token) * names :=
  match fuel with
  | O => (None, no_names)
  | S f => cb_parse_sum (cb_parse_expr f) ts
  end.

(* grammar + stringEnd: the tree (if the whole input is accepted) and everything the callbacks recorded *)
Definition cb_parse_tokens (ts : list token) : option tree * names :=
  match cb_parse_expr (S (length ts)) ts with
  | (Some (t, []), l) => (Some t, l)
  | (_, l) => (None, l)
  end.
