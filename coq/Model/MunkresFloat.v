(* Model/MunkresFloat.v -- the Munkres model instantiated at IEEE doubles (bit-exact replay of float runs).
   sys.maxsize (2^63-1) is not a double; the comparison `minval > x` in find_smallest is modelled with 2^63,
   which agrees with Python's exact int/float comparison for every x < 2^63-1. *)
From Coq Require Import ZArith List Bool PrimFloat.
From Verif.Model Require Import Munkres.
Import ListNotations.

Definition fmaxsize : float := 0x1p63%float.
Definition compute_fullF := compute_full float 0%float PrimFloat.add PrimFloat.sub PrimFloat.ltb PrimFloat.eqb fmaxsize.
