(* EvalSpec.v -- the documented ("mathematical") reading of formulas, against which the parser/evaluator
   model is proved correct (C03).  No proofs here.

     expr      binary syntax: numbers, names, applications, array literals, explicit (redundant) parentheses,
               + - * / (binary), n-ary parallel, unary minus, leading plus, power
     elevel    documented precedence: sum 0 < product 1 < parallel 2 < negation 3 < power 4 < atoms 5
     flatten   the flat tree the grammar assigns: left-nested sums/products become one flat node, right-nested
               powers (with an optional sign on each exponent) become one flat node, parentheses appear exactly
               where the documented precedence/associativity requires them (and where the expr has EParen)
     render    the token text = print (flatten e)
     denote    the documented semantics, by plain recursion on the binary syntax
     wf_expr   argument lists / array literals non-empty, parallel has >= 2 operands *)
From Coq Require Import ZArith QArith List Bool.
From Verif.Model Require Import Result Lexer Parser Eval.
Import ListNotations.

Inductive expr :=
| ENum (text : str) (suffix : option str)
| EVar (n : str)
| EApp (f : str) (args : list expr)
| EArr (items : list expr)
| EParen (e : expr)
| EAdd (a b : expr) | ESub (a b : expr) | EMul (a b : expr) | EDiv (a b : expr)
| EPar (l : list expr)
| ENeg (a : expr)
| EPos (a : expr)
| EPow (a b : expr).

Definition elevel (e : expr) : nat :=
  match e with
  | EAdd _ _ | ESub _ _ | EPos _ => 0
  | EMul _ _ | EDiv _ _ => 1
  | EPar _ => 2
  | ENeg _ => 3
  | EPow _ _ => 4
  | _ => 5
  end.

(* parentheses exactly when the operand binds weaker than its position requires *)
Definition wrap (need : nat) (e : expr) (t : tree) : tree :=
  if (need <=? elevel e)%nat then t else Paren t.

Definition sum_snoc (t : tree) (o : addop) (u : tree) : tree :=
  match t with
  | Sum lead f rest => Sum lead f (rest ++ [(o, u)])
  | _ => Sum false t [(o, u)]
  end.

Definition prod_snoc (t : tree) (o : mulop) (u : tree) : tree :=
  match t with
  | Prod f rest => Prod f (rest ++ [(o, u)])
  | _ => Prod t [(o, u)]
  end.

Definition pow_cons (b : tree) (sg : bool) (u : tree) : tree :=
  match u with
  | Pow b2 rest2 => Pow b ((sg, b2) :: rest2)
  | _ => Pow b [(sg, u)]
  end.

Fixpoint flatten (e : expr) : tree :=
  match e with
  | ENum x s => Num x s
  | EVar n => Var n
  | EApp f args => Fun f (map flatten args)
  | EArr items => Arr (map flatten items)
  | EParen e => Paren (flatten e)
  | EAdd a b => sum_snoc (flatten a) OpAdd (wrap 1 b (flatten b))
  | ESub a b => sum_snoc (flatten a) OpSub (wrap 1 b (flatten b))
  | EMul a b => prod_snoc (wrap 1 a (flatten a)) OpMul (wrap 2 b (flatten b))
  | EDiv a b => prod_snoc (wrap 1 a (flatten a)) OpDiv (wrap 2 b (flatten b))
  | EPar l => match map (fun e => wrap 3 e (flatten e)) l with
              | [] => Num [48%Z] None
              | t :: r => mk_par t r
              end
  | ENeg a => Neg (wrap 4 a (flatten a))
  | EPos a => Sum true (wrap 1 a (flatten a)) []
  | EPow a b =>
      let tb := wrap 5 a (flatten a) in
      match b with
      | ENeg b' => if (4 <=? elevel b')%nat then pow_cons tb true (flatten b')
                   else pow_cons tb false (wrap 4 b (flatten b))
      | _ => pow_cons tb false (wrap 4 b (flatten b))
      end
  end.

Definition render (e : expr) : list token := print (flatten e).

Fixpoint wf_expr (e : expr) : bool :=
  match e with
  | ENum _ _ | EVar _ => true
  | EApp _ args => negb (match args with [] => true | _ => false end) && forallb wf_expr args
  | EArr items => negb (match items with [] => true | _ => false end) && forallb wf_expr items
  | EParen e => wf_expr e
  | EAdd a b | ESub a b | EMul a b | EDiv a b | EPow a b => wf_expr a && wf_expr b
  | EPar l => (2 <=? length l)%nat && forallb wf_expr l
  | ENeg a | EPos a => wf_expr a
  end.

(* explicit parentheses removed *)
Fixpoint strip_parens (e : expr) : expr :=
  match e with
  | ENum _ _ | EVar _ => e
  | EApp f args => EApp f (map strip_parens args)
  | EArr items => EArr (map strip_parens items)
  | EParen e => strip_parens e
  | EAdd a b => EAdd (strip_parens a) (strip_parens b)
  | ESub a b => ESub (strip_parens a) (strip_parens b)
  | EMul a b => EMul (strip_parens a) (strip_parens b)
  | EDiv a b => EDiv (strip_parens a) (strip_parens b)
  | EPar l => EPar (map strip_parens l)
  | ENeg a => ENeg (strip_parens a)
  | EPos a => EPos (strip_parens a)
  | EPow a b => EPow (strip_parens a) (strip_parens b)
  end.

Section Denote.
  Variable E : env.

  Fixpoint denote (e : expr) : res val :=
    match e with
    | ENum x s => eval_number E x s
    | EVar n => match venv E n with Some v => Ok v | None => Err EUndefVar end
    | EApp f args =>
        bind (mapM denote args) (fun vs => match fenv E f with Some g => g vs | None => Err EUndefFun end)
    | EArr items => bind (mapM denote items) mk_array
    | EParen e => denote e
    | EAdd a b => bind (denote a) (fun x => bind (denote b) (fun y => vadd x y))
    | ESub a b => bind (denote a) (fun x => bind (denote b) (fun y => vsub x y))
    | EMul a b => bind (denote a) (fun x => bind (denote b) (fun y => vmul x y))
    | EDiv a b => bind (denote a) (fun x => bind (denote b) (fun y => vdiv x y))
    | EPar l => bind (mapM denote l) vpar
    | ENeg a => bind (denote a) vneg
    | EPos a => denote a
    | EPow a b => bind (denote a) (fun x => bind (denote b) (fun y => vpow x y))
    end.
End Denote.
