(* Model/MathFuncsExact.v -- C15: the exactly computable built-ins (floor, ceil, min, max, re, im, conj, |.|^2, kronecker,
   cross, trans, ctrans/adj, trace, det, norm^2) over Gaussian rationals, generic linear algebra over an arbitrary
   carrier with ring operations, and the interpretation of the numpy primitives used by the correspondence
   (transcendental primitives answered from the recorded oracle calls of the implementation).  No proofs here. *)
From Coq Require Import ZArith QArith Qround Qabs List String Bool Arith.
From Verif.Lib Require Import QRound MathFuncsBase.
From Verif.Model Require Import MathFuncs.
Import ListNotations.

(* ------------------------------------------------------------------------------------------------------------ *)
(* generic carrier                                                                                               *)
(* ------------------------------------------------------------------------------------------------------------ *)
Record ops (A : Type) := mkOps { o_zero : A; o_one : A; o_add : A -> A -> A; o_sub : A -> A -> A; o_mul : A -> A -> A;
                                 o_opp : A -> A }.
Arguments o_zero {A}. Arguments o_one {A}. Arguments o_add {A}. Arguments o_sub {A}. Arguments o_mul {A}. Arguments o_opp {A}.

Section Generic.
  Context {A : Type} (K : ops A).

  (* the only primitives cross needs are * and - ; everything else is irrelevant and set to a default *)
  Definition prims_of_ops : prims A :=
    mkPrims A (fun _ => o_zero K) (o_add K) (o_sub K) (o_mul K) (fun x _ => x) (o_opp K) (o_zero K)
            (fun x => x) (fun x => x) (fun x => x) (fun x => x) (fun x => x) (fun x => x) (fun x => x) (fun x => x)
            (fun x => x) (fun x => x) (fun x => x) (fun x => x) (fun x _ => x) (fun x => x) (fun x => x) (fun x => x)
            (fun x => x) (fun x => x) (fun _ _ => false) (fun _ _ => false) (fun _ _ => false).

  Definition vnth (v : list A) (i : nat) : A := nth i v (o_zero K).
  Definition cross3 (a b : list A) : list A := cross prims_of_ops (vnth a) (vnth b).
  Definition dot (a b : list A) : A := fold_right (o_add K) (o_zero K) (map (fun p => o_mul K (fst p) (snd p)) (combine a b)).

  Definition entry (m : list (list A)) (i j : nat) : A := vnth (nth i m []) j.
  (* transpose of a matrix with c columns *)
  Definition transpose (c : nat) (m : list (list A)) : list (list A) :=
    map (fun j => map (fun row => vnth row j) m) (seq 0 c).
  Definition trace (n : nat) (m : list (list A)) : A :=
    fold_right (o_add K) (o_zero K) (map (fun i => entry m i i) (seq 0 n)).

  Fixpoint remove_nth (j : nat) (l : list A) : list A :=
    match l with
    | [] => []
    | x :: r => match j with O => r | S j' => x :: remove_nth j' r end
    end.

  (* Laplace expansion along the first row; n is the dimension *)
  Fixpoint det (n : nat) (m : list (list A)) : A :=
    match n with
    | O => o_one K
    | S n' =>
        match m with
        | [] => o_zero K
        | row :: rest =>
            fold_right (o_add K) (o_zero K)
              (map (fun j => let t := o_mul K (vnth row j) (det n' (map (remove_nth j) rest)) in
                             if Nat.even j then t else o_opp K t)
                   (seq 0 n))
        end
    end.

End Generic.

(* ------------------------------------------------------------------------------------------------------------ *)
(* Gaussian rationals                                                                                            *)
(* ------------------------------------------------------------------------------------------------------------ *)
Definition GQ := (Q * Q)%type.
Open Scope Q_scope.
Definition gadd (z w : GQ) : GQ := (fst z + fst w, snd z + snd w).
Definition gsub (z w : GQ) : GQ := (fst z - fst w, snd z - snd w).
Definition gmul (z w : GQ) : GQ := (fst z * fst w - snd z * snd w, fst z * snd w + snd z * fst w).
Definition gopp (z : GQ) : GQ := (- fst z, - snd z).
Definition gconj (z : GQ) : GQ := (fst z, - snd z).
Definition gabs2 (z : GQ) : Q := fst z * fst z + snd z * snd z.
Definition gdiv (z w : GQ) : GQ :=
  ((fst z * fst w + snd z * snd w) / gabs2 w, (snd z * fst w - fst z * snd w) / gabs2 w).
Definition geqb (z w : GQ) : bool := Qeq_bool (fst z) (fst w) && Qeq_bool (snd z) (snd w).
Definition gred (z : GQ) : GQ := (Qred (fst z), Qred (snd z)).
Definition gofQ (q : Q) : GQ := (q, 0).
Definition GQops : ops GQ := mkOps GQ (0, 0) (1, 0) gadd gsub gmul gopp.

Definition floorQ (x : Q) : Q := inject_Z (Qfloor x).
Definition ceilQ (x : Q) : Q := inject_Z (Qceiling x).

(* Python's min and max of several arguments: the first extremal element *)
Fixpoint min_from (cur : Q) (l : list Q) : Q :=
  match l with [] => cur | y :: r => min_from (if Qltb y cur then y else cur) r end.
Fixpoint max_from (cur : Q) (l : list Q) : Q :=
  match l with [] => cur | y :: r => max_from (if Qltb cur y then y else cur) r end.
Definition py_min (l : list Q) : option Q := match l with [] => None | x :: r => Some (min_from x r) end.
Definition py_max (l : list Q) : option Q := match l with [] => None | x :: r => Some (max_from x r) end.

(* ------------------------------------------------------------------------------------------------------------ *)
(* correspondence: values, recorded oracle calls, evaluation of a table call                                     *)
(* ------------------------------------------------------------------------------------------------------------ *)
(* a Python value handed to / returned by a table function *)
Inductive val :=
| VNum (cplx : bool) (z : GQ)                       (* float (cplx = false) or complex *)
| VArr (cplx : bool) (dims : list nat) (data : list GQ).   (* MathArray / ndarray (complex dtype?), row-major *)

Definition shape_of_val (v : val) : argshape :=
  match v with VNum _ _ => ANumber | VArr _ d _ => AArray d end.

(* obj.item() of a number-like array; numbers are returned as they are *)
Definition item_val (v : val) : val :=
  match v with
  | VArr c d data => if Nat.eqb (size d) 1 then VNum c (hd (0, 0) data) else v
  | VNum _ _ => v
  end.

(* one recorded call of a numpy primitive made inside mathfuncs.py: name, arguments, result *)
Record ocall := mkCall { oc_name : string; oc_args : list GQ; oc_res : GQ }.

Definition rel_eps : Q := 1 # 1000000000000.        (* 1e-12 *)
Definition qclose_rel (a b : Q) : bool :=
  Qle_bool (Qabs (a - b)) (rel_eps * (Qabs a + Qabs b)) || Qle_bool (Qabs (a - b)) (1 # 10 ^ 300).
Definition gclose (z w : GQ) : bool :=
  let s := Qabs (fst z) + Qabs (snd z) + Qabs (fst w) + Qabs (snd w) in
  (Qle_bool (Qabs (fst z - fst w)) (rel_eps * s) && Qle_bool (Qabs (snd z - snd w)) (rel_eps * s))
  || (Qle_bool (Qabs (fst z - fst w)) (1 # 10 ^ 300) && Qle_bool (Qabs (snd z - snd w)) (1 # 10 ^ 300)).
Fixpoint gclose_list (a b : list GQ) : bool :=
  match a, b with
  | [], [] => true
  | x :: a', y :: b' => gclose x y && gclose_list a' b'
  | _, _ => false
  end.

Definition poison : GQ := (10 ^ 99, 10 ^ 99).       (* answer for a primitive call the implementation never made *)

Fixpoint find_call (tr : list ocall) (name : string) (args : list GQ) : GQ :=
  match tr with
  | [] => poison
  | c :: r => if String.eqb (oc_name c) name && gclose_list (oc_args c) args then oc_res c else find_call r name args
  end.

(* the numpy primitives over Gaussian rationals: arithmetic exact, transcendental calls answered from the record *)
Definition ExactPrims (pi_val : Q) (tr : list ocall) : prims GQ :=
  let call1 name := fun z => find_call tr name [z] in
  mkPrims GQ gofQ gadd gsub gmul gdiv gopp (gofQ pi_val)
          (call1 "cos") (call1 "sin") (call1 "tan") (call1 "arccos") (call1 "arcsin") (call1 "arctan")
          (call1 "cosh") (call1 "sinh") (call1 "tanh") (call1 "arccosh") (call1 "arcsinh") (call1 "arctanh")
          (fun a b => find_call tr "arctan2" [a; b])
          (fun z => gofQ (fst z)) (fun z => gofQ (snd z)) gconj (fun z => z) (fun z => z)
          (fun z w => Qltb (fst z) (fst w)) geqb (fun _ _ => false).

Definition derived1 (P : prims GQ) (name : string) : option (GQ -> GQ) :=
  if name =? "sec" then Some (sec P) else if name =? "csc" then Some (csc P) else if name =? "cot" then Some (cot P)
  else if name =? "arcsec" then Some (arcsec P) else if name =? "arccsc" then Some (arccsc P)
  else if name =? "arccot" then Some (arccot P)
  else if name =? "sech" then Some (sech P) else if name =? "csch" then Some (csch P) else if name =? "coth" then Some (coth P)
  else if name =? "arcsech" then Some (arcsech P) else if name =? "arccsch" then Some (arccsch P)
  else if name =? "arccoth" then Some (arccoth P)
  else None.

(* rows of a row-major matrix *)
Fixpoint rows_of (r c : nat) (data : list GQ) : list (list GQ) :=
  match r with O => [] | S r' => firstn c data :: rows_of r' c (skipn c data) end.

Definition norm2 (data : list GQ) : Q := fold_right Qplus 0 (map gabs2 data).

(* what the model says about the value of an exact function; None = the model has no exact value for this call.
   Results whose textbook value is a square root (abs, norm) are returned squared, flagged by `squared`. *)
Inductive mres := MVal (v : val) | MSquared (q : Q) | MRaise (e : pyexc).

Definition all_real_typed (args : list val) : option (list Q) :=
  fold_right (fun a acc => match a, acc with VNum false z, Some l => Some (fst z :: l) | _, _ => None end) (Some []) args.

Inductive xfun := XFloor | XCeil | XAbs | XMin | XMax | XReal | XImag | XConj | XKron | XAtan2 | XCross | XTrans | XCTrans
                | XTrace | XDet | XNorm | XArrayAbs | XOther.

Definition xfun_of (t : target) : xfun :=
  match t with
  | TNp n => if (n =? "floor")%string then XFloor else if (n =? "ceil")%string then XCeil
             else if (n =? "abs")%string then XAbs else if (n =? "conj")%string then XConj
             else if (n =? "transpose")%string then XTrans else if (n =? "trace")%string then XTrace else XOther
  | TBuiltin n => if (n =? "min")%string then XMin else if (n =? "max")%string then XMax else XOther
  | TLocal n => if (n =? "real")%string then XReal else if (n =? "imag")%string then XImag
                else if (n =? "kronecker")%string then XKron else if (n =? "arctan2")%string then XAtan2
                else if (n =? "cross")%string then XCross else if (n =? "array_abs")%string then XArrayAbs else XOther
  | TLinalg n => if (n =? "det")%string then XDet else if (n =? "norm")%string then XNorm else XOther
  | TLambda n => if (n =? "ctrans")%string || (n =? "adj")%string then XCTrans else XOther
  | TScimath _ => XOther
  end.

Definition all_numbers (args : list val) : bool := forallb (fun a => match a with VNum _ _ => true | _ => false end) args.

Definition extremum (pick : list Q -> option Q) (args : list val) : option mres :=
  match all_real_typed args with
  | Some l => match pick l with Some m => Some (MVal (VNum false (gofQ m))) | None => None end
  | None => if all_numbers args && negb (Nat.eqb (List.length args) 0) then Some (MRaise XTypeError) else None
  end.

Definition exact_target (t : target) (args : list val) : option mres :=
  match xfun_of t, args with
  | XFloor, [VNum false z] => Some (MVal (VNum false (gofQ (floorQ (fst z)))))
  | XCeil, [VNum false z] => Some (MVal (VNum false (gofQ (ceilQ (fst z)))))
  | XFloor, [VNum true _] | XCeil, [VNum true _] => Some (MRaise XTypeError)
  | XAbs, [VNum _ z] => Some (MSquared (gabs2 z))
  | XMin, _ => extremum py_min args
  | XMax, _ => extremum py_max args
  | XReal, [VNum _ z] => Some (MVal (VNum false (gofQ (fst z))))
  | XImag, [VNum _ z] => Some (MVal (VNum false (gofQ (snd z))))
  | XConj, [VNum c z] => Some (MVal (VNum c (gconj z)))
  | XReal, [VArr _ d data] => Some (MVal (VArr false d (map (fun z => gofQ (fst z)) data)))
  | XImag, [VArr _ d data] => Some (MVal (VArr false d (map (fun z => gofQ (snd z)) data)))
  | XConj, [VArr c d data] => Some (MVal (VArr c d (map gconj data)))
  | XKron, [VNum _ x; VNum _ y] => Some (MVal (VNum false (kronecker (ExactPrims 0 []) x y)))
  | XAtan2, [VNum false x; VNum false y] =>
      match arctan2 (ExactPrims 0 []) x y with Raise e => Some (MRaise e) | Val _ => None end
  | XCross, [VArr c [3%nat] a; VArr c' [3%nat] b] => Some (MVal (VArr (c || c') [3%nat] (cross3 GQops a b)))
  | XTrans, [VNum c z] => Some (MVal (VNum c z))
  | XTrans, [VArr c [n] data] => Some (MVal (VArr c [n] data))
  | XTrans, [VArr t [r; c] data] => Some (MVal (VArr t [c; r] (List.concat (transpose GQops c (rows_of r c data)))))
  | XCTrans, [VNum c z] => Some (MVal (VNum c (gconj z)))
  | XCTrans, [VArr t [n] data] => Some (MVal (VArr t [n] (map gconj data)))
  | XCTrans, [VArr t [r; c] data] =>
      Some (MVal (VArr t [c; r] (map gconj (List.concat (transpose GQops c (rows_of r c data))))))
  | XTrace, [VArr _ [r; c] data] => Some (MVal (VNum true (trace GQops r (rows_of r c data))))
  | XDet, [VArr _ [r; c] data] => Some (MVal (VNum true (det GQops r (rows_of r c data))))
  | XNorm, [VNum _ z] => Some (MSquared (gabs2 z))
  | XNorm, [VArr _ _ data] => Some (MSquared (norm2 data))
  | XArrayAbs, [VNum _ z] => Some (MSquared (gabs2 z))
  | XArrayAbs, [VArr _ d data] =>
      if Nat.ltb 1 (List.length d) then Some (MRaise XFunctionEvalError) else Some (MSquared (norm2 data))
  | _, _ => None
  end.
