(* Model/MathFuncsR.v -- the numpy primitives read as the textbook functions: over the reals (Rprims) and over the
   complex plane represented by pairs of reals (Cprims, forward functions only).  No proofs here. *)
From Coq Require Import Reals QArith Qreals List.
From Verif.Lib Require Import MathFuncsBase.
Import ListNotations.
Open Scope R_scope.

Definition Rltb (x y : R) : bool := if Rlt_dec x y then true else false.
Definition Reqb (x y : R) : bool := if Req_EM_T x y then true else false.

(* inverse hyperbolic cosine and tangent (arcsinh is in the standard library) *)
Definition arccoshR (x : R) : R := ln (x + sqrt (x * x - 1)).
Definition arctanhR (x : R) : R := ln ((1 + x) / (1 - x)) / 2.

(* two-argument arctangent, ordinate first (numpy.arctan2(y, x)): the angle in (-pi, pi] of the point (x, y) *)
Definition atan2R (y x : R) : R :=
  if Rlt_dec 0 x then atan (y / x)
  else if Rlt_dec x 0 then (if Rle_dec 0 y then atan (y / x) + PI else atan (y / x) - PI)
  else if Rlt_dec 0 y then PI / 2
  else if Rlt_dec y 0 then - (PI / 2)
  else 0.

Definition Rprims : prims R :=
  mkPrims R Q2R Rplus Rminus Rmult Rdiv Ropp PI
          cos sin tan acos asin atan cosh sinh tanh arccoshR arcsinh arctanhR atan2R
          (fun x => x) (fun _ => 0) (fun x => x) (fun x => x) Rabs
          Rltb Reqb (fun _ _ => false).

(* ---------------- complex plane as R * R; forward functions by their textbook real/imaginary parts ------------ *)
Definition C2 := (R * R)%type.
Definition cadd (z w : C2) : C2 := (fst z + fst w, snd z + snd w).
Definition csub (z w : C2) : C2 := (fst z - fst w, snd z - snd w).
Definition cmul (z w : C2) : C2 := (fst z * fst w - snd z * snd w, fst z * snd w + snd z * fst w).
Definition cdiv (z w : C2) : C2 :=
  ((fst z * fst w + snd z * snd w) / (fst w * fst w + snd w * snd w),
   (snd z * fst w - fst z * snd w) / (fst w * fst w + snd w * snd w)).
Definition cneg (z : C2) : C2 := (- fst z, - snd z).
Definition cconj (z : C2) : C2 := (fst z, - snd z).
Definition cexp (z : C2) : C2 := (exp (fst z) * cos (snd z), exp (fst z) * sin (snd z)).
Definition csin (z : C2) : C2 := (sin (fst z) * cosh (snd z), cos (fst z) * sinh (snd z)).
Definition ccos (z : C2) : C2 := (cos (fst z) * cosh (snd z), - (sin (fst z) * sinh (snd z))).
Definition csinh (z : C2) : C2 := (sinh (fst z) * cos (snd z), cosh (fst z) * sin (snd z)).
Definition ccosh (z : C2) : C2 := (cosh (fst z) * cos (snd z), sinh (fst z) * sin (snd z)).
Definition ctan (z : C2) : C2 := cdiv (csin z) (ccos z).
Definition ctanh (z : C2) : C2 := cdiv (csinh z) (ccosh z).
Definition cabs2 (z : C2) : R := fst z * fst z + snd z * snd z.
Definition cofR (x : R) : C2 := (x, 0).

(* the inverse primitives are oracles of the complex model: they are never evaluated, only checked through the
   forward functions (f (f_inverse z) = z); here they are the identity so that the record is total *)
Definition Cprims : prims C2 :=
  mkPrims C2 (fun q => cofR (Q2R q)) cadd csub cmul cdiv cneg (cofR PI)
          ccos csin ctan (fun z => z) (fun z => z) (fun z => z) ccosh csinh ctanh (fun z => z) (fun z => z) (fun z => z)
          (fun z _ => z)
          (fun z => cofR (fst z)) (fun z => cofR (snd z)) cconj (fun z => z) (fun z => cofR (sqrt (cabs2 z)))
          (fun z w => Rltb (fst z) (fst w)) (fun z w => Reqb (fst z) (fst w) && Reqb (snd z) (snd w)) (fun _ _ => false).
