(* Credit.v -- hand-written model of attempt-based credit (mitxgraders/attemptcredit.py and
   baseclasses.AbstractGrader.apply_attempt_based_credit).  No proofs here. *)
From Coq Require Import ZArith QArith Qabs List Bool.
From Verif.Lib Require Import QRound PyNum.
From Verif.Model Require Import Result.
Import ListNotations.
Open Scope Q_scope.

(* --- schedules: same shape as the regenerated Gen/Credit.v (Bridge/Credit.v proves them equal) --- *)
Definition linear_credit (after steps minc attempt : Q) : Q :=
  if Qeq_bool attempt 1 then 1
  else
    let st := attempt - after in
    if Qle_bool st 0 then 1
    else if Qle_bool steps st then round4 minc
    else round4 (1 + (minc - 1) * st / steps).

Definition geometric_credit (factor attempt : Q) : Q :=
  if Qeq_bool attempt 1 then 1 else round4 (Qpowq factor (attempt - 1)).

Definition reciprocal_credit (attempt : Q) : Q :=
  if Qeq_bool attempt 1 then 1 else round4 (1 / attempt).

(* --- apply_attempt_based_credit --- *)
Definition scale_entry (c : Q) (e : entry) : entry :=
  if Qltb 0 (e_grade e)
  then mkEntry (grade_to_ok (e_grade e * c)) (e_grade e * c) (e_msg e)
  else e.

Record credited := mkCredited {
  c_entries : list entry;      (* the entries after scaling, in order *)
  c_note    : bool;            (* "Maximum credit for attempt #n is p%." appended *)
  c_attempt : Z;               (* the n shown in the note (after clamping) *)
  c_credit  : Q;               (* the credit used *)
  c_pct10   : Z                (* 10 * the percentage shown in the note *)
}.

(* sched: the configured schedule (built-in or author-defined); None = attempt number missing -> ConfigError *)
Definition apply_credit (sched : Q -> Q) (msg_flag : bool) (attempt : option Z) (es : list entry)
  : option credited :=
  match attempt with
  | None => None
  | Some n =>
    let n' := if (n <? 1)%Z then 1%Z else n in
    let c := round4 (sched (inject_Z n')) in
    if Qeq_bool c 1 then Some (mkCredited es false n' c 1000)
    else
      let changed := existsb (fun e => Qltb 0 (e_grade e)) es in
      Some (mkCredited (map (scale_entry c) es) (msg_flag && changed) n' c (rhe (c * 1000)))
  end.
