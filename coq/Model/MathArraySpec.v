(* Model/MathArraySpec.v -- the statement side of C14: what "ordinary linear algebra" prescribes, written
   independently of the dispatch code modelled in Model/MathArray.v.  No proofs in this file. *)
From Coq Require Import ZArith QArith List Bool Arith.
From Verif.Model Require Import MathArray.
Import ListNotations.
Open Scope Q_scope.

(* The property's quantifier: plain numbers, and arrays with more than one element whose data fill the shape
   (vectors, matrices, tensors of any number of axes; every axis then has length >= 1). *)
Definition proper (v : val) : Prop :=
  match v with
  | Num _ _ => True
  | Arr _ sh d => length d = sprod sh /\ (1 < sprod sh)%nat
  end.
Definition is_arr (v : val) : Prop := match v with Arr _ _ _ => True | _ => False end.

(* a product with a single entry is a number *)
Definition cshape (sh : shape) : shape := if Nat.eqb (sprod sh) 1 then [] else sh.

(* strict matrix-product shape rule for operands of 1 or 2 axes; tensors have no product here *)
Definition product_shape (a b : shape) : option shape :=
  match a, b with
  | [n], [p] => if Nat.eqb n p then Some [] else None
  | [m; n], [p] => if Nat.eqb n p then Some (cshape [m]) else None
  | [n], [p; q] => if Nat.eqb n p then Some (cshape [q]) else None
  | [m; n], [p; q] => if Nat.eqb n p then Some (cshape [m; q]) else None
  | _, _ => None
  end.

(* The shape linear algebra gives to  a op b  (None: the operation is not defined and must be an error).
   Numbers have shape [].  Division by a scalar and scalar ** scalar are "defined" here whatever the value of
   the divisor / the exponent: a zero divisor and scalar powers are not MathArray's business. *)
Definition la_shape (negpow : bool) (op : binop) (a b : val) : option shape :=
  match op, a, b with
  | (Add | Sub), Num _ _, Num _ _ => Some []
  | (Add | Sub), Num _ z, Arr _ sh _ => if cis_zero z then Some sh else None
  | (Add | Sub), Arr _ sh _, Num _ z => if cis_zero z then Some sh else None
  | (Add | Sub), Arr _ s1 _, Arr _ s2 _ => if shape_eqb s1 s2 then Some s1 else None
  | Mul, Num _ _, _ => Some (vshape b)
  | Mul, Arr _ sh _, Num _ _ => Some sh
  | Mul, Arr _ s1 _, Arr _ s2 _ => product_shape s1 s2
  | Div, _, Num _ _ => Some (vshape a)
  | Div, _, Arr _ _ _ => None
  | Pow, Num _ _, Num _ _ => Some []
  | Pow, Num _ _, Arr _ _ _ => None
  | Pow, Arr _ _ _, Arr _ _ _ => None
  | Pow, Arr _ [m; n] _, Num ke e =>
      if Nat.eqb m n && integer_like ke e && ((0 <=? exponent_Z e)%Z || negpow) then Some [m; n] else None
  | Pow, Arr _ _ _, Num _ _ => None
  end.

Inductive opt_rel {A B} (R : A -> B -> Prop) : option A -> option B -> Prop :=
| OR_none : opt_rel R None None
| OR_some : forall a b, R a b -> opt_rel R (Some a) (Some b).

Inductive opt_pred {A} (P : A -> Prop) : option A -> Prop :=
| OP_none : opt_pred P None
| OP_some : forall a, P a -> opt_pred P (Some a).

Section Spec.
  Variable negpow : bool.
  Variable rk : rank_oracle.
  Variable inv : inv_oracle.
  Variable spow : spow_oracle.

  (* la_value op a b r : r is the value ordinary linear algebra gives to  a op b.
     The dtype kind of the result is left free: the property speaks of shapes and values. *)
  Inductive la_value : binop -> val -> val -> val -> Prop :=
  | LA_scalars : forall op ka a kb b r,
      num_binop spow op ka a kb b = Ret r -> la_value op (Num ka a) (Num kb b) r
  (* elementwise sum / difference of equal shapes; the zero scalar is the additive identity *)
  | LA_add : forall ka kb k sh da db,
      la_value Add (Arr ka sh da) (Arr kb sh db) (Arr k sh (map2 cadd da db))
  | LA_add_zero_r : forall ka kb k sh da z, cis_zero z = true ->
      la_value Add (Arr ka sh da) (Num kb z) (Arr k sh da)
  | LA_add_zero_l : forall ka kb k sh da z, cis_zero z = true ->
      la_value Add (Num kb z) (Arr ka sh da) (Arr k sh da)
  | LA_sub : forall ka kb k sh da db,
      la_value Sub (Arr ka sh da) (Arr kb sh db) (Arr k sh (map2 csub da db))
  | LA_sub_zero_r : forall ka kb k sh da z, cis_zero z = true ->
      la_value Sub (Arr ka sh da) (Num kb z) (Arr k sh da)
  | LA_sub_zero_l : forall ka kb k sh da z, cis_zero z = true ->
      la_value Sub (Num kb z) (Arr ka sh da) (Arr k sh (map cneg da))
  (* scalar scaling *)
  | LA_scale_r : forall ka kb k sh da s,
      la_value Mul (Arr ka sh da) (Num kb s) (Arr k sh (map (fun x => cmul x s) da))
  | LA_scale_l : forall ka kb k sh da s,
      la_value Mul (Num kb s) (Arr ka sh da) (Arr k sh (map (fun x => cmul s x) da))
  (* dot, matrix-vector, vector-matrix, matrix-matrix *)
  | LA_dot : forall ka kb k n da db,
      la_value Mul (Arr ka [n] da) (Arr kb [n] db) (Num k (dotk n da db))
  | LA_matvec : forall ka kb k m n da db,
      la_value Mul (Arr ka [m; n] da) (Arr kb [n] db) (collapse k [m] (matvec m n da db))
  | LA_vecmat : forall ka kb k n q da db,
      la_value Mul (Arr ka [n] da) (Arr kb [n; q] db) (collapse k [q] (vecmat n q da db))
  | LA_matmat : forall ka kb k m n q da db,
      la_value Mul (Arr ka [m; n] da) (Arr kb [n; q] db) (collapse k [m; q] (matmat m n q da db))
  (* division by a (nonzero) scalar *)
  | LA_div : forall ka kb k sh da s, cis_zero s = false ->
      la_value Div (Arr ka sh da) (Num kb s) (Arr k sh (map (fun x => cdiv x s) da))
  (* integer powers of square matrices; negative powers are powers of the inverse, only while enabled *)
  | LA_pow_nonneg : forall ka ke k n da e, integer_like ke e = true -> (0 <= exponent_Z e)%Z ->
      la_value Pow (Arr ka [n; n] da) (Num ke e) (Arr k [n; n] (mpow n da (Z.to_nat (exponent_Z e))))
  | LA_pow_neg : forall ka ke k n da e b, negpow = true -> integer_like ke e = true -> (exponent_Z e < 0)%Z ->
      rk ka n da = false -> inv ka n da = Some b ->
      la_value Pow (Arr ka [n; n] da) (Num ke e) (Arr k [n; n] (mpow n b (Z.to_nat (- exponent_Z e)))).

  (* chains as eval_sum / eval_product fold them, left to right *)
  Inductive la_chain (opt opf : binop) : val -> list (bool * val) -> val -> Prop :=
  | LC_nil : forall v, la_chain opt opf v [] v
  | LC_cons : forall acc (o : bool) v mid rest r,
      la_value (if o then opt else opf) acc v mid -> la_chain opt opf mid rest r ->
      la_chain opt opf acc ((o, v) :: rest) r.

  (* the power chain as eval_power folds it, right to left; None is a "-" between two operands *)
  Inductive la_power_loop : list (option val) -> val -> val -> Prop :=
  | LP_nil : forall r, la_power_loop [] r r
  | LP_minus : forall rest res r, la_power_loop rest (neg_val res) r -> la_power_loop (None :: rest) res r
  | LP_pow : forall w rest res mid r,
      la_value Pow w res mid -> la_power_loop rest mid r -> la_power_loop (Some w :: rest) res r.
  Definition la_power (items : list (option val)) (r : val) : Prop :=
    match rev items with
    | Some last :: rest => la_power_loop rest last r
    | _ => False
    end.

  (* big-step reading of a formula tree in which every operator application is a linear-algebra step *)
  Inductive la_eval : expr -> val -> Prop :=
  | LE_val : forall v, la_eval (EVal v) v
  | LE_paren : forall e v, la_eval e v -> la_eval (EParen e) v
  | LE_neg : forall k e v r,
      la_eval e v -> la_value Mul v (Num KInt (if Nat.even k then c1 else cneg c1)) r -> la_eval (ENeg k e) r
  | LE_arr : forall items vs r,
      Forall2 la_eval items vs -> eval_array vs = Ret r -> la_eval (EArr items) r
  | LE_pow : forall items vs r,
      Forall2 (opt_rel la_eval) items vs ->
      la_power vs r -> la_eval (EPow items) r
  | LE_prod : forall first rest f vs r,
      la_eval first f -> Forall2 (fun p q => fst p = fst q /\ la_eval (snd p) (snd q)) rest vs ->
      la_chain Mul Div f vs r -> la_eval (EProd first rest) r
  | LE_sum : forall first rest f vs r,
      la_eval first f -> Forall2 (fun p q => fst p = fst q /\ la_eval (snd p) (snd q)) rest vs ->
      la_chain Add Sub f vs r -> la_eval (ESum first rest) r.
End Spec.

(* formula trees inside the property's quantifier: variables and numbers are proper values, array literals have
   at least two items (so that every array that reaches an operator has more than one element) *)
Inductive wf_expr : expr -> Prop :=
| WF_val : forall v, proper v -> wf_expr (EVal v)
| WF_paren : forall e, wf_expr e -> wf_expr (EParen e)
| WF_neg : forall k e, wf_expr e -> wf_expr (ENeg k e)
| WF_arr : forall items, (2 <= length items)%nat -> Forall wf_expr items -> wf_expr (EArr items)
| WF_pow : forall items, Forall (opt_pred wf_expr) items -> wf_expr (EPow items)
| WF_prod : forall first rest, wf_expr first -> Forall (fun p => wf_expr (snd p)) rest -> wf_expr (EProd first rest)
| WF_sum : forall first rest, wf_expr first -> Forall (fun p => wf_expr (snd p)) rest -> wf_expr (ESum first rest).

(* Python's number ** number yields a number *)
Definition spow_numeric (spow : spow_oracle) : Prop :=
  forall ka a kb b r, spow ka a kb b = Ret r -> exists k c, r = Num k c.

(* entrywise equality of data up to == on Q, and the inverse-oracle hypothesis *)
Definition data_eq (a b : list C) : Prop := Forall2 (fun x y => cre x == cre y /\ cim x == cim y) a b.
(* inv_sound: whatever the oracle returns is a two-sided inverse *)
Definition inv_sound (inv : inv_oracle) : Prop :=
  forall k n d b, inv k n d = Some b ->
    length b = (n * n)%nat /\ data_eq (matmat n n n d b) (identity n) /\ data_eq (matmat n n n b d) (identity n).
(* the contracts of the two numpy oracles behind negative powers:
   rank_complete: the rank test flags every matrix that has a nonzero kernel vector;
   inv_sound_regular: on matrices the rank test lets through, whatever np.linalg.inv returns is a two-sided inverse *)
Definition inv_sound_regular (rk : rank_oracle) (inv : inv_oracle) : Prop :=
  forall k n d b, rk k n d = false -> inv k n d = Some b ->
    length b = (n * n)%nat /\ data_eq (matmat n n n d b) (identity n) /\ data_eq (matmat n n n b d) (identity n).
(* a square matrix with a nonzero vector in its kernel *)
Definition has_kernel_vector (n : nat) (d : list C) : Prop :=
  exists x, length x = n /\ Exists (fun c => cis_zero c = false) x /\ data_eq (matvec n n d x) (repeat c0 n).

Definition rank_complete (rk : rank_oracle) : Prop :=
  forall k n d, has_kernel_vector n d -> rk k n d = true.

(* operands of the triple-vector theorem: numbers and vectors of any length *)
Definition scalar_or_vector (v : val) : Prop :=
  match v with Num _ _ => True | Arr _ [n] d => length d = n | _ => False end.
Definition count_mul_vectors (first : val) (rest : list (bool * val)) : nat :=
  (if is_vector first then 1 else 0) +
  length (filter (fun p : bool * val => fst p && is_vector (snd p)) rest).
