(* Model/PipelineTables.v -- oracles given as finite tables keyed by call path (used by the correspondence cases and
   by the worked examples of Props/C01.v).  Definitions only. *)
From Coq Require Import ZArith QArith List Bool Arith.
From Verif.Model Require Import Result Credit Pipeline.
Import ListNotations.

Fixpoint path_eqb (a b : path) : bool :=
  match a, b with
  | [], [] => true
  | x :: a', y :: b' => Nat.eqb x y && path_eqb a' b'
  | _, _ => false
  end.

Fixpoint lookup {A} (d : A) (t : list (path * A)) (p : path) : A :=
  match t with
  | [] => d
  | (q, a) :: r => if path_eqb p q then a else lookup d r p
  end.

Definition table_oracles_v (recompute : bool) (leafs : list (path * lout)) (perms : list (path * list (nat * nat)))
           (bests : list (path * nat)) : oracles :=
  mkO (lookup LMissing leafs) (lookup [] perms) (lookup 0%nat bests) recompute.
(* the code as found *)
Definition table_oracles := table_oracles_v false.

