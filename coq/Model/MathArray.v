(* Model/MathArray.v -- executable model of mitxgraders/helpers/calc/math_array.py (MathArray operator
   dispatch) and of the array-related evaluation actions of helpers/calc/expressions.py
   (eval_array, eval_negation, eval_power, eval_product, eval_sum).  C14.  No proofs in this file.

   Entries are Gaussian rationals.  numpy's kernels are given by specification functions in index form
   (elementwise map, sums of products); np.linalg.inv and Python's scalar ** are ORACLES passed as
   function arguments (recorded from the implementation by the harness, constrained by explicit
   hypotheses in the theorems).  np.linalg.matrix_rank (the singularity test of __pow__) is an oracle too. *)
From Coq Require Import ZArith QArith List Bool Arith.
Import ListNotations.
Open Scope Q_scope.

(* ---------------------------------------------------------------- entries: Gaussian rationals *)
Definition C := (Q * Q)%type.
Definition c0 : C := (0, 0).
Definition c1 : C := (1, 0).
Definition cre (x : C) : Q := fst x.
Definition cim (x : C) : Q := snd x.
(* results are kept in lowest terms (Qred is the identity up to ==): repeated products of float-valued inverses
   would otherwise square their denominators at every step when the model is evaluated *)
Definition cadd (x y : C) : C := (Qred (cre x + cre y), Qred (cim x + cim y)).
Definition cneg (x : C) : C := (- cre x, - cim x).
Definition csub (x y : C) : C := cadd x (cneg y).
Definition cmul (x y : C) : C := (Qred (cre x * cre y - cim x * cim y), Qred (cre x * cim y + cim x * cre y)).
Definition cnorm2 (x : C) : Q := cre x * cre x + cim x * cim x.
Definition cinv (x : C) : C := (Qred (cre x / cnorm2 x), Qred (- cim x / cnorm2 x)).
Definition cdiv (x y : C) : C := cmul x (cinv y).
Definition cis_zero (x : C) : bool := Qeq_bool (cre x) 0 && Qeq_bool (cim x) 0.
Definition ceqb (x y : C) : bool := Qeq_bool (cre x) (cre y) && Qeq_bool (cim x) (cim y).
Definition csum (l : list C) : C := fold_right cadd c0 l.

(* ---------------------------------------------------------------- values *)
(* Python number type / numpy dtype kind: int (int64), float (float64), complex (complex128) *)
Inductive kind := KInt | KFloat | KComplex.
Definition kmax (a b : kind) : kind :=
  match a, b with
  | KComplex, _ | _, KComplex => KComplex
  | KFloat, _ | _, KFloat => KFloat
  | KInt, KInt => KInt
  end.
Definition kind_eqb (a b : kind) : bool :=
  match a, b with KInt, KInt | KFloat, KFloat | KComplex, KComplex => true | _, _ => false end.

Definition shape := list nat.
Fixpoint shape_eqb (a b : shape) : bool :=
  match a, b with
  | [], [] => true
  | x :: a', y :: b' => Nat.eqb x y && shape_eqb a' b'
  | _, _ => false
  end.
Definition sprod (sh : shape) : nat := fold_right Nat.mul 1%nat sh.

(* Num: a Python number;  Arr: a MathArray with row-major data *)
Inductive val :=
| Num (k : kind) (c : C)
| Arr (k : kind) (sh : shape) (d : list C).

Definition vshape (v : val) : shape := match v with Num _ _ => [] | Arr _ sh _ => sh end.
Definition item (d : list C) : C := hd c0 d.

Inductive err :=
(* MathArrayShapeError *)
| EAddScalar        (* Cannot add/subtract scalars to a ... *)
| EAddShape         (* Cannot add/subtract a ... with a ... *)
| EDotShape         (* Cannot calculate the dot product of a ... with a ... *)
| EMulShape         (* Cannot multiply a ... with a ... *)
| EDivArray         (* Cannot divide a ... by a ... *)
| ERDivArray        (* Cannot divide by a ... *)
| EPowShape         (* Cannot raise a vector/tensor to powers. *)
| EPowNonSquare     (* Cannot raise a non-square matrix to powers. *)
| EPowArrayExp      (* Cannot raise a matrix to ... powers. *)
| ERPowArray        (* Cannot raise a scalar to power of a ... *)
(* MathArrayError *)
| ETensorMul        (* Multiplication of tensor arrays is not currently supported. *)
| ENonIntPow        (* Cannot raise a matrix to non-integer powers. *)
| ENegPowDisabled   (* Negative matrix powers have been disabled. *)
| ESingular         (* Cannot raise singular matrix to negative powers. *)
(* CalcError / UnableToParse (expressions.py) *)
| ETripleVec        (* Multiplying three or more vectors is ambiguous. ... *)
| ERagged           (* Unable to parse vector/matrix. ... *)
(* ZeroDivisionError raised by numpy's error handler / Python; MathExpression.eval turns it into
   CalcZeroDivisionError, a bare operator call lets it through *)
| EZeroDiv
(* the model was asked something outside its domain (empty chain, oracle not provided) *)
| EOutside.

Inductive outcome := Ret (v : val) | Raise (e : err).

(* student-facing at the level of a bare MathArray operator call *)
Definition student_facing (e : err) : bool :=
  match e with EZeroDiv | EOutside => false | _ => true end.
(* student-facing at the level of MathExpression.eval / evaluator(...) *)
Definition student_facing_eval (e : err) : bool :=
  match e with EOutside => false | _ => true end.

Definition bind (o : outcome) (f : val -> outcome) : outcome :=
  match o with Ret v => f v | Raise e => Raise e end.

(* ---------------------------------------------------------------- numpy kernels (specification functions) *)
Fixpoint map2 {A B D} (f : A -> B -> D) (l1 : list A) (l2 : list B) : list D :=
  match l1, l2 with
  | x :: r1, y :: r2 => f x y :: map2 f r1 r2
  | _, _ => []
  end.

Definition ent (d : list C) (i : nat) : C := nth i d c0.

(* sum_{l<n} f l *)
Definition sigma (n : nat) (f : nat -> C) : C := csum (map f (seq 0 n)).

(* (n,).(n,) *)
Definition dotk (n : nat) (a b : list C) : C := sigma n (fun l => cmul (ent a l) (ent b l)).
(* (m,n).(n,) -> (m,) *)
Definition matvec (m n : nat) (a v : list C) : list C :=
  map (fun i => sigma n (fun l => cmul (ent a (i * n + l)) (ent v l))) (seq 0 m).
(* (n,).(n,q) -> (q,) *)
Definition vecmat (n q : nat) (v b : list C) : list C :=
  map (fun j => sigma n (fun l => cmul (ent v l) (ent b (l * q + j)))) (seq 0 q).
(* (m,n).(n,q) -> (m,q) *)
Definition matmat (m n q : nat) (a b : list C) : list C :=
  flat_map (fun i => map (fun j => sigma n (fun l => cmul (ent a (i * n + l)) (ent b (l * q + j)))) (seq 0 q))
           (seq 0 m).
Definition identity (n : nat) : list C :=
  flat_map (fun i => map (fun j => if Nat.eqb i j then c1 else c0) (seq 0 n)) (seq 0 n).
(* repeated multiplication: M^0 = I, M^(k+1) = M . M^k *)
Fixpoint mpow (n : nat) (m : list C) (k : nat) : list C :=
  match k with O => identity n | S k' => matmat n n n m (mpow n m k') end.

(* ---------------------------------------------------------------- helper predicates of math_array.py *)
Definition is_number_zero (v : val) : bool := match v with Num _ c => cis_zero c | _ => false end.
Definition is_numberlike_array (v : val) : bool :=
  match v with Arr _ sh _ => Nat.eqb (sprod sh) 1 | _ => false end.
Definition is_numberlike_zero_array (v : val) : bool :=
  match v with Arr _ sh d => Nat.eqb (sprod sh) 1 && cis_zero (item d) | _ => false end.
Definition is_vector (v : val) : bool := match v with Arr _ [_] _ => true | _ => false end.

(* a (1,1)/(1,) result of np.dot is returned as a number *)
Definition collapse (k : kind) (sh : shape) (d : list C) : val :=
  if Nat.eqb (sprod sh) 1 then Num k (item d) else Arr k sh d.

(* ---------------------------------------------------------------- oracles *)
(* np.linalg.inv on an n x n matrix: None = LinAlgError("Singular matrix") *)
Definition inv_oracle := kind -> nat -> list C -> option (list C).
(* np.linalg.matrix_rank(self) < n on an n x n matrix (the singularity test MathArray.__pow__ runs before inverting) *)
Definition rank_oracle := kind -> nat -> list C -> bool.
(* Python's number ** number (robust_pow on scalars) *)
Definition spow_oracle := kind -> C -> kind -> C -> outcome.

(* exponent.is_integer() / isinstance(exponent, int) *)
Definition integer_like (k : kind) (c : C) : bool :=
  match k with
  | KInt => true
  | KFloat => Pos.eqb (Qden (Qred (cre c))) 1
  | KComplex => false
  end.
Definition exponent_Z (c : C) : Z := Qnum (Qred (cre c)).

(* left-to-right evaluation of a list of children, stopping at the first error *)
Definition mapM {A B} (f : A -> B + err) : list A -> list B + err :=
  fix go (l : list A) : list B + err :=
    match l with
    | [] => inl []
    | x :: r => match f x with
                | inr e => inr e
                | inl v => match go r with inl vs => inl (v :: vs) | inr e => inr e end
                end
    end.

Section Ops.
  Variable negpow : bool.          (* MathArray._negative_powers *)
  Variable rk : rank_oracle.
  Variable inv : inv_oracle.
  Variable spow : spow_oracle.

  (* MathArray.__add__ (self = Arr ks shs ds) *)
  Definition add_arr (ks : kind) (shs : shape) (ds : list C) (other : val) : outcome :=
    match other with
    | Num ko c =>
        if cis_zero c then Ret (Arr (kmax ks ko) shs ds)                       (* is_number_zero(other) *)
        else if Nat.eqb (sprod shs) 1 then Ret (Num (kmax ks ko) (cadd (item ds) c))
        else Raise EAddScalar
    | Arr ko sho d2 =>
        if Nat.eqb (sprod sho) 1 && cis_zero (item d2) then Ret (Arr (kmax ks ko) shs ds)
        else if shape_eqb shs sho then Ret (Arr (kmax ks ko) shs (map2 cadd ds d2))
        else if Nat.eqb (sprod shs) 1 && cis_zero (item ds) then Ret (Arr (kmax ks ko) sho d2)
        else Raise EAddShape
    end.

  (* -1*other  and  -self *)
  Definition neg_val (v : val) : val :=
    match v with
    | Num k c => Num k (cneg c)
    | Arr k sh d => Arr k sh (map cneg d)
    end.

  (* MathArray.__sub__:  self.__add__(-1*other) *)
  Definition sub_arr ks shs ds (other : val) : outcome := add_arr ks shs ds (neg_val other).
  (* MathArray.__rsub__:  (-self).__add__(other) *)
  Definition rsub_arr ks shs ds (other : val) : outcome := add_arr ks shs (map cneg ds) other.

  (* np.dot for operands of 1 or 2 axes, followed by the (1,1)->number collapse *)
  Definition dot_arr (k : kind) (shs : shape) (ds : list C) (sho : shape) (d2 : list C) : outcome :=
    match shs, sho with
    | [n], [p] => if Nat.eqb n p then Ret (Num k (dotk n ds d2)) else Raise EDotShape
    | [m; n], [p] => if Nat.eqb n p then Ret (collapse k [m] (matvec m n ds d2)) else Raise EMulShape
    | [n], [p; q] => if Nat.eqb n p then Ret (collapse k [q] (vecmat n q ds d2)) else Raise EMulShape
    | [m; n], [p; q] => if Nat.eqb n p then Ret (collapse k [m; q] (matmat m n q ds d2)) else Raise EMulShape
    | _, _ => Raise EMulShape
    end.

  (* MathArray.__mul__ *)
  Definition mul_arr ks shs ds (other : val) : outcome :=
    match other with
    | Num ko c => Ret (Arr (kmax ks ko) shs (map (fun x => cmul x c) ds))
    | Arr ko sho d2 =>
        if Nat.eqb (sprod shs) 1 then Ret (Arr (kmax ks ko) sho (map (fun x => cmul (item ds) x) d2))
        else if Nat.eqb (sprod sho) 1 then Ret (Arr (kmax ks ko) shs (map (fun x => cmul x (item d2)) ds))
        else if Nat.ltb 2 (length shs) || Nat.ltb 2 (length sho) then Raise ETensorMul
        else dot_arr (kmax ks ko) shs ds sho d2
    end.
  (* MathArray.__rmul__ (other is a Number) *)
  Definition rmul_arr ks shs ds (ko : kind) (c : C) : outcome :=
    Ret (Arr (kmax ks ko) shs (map (fun x => cmul c x) ds)).

  Definition div_data ks shs ds (ko : kind) (c : C) : outcome :=
    if cis_zero c then Raise EZeroDiv
    else Ret (Arr (kmax KFloat (kmax ks ko)) shs (map (fun x => cdiv x c) ds)).
  (* MathArray.__truediv__ *)
  Definition div_arr ks shs ds (other : val) : outcome :=
    match other with
    | Num ko c => div_data ks shs ds ko c
    | Arr ko sho d2 => if Nat.eqb (sprod sho) 1 then div_data ks shs ds ko (item d2) else Raise EDivArray
    end.
  (* MathArray.__rtruediv__ (other is a Number) *)
  Definition rdiv_arr ks (shs : shape) ds (ko : kind) (c : C) : outcome :=
    match shs with
    | [] => if cis_zero (item ds) then Raise EZeroDiv else Ret (Num (kmax KFloat (kmax ks ko)) (cdiv c (item ds)))
    | _ => Raise ERDivArray
    end.

  (* np.linalg.matrix_power after the integer-like check *)
  Definition matrix_power (ks : kind) (n : nat) (ds : list C) (z : Z) : outcome :=
    if (0 <=? z)%Z then Ret (Arr ks [n; n] (mpow n ds (Z.to_nat z)))
    else match inv ks n ds with
         | None => Raise ESingular
         | Some b => Ret (Arr (kmax KFloat ks) [n; n] (mpow n b (Z.to_nat (- z))))
         end.

  (* MathArray.__rpow__ (other is a Number) *)
  Definition rpow_arr ks (shs : shape) ds (ko : kind) (c : C) : outcome :=
    if Nat.eqb (sprod shs) 1 then spow ko c ks (item ds) else Raise ERPowArray.

  (* MathArray.__pow__ *)
  Definition pow_arr ks shs ds (other : val) : outcome :=
    if Nat.eqb (sprod shs) 1 then
      match other with
      | Num ko c => spow ks (item ds) ko c
      | Arr ko sho d2 => rpow_arr ko sho d2 ks (item ds)
      end
    else
      match shs with
      | [m; n] =>
          if Nat.eqb m n then
            let run ke e :=
              if integer_like ke e then
                if (exponent_Z e <? 0)%Z && negb negpow then Raise ENegPowDisabled
                else if (exponent_Z e <? 0)%Z && rk ks n ds then Raise ESingular     (* matrix_rank(self) < n *)
                else matrix_power ks n ds (exponent_Z e)
              else Raise ENonIntPow in
            match other with
            | Num ke e => run ke e
            | Arr ke sho d2 => if Nat.eqb (sprod sho) 1 then run ke (item d2) else Raise EPowArrayExp
            end
          else Raise EPowNonSquare
      | _ => Raise EPowShape
      end.

  (* Python number arithmetic (both operands plain numbers) *)
  Inductive binop := Add | Sub | Mul | Div | Pow.

  Definition num_binop (op : binop) (ka : kind) (a : C) (kb : kind) (b : C) : outcome :=
    match op with
    | Add => Ret (Num (kmax ka kb) (cadd a b))
    | Sub => Ret (Num (kmax ka kb) (csub a b))
    | Mul => Ret (Num (kmax ka kb) (cmul a b))
    | Div => if cis_zero b then Raise EZeroDiv else Ret (Num (kmax KFloat (kmax ka kb)) (cdiv a b))
    | Pow => spow ka a kb b
    end.

  (* Python's binary-operator protocol:  a op b  calls a.__op__(b) when a is a MathArray; when a is a
     number and b a MathArray, number.__op__ returns NotImplemented and b.__rop__(a) runs *)
  Definition py_binop (op : binop) (a b : val) : outcome :=
    match a, b with
    | Num ka ca, Num kb cb => num_binop op ka ca kb cb
    | Arr ks shs ds, _ =>
        match op with
        | Add => add_arr ks shs ds b
        | Sub => sub_arr ks shs ds b
        | Mul => mul_arr ks shs ds b
        | Div => div_arr ks shs ds b
        | Pow => pow_arr ks shs ds b
        end
    | Num ka ca, Arr ks shs ds =>
        match op with
        | Add => add_arr ks shs ds a                 (* __radd__ = __add__ *)
        | Sub => rsub_arr ks shs ds a
        | Mul => rmul_arr ks shs ds ka ca
        | Div => rdiv_arr ks shs ds ka ca
        | Pow => rpow_arr ks shs ds ka ca
        end
    end.

  (* __iadd__ ... __ipow__ delegate to the plain operators (new object, no mutation) *)
  Definition py_inplace (op : binop) (a b : val) : outcome := py_binop op a b.

  (* ------------------------------------------------------------ evaluation actions of expressions.py *)
  (* eval_negation:  num * (-1)**(number of minus signs) *)
  Definition eval_negation (minuses : nat) (v : val) : outcome :=
    py_binop Mul v (Num KInt (if Nat.even minuses then c1 else cneg c1)).

  (* eval_power: items right to left; None stands for a "-" between two operands *)
  Fixpoint power_loop (rev_rest : list (option val)) (result : val) : outcome :=
    match rev_rest with
    | [] => Ret result
    | None :: r => power_loop r (neg_val result)
    | Some working :: r => bind (py_binop Pow working result) (power_loop r)
    end.
  Definition eval_power (items : list (option val)) : outcome :=
    match rev items with
    | Some last :: r => power_loop r last
    | _ => Raise EOutside
    end.

  (* eval_product: left to right, with the double-vector-multiplication flag *)
  Fixpoint product_loop (result : val) (flag : bool) (rest : list (bool * val)) : outcome :=
    match rest with
    | [] => Ret result
    | (true, value) :: r =>                                   (* '*' *)
        if is_vector value && flag then Raise ETripleVec
        else bind (py_binop Mul result value)
                  (fun res' => product_loop res' (flag || (is_vector value && is_vector result)) r)
    | (false, value) :: r =>                                  (* '/' *)
        bind (py_binop Div result value) (fun res' => product_loop res' flag r)
    end.
  Definition eval_product (first : val) (rest : list (bool * val)) : outcome := product_loop first false rest.

  (* eval_sum: left to right; true = '+', false = '-' *)
  Fixpoint eval_sum (result : val) (rest : list (bool * val)) : outcome :=
    match rest with
    | [] => Ret result
    | (true, v) :: r => bind (py_binop Add result v) (fun res' => eval_sum res' r)
    | (false, v) :: r => bind (py_binop Sub result v) (fun res' => eval_sum res' r)
    end.

  (* eval_array: MathArray(list of evaluated children); ragged input is refused *)
  Definition all_nums (l : list val) : option (kind * list C) :=
    fold_right (fun v acc => match v, acc with
                             | Num k c, Some (ka, d) => Some (kmax k ka, c :: d)
                             | _, _ => None end) (Some (KInt, [])) l.
  Definition all_arrs (sh : shape) (l : list val) : option (kind * list C) :=
    fold_right (fun v acc => match v, acc with
                             | Arr k s d, Some (ka, dd) => if shape_eqb s sh then Some (kmax k ka, d ++ dd) else None
                             | _, _ => None end) (Some (KInt, [])) l.
  Definition eval_array (items : list val) : outcome :=
    match items with
    | [] => Raise EOutside
    | Num _ _ :: _ => match all_nums items with
                      | Some (k, d) => Ret (Arr k [length items] d)
                      | None => Raise ERagged end
    | Arr _ sh _ :: _ => match all_arrs sh items with
                         | Some (k, d) => Ret (Arr k (length items :: sh) d)
                         | None => Raise ERagged end
    end.

  (* ------------------------------------------------------------ expression trees (what eval_node walks) *)
  Inductive expr :=
  | EVal (v : val)                                  (* number literal or variable value *)
  | EArr (items : list expr)                        (* [ ... ] *)
  | ENeg (minuses : nat) (e : expr)                 (* -...-e *)
  | EPow (items : list (option expr))               (* a ^ - b ^ c ; None = "-" *)
  | EProd (first : expr) (rest : list (bool * expr))
  | ESum (first : expr) (rest : list (bool * expr))
  | EParen (e : expr).

  (* children are evaluated left to right; the first error wins (eval_node evaluates every child before the action) *)
  Definition lift (o : outcome) : val + err := match o with Ret v => inl v | Raise e => inr e end.
  Definition arg_item (ev : expr -> outcome) (x : expr) : val + err := lift (ev x).
  Definition pow_item (ev : expr -> outcome) (o : option expr) : option val + err :=
    match o with
    | None => inl None
    | Some x => match ev x with Ret v => inl (Some v) | Raise e => inr e end
    end.
  Definition op_item (ev : expr -> outcome) (p : bool * expr) : bool * val + err :=
    match ev (snd p) with Ret v => inl (fst p, v) | Raise e => inr e end.

  Fixpoint eval_expr (e : expr) : outcome :=
    match e with
    | EVal v => Ret v
    | EParen e' => eval_expr e'
    | ENeg k e' => bind (eval_expr e') (eval_negation k)
    | EArr items =>
        match mapM (arg_item eval_expr) items with inl vs => eval_array vs | inr e => Raise e end
    | EPow items =>
        match mapM (pow_item eval_expr) items with inl vs => eval_power vs | inr e => Raise e end
    | EProd first rest =>
        bind (eval_expr first) (fun f =>
          match mapM (op_item eval_expr) rest with inl vs => eval_product f vs | inr e => Raise e end)
    | ESum first rest =>
        bind (eval_expr first) (fun f =>
          match mapM (op_item eval_expr) rest with inl vs => eval_sum f vs | inr e => Raise e end)
    end.
End Ops.

(* ---------------------------------------------------------------- an exact, self-certifying inverse
   (cofactor expansion; the candidate is returned only after checking  M.B = I = B.M  entrywise), used to
   show that the oracle hypothesis of the theorems is satisfiable and by the harness as a reference *)
Definition minor (n : nat) (d : list C) (r c : nat) : list C :=
  flat_map (fun i => if Nat.eqb i r then [] else
              flat_map (fun j => if Nat.eqb j c then [] else [ent d (i * n + j)]) (seq 0 n)) (seq 0 n).
Fixpoint det (n : nat) (d : list C) : C :=
  match n with
  | O => c1
  | S n' => csum (map (fun j => let t := cmul (ent d j) (det n' (minor n d 0 j)) in
                               if Nat.even j then t else cneg t) (seq 0 n))
  end.
Definition adjugate (n : nat) (d : list C) : list C :=
  flat_map (fun i => map (fun j => let t := det (pred n) (minor n d j i) in
                                  if Nat.even (i + j) then t else cneg t) (seq 0 n)) (seq 0 n).
Fixpoint list_ceqb (a b : list C) : bool :=
  match a, b with
  | [], [] => true
  | x :: a', y :: b' => ceqb x y && list_ceqb a' b'
  | _, _ => false
  end.
Definition exact_inv : inv_oracle := fun _ n d =>
  let dt := det n d in
  if cis_zero dt then None
  else let b := map (fun x => cdiv x dt) (adjugate n d) in
       if list_ceqb (matmat n n n d b) (identity n) && list_ceqb (matmat n n n b d) (identity n)
       then Some b else None.
Definition exact_rank_deficient : rank_oracle := fun k n d =>
  match exact_inv k n d with None => true | Some _ => false end.

(* ---------------------------------------------------------------- the negative-powers switch as state
   MathArray.enable_negative_powers(value):  flag := value; body; flag := DEFAULT  (the default, not the previous value).
   Obs stands for any evaluation that reads the flag (a matrix power); the first component of run is what those reads saw. *)
Definition default_negpow : bool := true.
Inductive prog := Obs | Seq (p q : prog) | With (value : bool) (body : prog).
Fixpoint run (flag : bool) (p : prog) : list bool * bool :=
  match p with
  | Obs => ([flag], flag)
  | Seq p q => let (o1, f1) := run flag p in let (o2, f2) := run f1 q in (o1 ++ o2, f2)
  | With v body => (fst (run v body), default_negpow)
  end.
(* the alternative teardown: restore the previous value *)
Fixpoint run_prev (flag : bool) (p : prog) : list bool * bool :=
  match p with
  | Obs => ([flag], flag)
  | Seq p q => let (o1, f1) := run_prev flag p in let (o2, f2) := run_prev f1 q in (o1 ++ o2, f2)
  | With v body => (fst (run_prev v body), flag)
  end.
Fixpoint no_with (p : prog) : bool :=
  match p with Obs => true | Seq p q => no_with p && no_with q | With _ _ => false end.
Fixpoint nesting_free (p : prog) : bool :=
  match p with Obs => true | Seq p q => nesting_free p && nesting_free q | With _ body => no_with body end.
