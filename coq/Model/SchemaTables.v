(* SchemaTables.v -- the DOCUMENTED default configuration of every public configurable class, hand-maintained from
   the class docstrings and docs/*.md (the same data as harness/props/c20_tables.py, in the normal form the
   configuration exposes: ranges as {start, stop}, shapes as tuples, percentage strings normalised).
   Row = (class name, the required options supplied, the documented configuration for that input).
   `obj name cfg` stands for an instance of class `name` whose configuration is cfg (the class tags come from the
   regenerated class table).  Proofs/SchemaGen.v checks every row against the schemas regenerated from the source. *)
From Coq Require Import ZArith QArith List Bool String.
From Verif.Model Require Import Result Schema.
Import ListNotations.
Open Scope string_scope.
Open Scope list_scope.
Open Scope Z_scope.

Definition doc_row : Type := (str * list (pyval * pyval) * list (pyval * pyval))%type.

Definition doc_table (obj : str -> pyval -> pyval) : list doc_row :=
[
  ((zs "RealInterval"),
   (* supplied (required options only) *) [],
   (* documented configuration *)
   [(PStr (zs "start"), (PInt 1));
    (PStr (zs "stop"), (PInt 5))]);
  ((zs "IntegerRange"),
   (* supplied (required options only) *) [],
   (* documented configuration *)
   [(PStr (zs "start"), (PInt 1));
    (PStr (zs "stop"), (PInt 5))]);
  ((zs "ComplexRectangle"),
   (* supplied (required options only) *) [],
   (* documented configuration *)
   [(PStr (zs "re"), (PDict [((PStr (zs "start")), (PInt 1)); ((PStr (zs "stop")), (PInt 3))]));
    (PStr (zs "im"), (PDict [((PStr (zs "start")), (PInt 1)); ((PStr (zs "stop")), (PInt 3))]))]);
  ((zs "ComplexSector"),
   (* supplied (required options only) *) [],
   (* documented configuration *)
   [(PStr (zs "modulus"), (PDict [((PStr (zs "start")), (PInt 1)); ((PStr (zs "stop")), (PInt 3))]));
    (PStr (zs "argument"), (PDict [((PStr (zs "start")), (PInt 0)); ((PStr (zs "stop")), (PFloat (Qmake 884279719003555 562949953421312%positive)))]))]);
  ((zs "RandomFunction"),
   (* supplied (required options only) *) [],
   (* documented configuration *)
   [(PStr (zs "input_dim"), (PInt 1));
    (PStr (zs "output_dim"), (PInt 1));
    (PStr (zs "num_terms"), (PInt 3));
    (PStr (zs "center"), (PInt 0));
    (PStr (zs "amplitude"), (PInt 10));
    (PStr (zs "complex"), (PBool false))]);
  ((zs "DependentSampler"),
   (* supplied (required options only) *) [(PStr (zs "formula"), (PStr (zs "x+1")))],
   (* documented configuration *)
   [(PStr (zs "depends"), PNone);
    (PStr (zs "formula"), (PStr (zs "x+1")))]);
  ((zs "RealVectors"),
   (* supplied (required options only) *) [],
   (* documented configuration *)
   [(PStr (zs "shape"), (PTuple [(PInt 3)]));
    (PStr (zs "norm"), (PDict [((PStr (zs "start")), (PInt 1)); ((PStr (zs "stop")), (PInt 5))]));
    (PStr (zs "complex"), (PBool false))]);
  ((zs "ComplexVectors"),
   (* supplied (required options only) *) [],
   (* documented configuration *)
   [(PStr (zs "shape"), (PTuple [(PInt 3)]));
    (PStr (zs "norm"), (PDict [((PStr (zs "start")), (PInt 1)); ((PStr (zs "stop")), (PInt 5))]));
    (PStr (zs "complex"), (PBool true))]);
  ((zs "RealTensors"),
   (* supplied (required options only) *) [(PStr (zs "shape"), (PTuple [(PInt 2); (PInt 2); (PInt 2)]))],
   (* documented configuration *)
   [(PStr (zs "shape"), (PTuple [(PInt 2); (PInt 2); (PInt 2)]));
    (PStr (zs "norm"), (PDict [((PStr (zs "start")), (PInt 1)); ((PStr (zs "stop")), (PInt 5))]));
    (PStr (zs "complex"), (PBool false))]);
  ((zs "ComplexTensors"),
   (* supplied (required options only) *) [(PStr (zs "shape"), (PTuple [(PInt 2); (PInt 2); (PInt 2)]))],
   (* documented configuration *)
   [(PStr (zs "shape"), (PTuple [(PInt 2); (PInt 2); (PInt 2)]));
    (PStr (zs "norm"), (PDict [((PStr (zs "start")), (PInt 1)); ((PStr (zs "stop")), (PInt 5))]));
    (PStr (zs "complex"), (PBool true))]);
  ((zs "RealMatrices"),
   (* supplied (required options only) *) [],
   (* documented configuration *)
   [(PStr (zs "shape"), (PTuple [(PInt 2); (PInt 2)]));
    (PStr (zs "norm"), (PDict [((PStr (zs "start")), (PInt 1)); ((PStr (zs "stop")), (PInt 5))]));
    (PStr (zs "complex"), (PBool false));
    (PStr (zs "triangular"), PNone)]);
  ((zs "ComplexMatrices"),
   (* supplied (required options only) *) [],
   (* documented configuration *)
   [(PStr (zs "shape"), (PTuple [(PInt 2); (PInt 2)]));
    (PStr (zs "norm"), (PDict [((PStr (zs "start")), (PInt 1)); ((PStr (zs "stop")), (PInt 5))]));
    (PStr (zs "complex"), (PBool true));
    (PStr (zs "triangular"), PNone)]);
  ((zs "IdentityMatrixMultiples"),
   (* supplied (required options only) *) [],
   (* documented configuration *)
   [(PStr (zs "dimension"), (PInt 2));
    (PStr (zs "norm"), (PDict [((PStr (zs "start")), (PInt 1)); ((PStr (zs "stop")), (PInt 5))]));
    (PStr (zs "complex"), (PBool false));
    (PStr (zs "sampler"), (obj (zs "RealInterval") (PDict [((PStr (zs "start")), (PInt 1)); ((PStr (zs "stop")), (PInt 5))])))]);
  ((zs "SquareMatrices"),
   (* supplied (required options only) *) [],
   (* documented configuration *)
   [(PStr (zs "dimension"), (PInt 2));
    (PStr (zs "norm"), (PDict [((PStr (zs "start")), (PInt 1)); ((PStr (zs "stop")), (PInt 5))]));
    (PStr (zs "complex"), (PBool false));
    (PStr (zs "symmetry"), PNone);
    (PStr (zs "traceless"), (PBool false));
    (PStr (zs "determinant"), PNone)]);
  ((zs "OrthogonalMatrices"),
   (* supplied (required options only) *) [],
   (* documented configuration *)
   [(PStr (zs "dimension"), (PInt 2));
    (PStr (zs "norm"), (PDict [((PStr (zs "start")), (PInt 1)); ((PStr (zs "stop")), (PInt 5))]));
    (PStr (zs "complex"), (PBool false));
    (PStr (zs "unitdet"), (PBool false))]);
  ((zs "UnitaryMatrices"),
   (* supplied (required options only) *) [],
   (* documented configuration *)
   [(PStr (zs "dimension"), (PInt 2));
    (PStr (zs "norm"), (PDict [((PStr (zs "start")), (PInt 1)); ((PStr (zs "stop")), (PInt 5))]));
    (PStr (zs "complex"), (PBool false));
    (PStr (zs "unitdet"), (PBool false))]);
  ((zs "LinearCredit"),
   (* supplied (required options only) *) [],
   (* documented configuration *)
   [(PStr (zs "decrease_credit_after"), (PInt 1));
    (PStr (zs "decrease_credit_steps"), (PInt 4));
    (PStr (zs "minimum_credit"), (PFloat (Qmake 3602879701896397 18014398509481984%positive)))]);
  ((zs "GeometricCredit"),
   (* supplied (required options only) *) [],
   (* documented configuration *)
   [(PStr (zs "factor"), (PFloat (Qmake 3 4%positive)))]);
  ((zs "ReciprocalCredit"),
   (* supplied (required options only) *) [],
   (* documented configuration *)
   []);
  ((zs "LinearComparer"),
   (* supplied (required options only) *) [],
   (* documented configuration *)
   [(PStr (zs "equals"), (PFloat (Qmake 1 1%positive)));
    (PStr (zs "proportional"), (PFloat (Qmake 1 2%positive)));
    (PStr (zs "offset"), PNone);
    (PStr (zs "linear"), PNone);
    (PStr (zs "equals_msg"), (PStr (zs "")));
    (PStr (zs "proportional_msg"), (PStr (zs "The submitted answer differs from an expected answer by a constant factor.")));
    (PStr (zs "offset_msg"), (PStr (zs "")));
    (PStr (zs "linear_msg"), (PStr (zs "")))]);
  ((zs "StringGrader"),
   (* supplied (required options only) *) [],
   (* documented configuration *)
   [(PStr (zs "debug"), (PBool false));
    (PStr (zs "suppress_warnings"), (PBool false));
    (PStr (zs "attempt_based_credit"), PNone);
    (PStr (zs "attempt_based_credit_msg"), (PBool true));
    (PStr (zs "answers"), (PTuple []));
    (PStr (zs "wrong_msg"), (PStr (zs "")));
    (PStr (zs "case_sensitive"), (PBool true));
    (PStr (zs "strip"), (PBool true));
    (PStr (zs "strip_all"), (PBool false));
    (PStr (zs "clean_spaces"), (PBool true));
    (PStr (zs "accept_any"), (PBool false));
    (PStr (zs "accept_nonempty"), (PBool false));
    (PStr (zs "min_length"), (PInt 0));
    (PStr (zs "min_words"), (PInt 0));
    (PStr (zs "explain_minimums"), (PStr (zs "err")));
    (PStr (zs "validation_pattern"), PNone);
    (PStr (zs "explain_validation"), (PStr (zs "err")));
    (PStr (zs "invalid_msg"), (PStr (zs "Your input is not in the expected format")))]);
  ((zs "FormulaGrader"),
   (* supplied (required options only) *) [],
   (* documented configuration *)
   [(PStr (zs "debug"), (PBool false));
    (PStr (zs "suppress_warnings"), (PBool false));
    (PStr (zs "attempt_based_credit"), PNone);
    (PStr (zs "attempt_based_credit_msg"), (PBool true));
    (PStr (zs "user_functions"), (PDict []));
    (PStr (zs "user_constants"), (PDict []));
    (PStr (zs "blacklist"), (PList []));
    (PStr (zs "whitelist"), (PList []));
    (PStr (zs "tolerance"), (PStr (zs "0.01%")));
    (PStr (zs "samples"), (PInt 5));
    (PStr (zs "variables"), (PList []));
    (PStr (zs "numbered_vars"), (PList []));
    (PStr (zs "sample_from"), (PDict []));
    (PStr (zs "failable_evals"), (PInt 0));
    (PStr (zs "forbidden_strings"), (PList []));
    (PStr (zs "forbidden_message"), (PStr (zs "Invalid Input: This particular answer is forbidden")));
    (PStr (zs "metric_suffixes"), (PBool false));
    (PStr (zs "required_functions"), (PList []));
    (PStr (zs "instructor_vars"), (PList []));
    (PStr (zs "answers"), (PTuple []));
    (PStr (zs "wrong_msg"), (PStr (zs "")));
    (PStr (zs "allow_inf"), (PBool false));
    (PStr (zs "max_array_dim"), (PInt 0))]);
  ((zs "NumericalGrader"),
   (* supplied (required options only) *) [],
   (* documented configuration *)
   [(PStr (zs "debug"), (PBool false));
    (PStr (zs "suppress_warnings"), (PBool false));
    (PStr (zs "attempt_based_credit"), PNone);
    (PStr (zs "attempt_based_credit_msg"), (PBool true));
    (PStr (zs "user_functions"), (PDict []));
    (PStr (zs "user_constants"), (PDict []));
    (PStr (zs "blacklist"), (PList []));
    (PStr (zs "whitelist"), (PList []));
    (PStr (zs "tolerance"), (PStr (zs "5.0%")));
    (PStr (zs "samples"), (PInt 1));
    (PStr (zs "variables"), (PList []));
    (PStr (zs "numbered_vars"), (PList []));
    (PStr (zs "sample_from"), (PDict []));
    (PStr (zs "failable_evals"), (PInt 0));
    (PStr (zs "forbidden_strings"), (PList []));
    (PStr (zs "forbidden_message"), (PStr (zs "Invalid Input: This particular answer is forbidden")));
    (PStr (zs "metric_suffixes"), (PBool false));
    (PStr (zs "required_functions"), (PList []));
    (PStr (zs "instructor_vars"), (PList []));
    (PStr (zs "answers"), (PTuple []));
    (PStr (zs "wrong_msg"), (PStr (zs "")));
    (PStr (zs "allow_inf"), (PBool false));
    (PStr (zs "max_array_dim"), (PInt 0))]);
  ((zs "MatrixGrader"),
   (* supplied (required options only) *) [],
   (* documented configuration *)
   [(PStr (zs "debug"), (PBool false));
    (PStr (zs "suppress_warnings"), (PBool false));
    (PStr (zs "attempt_based_credit"), PNone);
    (PStr (zs "attempt_based_credit_msg"), (PBool true));
    (PStr (zs "user_functions"), (PDict []));
    (PStr (zs "user_constants"), (PDict []));
    (PStr (zs "blacklist"), (PList []));
    (PStr (zs "whitelist"), (PList []));
    (PStr (zs "tolerance"), (PStr (zs "0.01%")));
    (PStr (zs "samples"), (PInt 5));
    (PStr (zs "variables"), (PList []));
    (PStr (zs "numbered_vars"), (PList []));
    (PStr (zs "sample_from"), (PDict []));
    (PStr (zs "failable_evals"), (PInt 0));
    (PStr (zs "forbidden_strings"), (PList []));
    (PStr (zs "forbidden_message"), (PStr (zs "Invalid Input: This particular answer is forbidden")));
    (PStr (zs "metric_suffixes"), (PBool false));
    (PStr (zs "required_functions"), (PList []));
    (PStr (zs "instructor_vars"), (PList []));
    (PStr (zs "answers"), (PTuple []));
    (PStr (zs "wrong_msg"), (PStr (zs "")));
    (PStr (zs "allow_inf"), (PBool false));
    (PStr (zs "max_array_dim"), (PInt 1));
    (PStr (zs "identity_dim"), PNone);
    (PStr (zs "negative_powers"), (PBool true));
    (PStr (zs "shape_errors"), (PBool true));
    (PStr (zs "suppress_matrix_messages"), (PBool false));
    (PStr (zs "answer_shape_mismatch"), (PDict [((PStr (zs "is_raised")), (PBool true)); ((PStr (zs "msg_detail")), (PStr (zs "type")))]))]);
  ((zs "ListGrader"),
   (* supplied (required options only) *) [(PStr (zs "subgraders"), (obj (zs "StringGrader") (PDict [((PStr (zs "attempt_based_credit")), PNone); ((PStr (zs "answers")), (PTuple [])); ((PStr (zs "explain_validation")), (PStr (zs "err"))); ((PStr (zs "clean_spaces")), (PBool true)); ((PStr (zs "debug")), (PBool false)); ((PStr (zs "wrong_msg")), (PStr (zs ""))); ((PStr (zs "min_words")), (PInt 0)); ((PStr (zs "validation_pattern")), PNone); ((PStr (zs "invalid_msg")), (PStr (zs "Your input is not in the expected format"))); ((PStr (zs "attempt_based_credit_msg")), (PBool true)); ((PStr (zs "min_length")), (PInt 0)); ((PStr (zs "suppress_warnings")), (PBool false)); ((PStr (zs "strip_all")), (PBool false)); ((PStr (zs "accept_any")), (PBool false)); ((PStr (zs "explain_minimums")), (PStr (zs "err"))); ((PStr (zs "case_sensitive")), (PBool true)); ((PStr (zs "strip")), (PBool true)); ((PStr (zs "accept_nonempty")), (PBool false))])))],
   (* documented configuration *)
   [(PStr (zs "debug"), (PBool false));
    (PStr (zs "suppress_warnings"), (PBool false));
    (PStr (zs "attempt_based_credit"), PNone);
    (PStr (zs "attempt_based_credit_msg"), (PBool true));
    (PStr (zs "ordered"), (PBool false));
    (PStr (zs "partial_credit"), (PBool true));
    (PStr (zs "subgraders"), (obj (zs "StringGrader") (PDict [((PStr (zs "attempt_based_credit")), PNone); ((PStr (zs "answers")), (PTuple [])); ((PStr (zs "explain_validation")), (PStr (zs "err"))); ((PStr (zs "clean_spaces")), (PBool true)); ((PStr (zs "debug")), (PBool false)); ((PStr (zs "wrong_msg")), (PStr (zs ""))); ((PStr (zs "min_words")), (PInt 0)); ((PStr (zs "validation_pattern")), PNone); ((PStr (zs "invalid_msg")), (PStr (zs "Your input is not in the expected format"))); ((PStr (zs "attempt_based_credit_msg")), (PBool true)); ((PStr (zs "min_length")), (PInt 0)); ((PStr (zs "suppress_warnings")), (PBool false)); ((PStr (zs "strip_all")), (PBool false)); ((PStr (zs "accept_any")), (PBool false)); ((PStr (zs "explain_minimums")), (PStr (zs "err"))); ((PStr (zs "case_sensitive")), (PBool true)); ((PStr (zs "strip")), (PBool true)); ((PStr (zs "accept_nonempty")), (PBool false))])));
    (PStr (zs "grouping"), (PList []));
    (PStr (zs "answers"), (PList []))]);
  ((zs "SingleListGrader"),
   (* supplied (required options only) *) [(PStr (zs "subgrader"), (obj (zs "StringGrader") (PDict [((PStr (zs "attempt_based_credit")), PNone); ((PStr (zs "answers")), (PTuple [])); ((PStr (zs "explain_validation")), (PStr (zs "err"))); ((PStr (zs "clean_spaces")), (PBool true)); ((PStr (zs "debug")), (PBool false)); ((PStr (zs "wrong_msg")), (PStr (zs ""))); ((PStr (zs "min_words")), (PInt 0)); ((PStr (zs "validation_pattern")), PNone); ((PStr (zs "invalid_msg")), (PStr (zs "Your input is not in the expected format"))); ((PStr (zs "attempt_based_credit_msg")), (PBool true)); ((PStr (zs "min_length")), (PInt 0)); ((PStr (zs "suppress_warnings")), (PBool false)); ((PStr (zs "strip_all")), (PBool false)); ((PStr (zs "accept_any")), (PBool false)); ((PStr (zs "explain_minimums")), (PStr (zs "err"))); ((PStr (zs "case_sensitive")), (PBool true)); ((PStr (zs "strip")), (PBool true)); ((PStr (zs "accept_nonempty")), (PBool false))])))],
   (* documented configuration *)
   [(PStr (zs "debug"), (PBool false));
    (PStr (zs "suppress_warnings"), (PBool false));
    (PStr (zs "attempt_based_credit"), PNone);
    (PStr (zs "attempt_based_credit_msg"), (PBool true));
    (PStr (zs "answers"), (PTuple []));
    (PStr (zs "wrong_msg"), (PStr (zs "")));
    (PStr (zs "ordered"), (PBool false));
    (PStr (zs "length_error"), (PBool false));
    (PStr (zs "missing_error"), (PBool true));
    (PStr (zs "delimiter"), (PStr (zs ",")));
    (PStr (zs "partial_credit"), (PBool true));
    (PStr (zs "subgrader"), (obj (zs "StringGrader") (PDict [((PStr (zs "attempt_based_credit")), PNone); ((PStr (zs "answers")), (PTuple [])); ((PStr (zs "explain_validation")), (PStr (zs "err"))); ((PStr (zs "clean_spaces")), (PBool true)); ((PStr (zs "debug")), (PBool false)); ((PStr (zs "wrong_msg")), (PStr (zs ""))); ((PStr (zs "min_words")), (PInt 0)); ((PStr (zs "validation_pattern")), PNone); ((PStr (zs "invalid_msg")), (PStr (zs "Your input is not in the expected format"))); ((PStr (zs "attempt_based_credit_msg")), (PBool true)); ((PStr (zs "min_length")), (PInt 0)); ((PStr (zs "suppress_warnings")), (PBool false)); ((PStr (zs "strip_all")), (PBool false)); ((PStr (zs "accept_any")), (PBool false)); ((PStr (zs "explain_minimums")), (PStr (zs "err"))); ((PStr (zs "case_sensitive")), (PBool true)); ((PStr (zs "strip")), (PBool true)); ((PStr (zs "accept_nonempty")), (PBool false))])))]);
  ((zs "IntervalGrader"),
   (* supplied (required options only) *) [],
   (* documented configuration *)
   [(PStr (zs "debug"), (PBool false));
    (PStr (zs "suppress_warnings"), (PBool false));
    (PStr (zs "attempt_based_credit"), PNone);
    (PStr (zs "attempt_based_credit_msg"), (PBool true));
    (PStr (zs "answers"), (PTuple []));
    (PStr (zs "wrong_msg"), (PStr (zs "")));
    (PStr (zs "ordered"), (PBool true));
    (PStr (zs "length_error"), (PBool true));
    (PStr (zs "missing_error"), (PBool true));
    (PStr (zs "delimiter"), (PStr (zs ",")));
    (PStr (zs "partial_credit"), (PBool true));
    (PStr (zs "subgrader"), PNone);
    (PStr (zs "opening_brackets"), (PStr (zs "[(")));
    (PStr (zs "closing_brackets"), (PStr (zs "])")))]);
  ((zs "IntegralGrader"),
   (* supplied (required options only) *) [(PStr (zs "answers"), (PDict [((PStr (zs "lower")), (PStr (zs "0"))); ((PStr (zs "upper")), (PStr (zs "1"))); ((PStr (zs "integrand")), (PStr (zs "x^2"))); ((PStr (zs "integration_variable")), (PStr (zs "x")))]))],
   (* documented configuration *)
   [(PStr (zs "debug"), (PBool false));
    (PStr (zs "suppress_warnings"), (PBool false));
    (PStr (zs "attempt_based_credit"), PNone);
    (PStr (zs "attempt_based_credit_msg"), (PBool true));
    (PStr (zs "user_functions"), (PDict []));
    (PStr (zs "user_constants"), (PDict []));
    (PStr (zs "blacklist"), (PList []));
    (PStr (zs "whitelist"), (PList []));
    (PStr (zs "tolerance"), (PStr (zs "0.01%")));
    (PStr (zs "samples"), (PInt 1));
    (PStr (zs "variables"), (PList []));
    (PStr (zs "numbered_vars"), (PList []));
    (PStr (zs "sample_from"), (PDict []));
    (PStr (zs "failable_evals"), (PInt 0));
    (PStr (zs "forbidden_strings"), (PList []));
    (PStr (zs "forbidden_message"), (PStr (zs "Invalid Input: This particular answer is forbidden")));
    (PStr (zs "metric_suffixes"), (PBool false));
    (PStr (zs "required_functions"), (PList []));
    (PStr (zs "instructor_vars"), (PList []));
    (PStr (zs "answers"), (PDict [((PStr (zs "lower")), (PStr (zs "0"))); ((PStr (zs "upper")), (PStr (zs "1"))); ((PStr (zs "integrand")), (PStr (zs "x^2"))); ((PStr (zs "integration_variable")), (PStr (zs "x")))]));
    (PStr (zs "input_positions"), (PDict [((PStr (zs "lower")), (PInt 1)); ((PStr (zs "upper")), (PInt 2)); ((PStr (zs "integrand")), (PInt 3)); ((PStr (zs "integration_variable")), (PInt 4))]));
    (PStr (zs "integrator_options"), (PDict [((PStr (zs "full_output")), (PInt 1))]));
    (PStr (zs "complex_integrand"), (PBool false))]);
  ((zs "SumGrader"),
   (* supplied (required options only) *) [(PStr (zs "answers"), (PDict [((PStr (zs "lower")), (PStr (zs "1"))); ((PStr (zs "upper")), (PStr (zs "5"))); ((PStr (zs "summand")), (PStr (zs "n"))); ((PStr (zs "summation_variable")), (PStr (zs "n")))]))],
   (* documented configuration *)
   [(PStr (zs "debug"), (PBool false));
    (PStr (zs "suppress_warnings"), (PBool false));
    (PStr (zs "attempt_based_credit"), PNone);
    (PStr (zs "attempt_based_credit_msg"), (PBool true));
    (PStr (zs "user_functions"), (PDict []));
    (PStr (zs "user_constants"), (PDict []));
    (PStr (zs "blacklist"), (PList []));
    (PStr (zs "whitelist"), (PList []));
    (PStr (zs "tolerance"), (PFloat (Qmake 4951760157141521 4951760157141521099596496896%positive)));
    (PStr (zs "samples"), (PInt 2));
    (PStr (zs "variables"), (PList []));
    (PStr (zs "numbered_vars"), (PList []));
    (PStr (zs "sample_from"), (PDict []));
    (PStr (zs "failable_evals"), (PInt 0));
    (PStr (zs "forbidden_strings"), (PList []));
    (PStr (zs "forbidden_message"), (PStr (zs "Invalid Input: This particular answer is forbidden")));
    (PStr (zs "metric_suffixes"), (PBool false));
    (PStr (zs "required_functions"), (PList []));
    (PStr (zs "instructor_vars"), (PList []));
    (PStr (zs "answers"), (PDict [((PStr (zs "lower")), (PStr (zs "1"))); ((PStr (zs "upper")), (PStr (zs "5"))); ((PStr (zs "summand")), (PStr (zs "n"))); ((PStr (zs "summation_variable")), (PStr (zs "n")))]));
    (PStr (zs "input_positions"), (PDict [((PStr (zs "lower")), (PInt 1)); ((PStr (zs "upper")), (PInt 2)); ((PStr (zs "summand")), (PInt 3)); ((PStr (zs "summation_variable")), (PInt 4))]));
    (PStr (zs "infty_val"), (PFloat (Qmake 1000 1%positive)));
    (PStr (zs "infty_val_fact"), (PInt 80));
    (PStr (zs "even_odd"), (PInt 0))])

].

(* PercentageString on the two default tolerances (float parsing is outside the model) *)
Definition doc_orc : Z -> pyval -> outcome pyval :=
  fun id v =>
    if py_eqb v (PStr (zs "0.01%")) then Ret (PStr (zs "0.01%"))
    else if py_eqb v (PStr (zs "5%")) then Ret (PStr (zs "5.0%"))
    else if py_eqb v (PStr (zs "5.0%")) then Ret (PStr (zs "5.0%"))
    else Raise EInvalid.

(* every documented (option, value) pair is exposed by the validated configuration *)
Definition exposes (doc : list (pyval * pyval)) (out : pyval) : bool :=
  match out with
  | PDict items =>
      forallb (fun kv => match fst kv with
                         | PStr k => match dict_get k items with Some v => py_eqb v (snd kv) | None => false end
                         | _ => false
                         end) doc
  | _ => false
  end.
