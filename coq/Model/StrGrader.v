(* StrGrader.v -- executable model of mitxgraders/stringgrader.py (C18).  No proofs here.

   Strings are lists of code points (Result.str = list Z).  The library leaves are oracles passed as a
   record of tables (never axioms):  str.lower() of a one-character string, str.isspace(), and the
   character classes \d and \w of Python's re.  The harness records the tables from the running Python
   for the characters of each case and checks the hypotheses the theorems put on them over all of Unicode.

   clean_input / construct_message / check_response / call_expect have the shape of the definitions that
   translate/strgrader.py regenerates from the source (Gen/StrGrader.v); Bridge/StrGrader.v proves them equal. *)
From Coq Require Import ZArith QArith List Bool.
From Verif.Model Require Import Result.
Import ListNotations.
Open Scope Z_scope.

Record tables := mkTables {
  t_lower : Z -> str;      (* c.lower() for a one-character string c *)
  t_space : Z -> bool;     (* c.isspace()  (str.strip, str.split, \s) *)
  t_digit : Z -> bool;     (* re \d *)
  t_word  : Z -> bool      (* re \w *)
}.

Inductive explain := ExErr | ExMsg | ExNone.        (* 'err' | 'msg' | None *)

Definition explain_eqb (a b : explain) : bool :=
  match a, b with ExErr, ExErr | ExMsg, ExMsg | ExNone, ExNone => true | _, _ => false end.

Record config := mkConfig {
  cfg_debug : bool;
  cfg_case_sensitive : bool;
  cfg_strip : bool;
  cfg_strip_all : bool;
  cfg_clean_spaces : bool;
  cfg_accept_any : bool;
  cfg_accept_nonempty : bool;
  cfg_min_length : Z;
  cfg_min_words : Z;
  cfg_explain_minimums : explain;
  cfg_validation_pattern : option str;
  cfg_explain_validation : explain;
  cfg_invalid_msg : str
}.

(* what check_response / the grader call produces *)
Inductive outcome :=
| Ret (e : entry)                (* a result dictionary *)
| RaiseInvalid (msg : str)       (* InvalidInput(msg): the student sees msg *)
| RaiseConfig.                   (* ConfigError (message not modelled) *)

(* ---------------------------------------------------------------------------------------------- *)
(* Python string primitives                                                                        *)
(* ---------------------------------------------------------------------------------------------- *)
Fixpoint prefix_eqb (p s : str) : bool :=
  match p, s with
  | [], _ => true
  | a :: p', b :: s' => (a =? b) && prefix_eqb p' s'
  | _ :: _, [] => false
  end.

(* s.replace(old, new) for a NON-EMPTY old: leftmost, non-overlapping occurrences.
   skip = number of characters of a matched occurrence still to be dropped. *)
Fixpoint replace_go (old new : str) (skip : nat) (s : str) : str :=
  match s with
  | [] => []
  | c :: r =>
    match skip with
    | S k => replace_go old new k r
    | O => if prefix_eqb old s then new ++ replace_go old new (pred (length old)) r
           else c :: replace_go old new O r
    end
  end.
Definition py_replace (old new s : str) : str := replace_go old new O s.

(* s.lower(): character by character (the harness excludes the one context-sensitive case, final sigma) *)
Definition py_lower (T : tables) (s : str) : str := flat_map (t_lower T) s.

Fixpoint drop_ws (T : tables) (s : str) : str :=
  match s with
  | [] => []
  | c :: r => if t_space T c then drop_ws T r else s
  end.
(* s.strip() *)
Definition py_strip (T : tables) (s : str) : str := rev (drop_ws T (rev (drop_ws T s))).

(* re.sub(r' +', ' ', s) *)
Fixpoint squeeze_go (prev : bool) (s : str) : str :=
  match s with
  | [] => []
  | c :: r => if c =? 32
              then (if prev then squeeze_go true r else 32 :: squeeze_go true r)
              else c :: squeeze_go false r
  end.
Definition re_sub_spaces (s : str) : str := squeeze_go false s.

(* s.split() : maximal runs of non-whitespace characters *)
Fixpoint split_go (T : tables) (cur : str) (s : str) : list str :=
  match s with
  | [] => match cur with [] => [] | _ => [rev cur] end
  | c :: r => if t_space T c
              then match cur with [] => split_go T [] r | _ => rev cur :: split_go T [] r end
              else split_go T (c :: cur) r
  end.
Definition py_split (T : tables) (s : str) : list str := split_go T [] s.

Definition py_endswith (s suf : str) : bool := prefix_eqb (rev suf) (rev s).

(* '{}'.format(n) for a non-negative integer *)
Fixpoint dec_go (fuel : nat) (n : Z) (acc : str) : str :=
  match fuel with
  | O => acc
  | S k => let acc' := (48 + n mod 10) :: acc in
           if n <? 10 then acc' else dec_go k (n / 10) acc'
  end.
Definition py_dec (n : Z) : str := dec_go (S (Z.to_nat (Z.log2 n))) n [].

Definition is_none {A} (o : option A) : bool := match o with None => true | Some _ => false end.
(* truth value of a variable that holds None or a string *)
Definition opt_truthy (o : option str) : bool := match o with Some (_ :: _) => true | _ => false end.
Definition opt_get (o : option str) : str := match o with Some s => s | None => [] end.
Definition set_msg (e : entry) (m : str) : entry := mkEntry (e_ok e) (e_grade e) m.

(* ---------------------------------------------------------------------------------------------- *)
(* StringGrader.clean_input                                                                        *)
(* ---------------------------------------------------------------------------------------------- *)
Definition clean_input (T : tables) (cfg : config) (v_input : str) : str :=
  let v_cleaned := v_input in
  let v_cleaned := (py_replace [9] [32] v_cleaned) in
  let v_cleaned := (py_replace [13; 10] [32] v_cleaned) in
  let v_cleaned := (py_replace [10; 13] [32] v_cleaned) in
  let v_cleaned := (py_replace [13] [32] v_cleaned) in
  let v_cleaned := (py_replace [10] [32] v_cleaned) in
  let c0 := (negb (cfg_case_sensitive cfg)) in
  let v_cleaned := if c0 then (py_lower T v_cleaned) else v_cleaned in
  let c0 := (cfg_strip cfg) in
  let v_cleaned := if c0 then (py_strip T v_cleaned) else v_cleaned in
  let c0 := (cfg_strip_all cfg) in
  let v_cleaned := if c0 then (py_replace [32] (@nil Z) v_cleaned) else v_cleaned in
  let c0 := (cfg_clean_spaces cfg) in
  let v_cleaned := if c0 then (re_sub_spaces v_cleaned) else v_cleaned in
  v_cleaned.

(* ---------------------------------------------------------------------------------------------- *)
(* StringGrader.construct_message                                                                  *)
(* ---------------------------------------------------------------------------------------------- *)
Definition zero_entry : entry := mkEntry OkFalse (0 # 1)%Q (@nil Z).

Definition construct_message (cfg : config) (v_msg : str) (v_msg_type : explain) : outcome :=
  let v_invalid_response := zero_entry in
  if explain_eqb v_msg_type ExErr then RaiseInvalid v_msg
  else
    let c := explain_eqb v_msg_type ExMsg || cfg_debug cfg in
    let v_invalid_response := if c then set_msg v_invalid_response v_msg else v_invalid_response in
    Ret v_invalid_response.

(* ---------------------------------------------------------------------------------------------- *)
(* StringGrader.check_response                                                                     *)
(* ---------------------------------------------------------------------------------------------- *)
(* "Your response is too short (" *)
Definition too_short_prefix : str :=
  [89; 111; 117; 114; 32; 114; 101; 115; 112; 111; 110; 115; 101; 32; 105; 115; 32; 116; 111; 111; 32; 115; 104;
   111; 114; 116; 32; 40].
Definition chars_suffix : str := [32; 99; 104; 97; 114; 97; 99; 116; 101; 114; 115; 41].   (* " characters)" *)
Definition words_suffix : str := [32; 119; 111; 114; 100; 115; 41].                          (* " words)" *)
Definition too_short (have want : Z) (suffix : str) : str :=
  too_short_prefix ++ py_dec have ++ [47] ++ py_dec want ++ suffix.

(* the credit of the matched answer: a fresh dictionary with the answer's ok / grade_decimal / msg *)
Definition credit_of (a : entry) : entry := mkEntry (e_ok a) (e_grade a) (e_msg a).

(* the minimum length in force: accept_nonempty turns a minimum of 0 into 1 *)
Definition effective_min_length (cfg : config) : Z :=
  let v_min_length := cfg_min_length cfg in
  let c := cfg_accept_nonempty cfg && (v_min_length =? 0) in
  if c then 1 else v_min_length.

Definition accept_any_mode (cfg : config) : bool := cfg_accept_any cfg || cfg_accept_nonempty cfg.

(* the message (if any) explaining which minimum is not met; the word count overrides the character count *)
Definition minimums_msg (T : tables) (cfg : config) (v_min_length : Z) (v_student : str) : option str :=
  let v_msg := @None str in
  let v_chars := Z.of_nat (length v_student) in
  let c := v_chars <? v_min_length in
  let v_msg := if c then Some (too_short v_chars v_min_length chars_suffix) else v_msg in
  let v_words := Z.of_nat (length (py_split T v_student)) in
  let c := v_words <? cfg_min_words cfg in
  let v_msg := if c then Some (too_short v_words (cfg_min_words cfg) words_suffix) else v_msg in
  v_msg.

(* the part of check_response after validation: comparison with expect, or the accept_any minimums *)
Definition grade_part (T : tables) (cfg : config) (v_answer : entry) (v_expect v_student : str)
    (v_accept_any : bool) (v_min_length : Z) : outcome :=
  if negb v_accept_any then
    if negb (str_eqb v_student v_expect) then Ret zero_entry else Ret (credit_of v_answer)
  else
    let v_msg := minimums_msg T cfg v_min_length v_student in
    if opt_truthy v_msg then construct_message cfg (opt_get v_msg) (cfg_explain_minimums cfg)
    else Ret (credit_of v_answer).

(* rematch p s  <->  re.match(p, s) is not None ;  refull p s  <->  re.fullmatch(p, s) is not None.
   The validation test is re.fullmatch(pattern, cleaned) (since /repo commit 976ea10; before it the code used
   re.match(pattern + "$", cleaned), which is not a full match -- see Proofs/StrRegex.v, section 8).
   rematch is kept as a parameter because the regenerated definition takes both oracles. *)
Definition check_response (T : tables) (rematch refull : str -> str -> bool) (cfg : config)
    (v_answer : entry) (a_expect : str) (v_student_input : str) : outcome :=
  let v_expect := clean_input T cfg a_expect in
  let v_student := clean_input T cfg v_student_input in
  let v_accept_any := accept_any_mode cfg in
  let v_min_length := effective_min_length cfg in
  let validate_student s_pattern :=
    if negb (refull s_pattern v_student)
    then construct_message cfg (cfg_invalid_msg cfg) (cfg_explain_validation cfg)
    else grade_part T cfg v_answer v_expect v_student v_accept_any v_min_length in
  match cfg_validation_pattern cfg with
  | Some s_pattern =>
      if negb v_accept_any then
        if negb (refull s_pattern v_expect) then RaiseConfig
        else validate_student s_pattern
      else validate_student s_pattern
  | None => grade_part T cfg v_answer v_expect v_student v_accept_any v_min_length
  end.

(* ---------------------------------------------------------------------------------------------- *)
(* StringGrader.__call__ and the path through ItemGrader.__call__ / ItemGrader.check (hand-written, *)
(* tied by correspondence): grader(None, student_input) with at most one configured answer,         *)
(* debug off, default wrong_msg, no attempt-based credit.                                           *)
(* ---------------------------------------------------------------------------------------------- *)
Definition call_expect (cfg : config) (v_expect : option str) : option str :=
  let c := is_none v_expect && (cfg_accept_any cfg || cfg_accept_nonempty cfg) in
  let v_expect := if c then Some (@nil Z) else v_expect in
  v_expect.

(* an answer inferred from an expect string: {'expect': e, 'ok': True, 'grade_decimal': 1, 'msg': ''} *)
Definition inferred_answer : entry := mkEntry OkTrue (1 # 1)%Q (@nil Z).

Definition call (T : tables) (rematch refull : str -> str -> bool) (cfg : config)
    (configured : option (str * entry)) (edx_expect : option str) (student_input : str) : outcome :=
  let expect := call_expect cfg edx_expect in
  let answer :=
    match expect, configured with
    | Some e, None => Some (e, inferred_answer)     (* inferred from expect when no answers are configured *)
    | _, _ => configured
    end in
  match answer with
  | None => RaiseConfig                               (* "Expected at least one answer in answers" *)
  | Some (e, a) => check_response T rematch refull cfg a e student_input
  end.
