(* Model/ListGrader.v -- executable model of mitxgraders/listgrader.py: class ListGrader (check, perform_check,
   get_ordered_input_list, create_grouping_map, groupify_list, ungroupify_list, validate_submission,
   get_best_result, the partial_credit=False zeroing) and the module function find_optimal_order.
   No proofs here.

   One nesting level is modelled over an ARBITRARY sub-grader oracle
       check : (index of the subgrader) -> answer -> grouped input -> siblings -> option result
   (None = the subgrader raised).  Nested ListGraders are obtained by instantiating the oracle with the
   model itself (run, below), so every theorem about one level holds at every depth.

   The assignment solver is a parameter (solve); the executable instance is the integer instance of the
   transcription of munkres.py (Model/Munkres.v, computeZ) on the costs scaled to integers (solveZ, below).

   Conventions:
     - results:  Short e  = a short-form dict {'ok','grade_decimal','msg'};
                 Long es  = a long-form dict {'input_list': es, 'overall_message': ''};
     - an error anywhere (ConfigError of validate_submission, an exception of a subgrader, a box left
       unfilled / filled with a non-dict, which makes AbstractGrader.__call__ raise) is None;
     - sums are right folds (exact arithmetic: the same rational as Python's left fold). *)
From Coq Require Import ZArith QArith List Bool Arith.
From Verif.Lib Require Import QRound.
From Verif.Model Require Import Result Munkres.
Import ListNotations.

(* ---------- small list helpers ---------- *)
Fixpoint all_some {T} (l : list (option T)) : option (list T) :=
  match l with
  | [] => Some []
  | None :: _ => None
  | Some x :: r => match all_some r with Some r' => Some (x :: r') | None => None end
  end.

Fixpoint lg_upd {T} (l : list T) (i : nat) (v : T) : list T :=
  match l, i with
  | [], _ => []
  | _ :: r, O => v :: r
  | x :: r, S i' => x :: lg_upd r i' v
  end.

Definition sumQ (l : list Q) : Q := fold_right Qplus 0%Q l.

Inductive ginput (X : Type) : Type := GOne (x : X) | GMany (xs : list X).
Arguments GOne {X} x.
Arguments GMany {X} xs.

(* a sub-grader's result: short-form dict (one entry) or long-form dict (its input_list) -- the same shape as a
   grouped input, which is what makes groupify_list / ungroupify_list mutually inverse *)
Definition result : Type := ginput entry.
Definition Short (e : entry) : result := GOne e.
Definition Long (es : list entry) : result := GMany es.

Record lgcfg := mkLgCfg {
  lg_ordered : bool;            (* config['ordered'] *)
  lg_partial : bool;            (* config['partial_credit'] *)
  lg_sublist : bool;            (* self.subgrader_list *)
  lg_nsubs : nat;               (* len(config['subgraders']) when it is a list *)
  lg_grouping : list nat        (* config['grouping'], [] = no grouping *)
}.

(* ---------- create_grouping_map ---------- *)
Fixpoint positions_from (g : nat) (l : list nat) (i : nat) : list nat :=
  match l with
  | [] => []
  | y :: r => if Nat.eqb y g then i :: positions_from g r (S i) else positions_from g r (S i)
  end.

(* group_map[g-1] = the indexes whose group number is g, ascending; one row per group number 1..max *)
Definition group_map (grouping : list nat) : list (list nat) :=
  map (fun g => positions_from g grouping 0) (seq 1 (list_max grouping)).

(* the ConfigError test of create_grouping_map: set(grouping) == {1..max}  (entries are Positive(int)) *)
Definition valid_groupingb (grouping : list nat) : bool :=
  forallb (fun g => Nat.leb 1 g) grouping
  && forallb (fun g => existsb (Nat.eqb g) grouping) (seq 1 (list_max grouping)).

(* ---------- get_best_result ---------- *)
Definition total (es : list entry) : Q := sumQ (map e_grade es).
Definition zero_grade_entry : entry := mkEntry OkFalse 0%Q [].
Definition cull_step (best : list (list entry)) (run : list bool) (q : nat) : list bool :=
  let test := map (fun t => fst t && negb (Qeq_bool (e_grade (nth q (snd t) zero_grade_entry)) 0%Q)) (combine run best) in
  if existsb (fun b => b) test then test else run.
Fixpoint first_true (l : list bool) (i : nat) : option nat :=
  match l with [] => None | b :: r => if b then Some i else first_true r (S i) end.

Definition get_best (rs : list (list entry)) : option (list entry) :=
  match rs with
  | [] => None
  | [r] => Some r
  | r0 :: _ =>
      let mx := fold_left Qmax (map total rs) (total r0) in                 (* np.max(scores) *)
      let best := filter (fun r => Qeq_bool (total r) mx) rs in             (* scores == max_score *)
      match best with
      | [b] => Some b
      | _ =>
          (* NB the loop tests the grades themselves (non-zero = True), not the high_scoring matrix *)
          let run := fold_left (cull_step best) (seq 0 (length r0)) (repeat true (length best)) in
          match first_true run 0 with Some i => nth_error best i | None => None end
      end
  end.

(* ---------- partial_credit = False ---------- *)
Definition zero_entry (e : entry) : entry := mkEntry OkFalse 0%Q (e_msg e).
Definition all_ok_true (es : list entry) : bool := forallb (fun e => okv_eqb (e_ok e) OkTrue) es.
Definition apply_partial (partial : bool) (es : list entry) : list entry :=
  if partial then es else if all_ok_true es then es else map zero_entry es.

(* ---------- consolidate_grades (n_expect = None) and calculate_cost ---------- *)
Definition consolidate (gs : list Q) : Q :=
  Qmax 0%Q (sumQ gs / inject_Z (Z.of_nat (length gs)))%Q.
Definition result_grade (r : result) : Q :=
  match r with GOne e => e_grade e | GMany es => consolidate (map e_grade es) end.
Definition cost_matrix (R : list (list result)) : list (list Q) :=
  map (map (fun r => (1 - result_grade r)%Q)) R.
Definition pick (R : list (list result)) (p : nat * nat) : option result :=
  match nth_error R (fst p) with Some row => nth_error row (snd p) | None => None end.

(* ---------- groupify_list / ungroupify_list (polymorphic, as in Python) ---------- *)
Section Grouping.
  Variable T : Type.
  Variable dT : T.                        (* default for out-of-range reads; unreachable after validate_submission *)

  Definition groupify (gm : list (list nat)) (l : list T) : list (ginput T) :=
    map (fun grp => match grp with
                    | [i] => GOne (nth i l dT)
                    | _ => GMany (map (fun i => nth i l dT) grp)
                    end) gm.

  Definition group_pairs (grp : list nat) (r : ginput T) : option (list (nat * T)) :=
    match grp, r with
    | [i], GOne e => Some [(i, e)]
    | [i], GMany _ => None                  (* a list lands in one box *)
    | [], _ => Some []
    | _, GMany es => Some (combine grp es)  (* zip(indices, items) *)
    | _, GOne _ => None                     (* the dict's keys land in the boxes *)
    end.
  Fixpoint scatter (kvs : list (nat * T)) (s : list (option T)) : list (option T) :=
    match kvs with [] => s | (i, e) :: r => scatter r (lg_upd s i (Some e)) end.
  Definition ungroupify (gm : list (list nat)) (rs : list (ginput T)) : option (list T) :=
    match all_some (map (fun t => group_pairs (fst t) (snd t)) (combine gm rs)) with
    | None => None
    | Some pss => all_some (scatter (concat pss) (repeat None (S (list_max (concat gm)))))
    end.
End Grouping.
Arguments groupify {T} dT gm l.
Arguments group_pairs {T} grp r.
Arguments scatter {T} kvs s.
Arguments ungroupify {T} gm rs.

Definition flatten_plain (rs : list result) : option (list entry) :=
  all_some (map (fun r => match r with GOne e => Some e | GMany _ => None end) rs).

Section Level.
  Variables X A : Type.
  Variable dX : X.                        (* default for out-of-range reads; unreachable after validate_submission *)
  Variable check : nat -> A -> ginput X -> option (list (nat * ginput X)) -> option result.
  Variable solve : list (list Q) -> option (list (nat * nat)).

  (* ---------- get_ordered_input_list ---------- *)
  Definition gidx (c : lgcfg) (p : nat) : nat := if lg_sublist c then p else 0.
  Definition ordered_results (c : lgcfg) (answers : list A) (gin : list (ginput X)) : option (list result) :=
    let ng := if lg_sublist c then lg_nsubs c else length answers in
    let cmp := combine (seq 0 ng) (combine answers gin) in                  (* zip(graders, answers, inputs) *)
    let sibs := map (fun t => (gidx c (fst t), snd (snd t))) cmp in
    all_some (map (fun t => check (gidx c (fst t)) (fst (snd t)) (snd (snd t)) (Some sibs)) cmp).

  (* ---------- find_optimal_order ---------- *)
  Definition result_matrix (answers : list A) (gin : list (ginput X)) : option (list (list result)) :=
    all_some (map (fun x => all_some (map (fun a => check 0 a x None) answers)) gin).
  Definition unordered_results (answers : list A) (gin : list (ginput X)) : option (list result) :=
    match result_matrix answers gin with
    | None => None
    | Some R =>
        match solve (cost_matrix R) with
        | None => None
        | Some idx => all_some (map (pick R) idx)
        end
    end.

  Definition sub_results (c : lgcfg) (answers : list A) (gin : list (ginput X)) : option (list result) :=
    if lg_ordered c then ordered_results c answers gin else unordered_results answers gin.

  (* ---------- perform_check (with validate_submission) ---------- *)
  Definition perform_check (c : lgcfg) (answers : list A) (xs : list X) : option (list entry) :=
    match lg_grouping c with
    | [] =>
        if Nat.eqb (length answers) (length xs) then
          match sub_results c answers (map GOne xs) with
          | Some rs => flatten_plain rs
          | None => None
          end
        else None
    | _ :: _ =>
        if Nat.eqb (length (lg_grouping c)) (length xs) then
          let gm := group_map (lg_grouping c) in
          match sub_results c answers (groupify dX gm xs) with
          | Some rs => ungroupify gm rs
          | None => None
          end
        else None
    end.

  (* ---------- check ---------- *)
  Definition check_level (c : lgcfg) (alts : list (list A)) (xs : list X) : option (list entry) :=
    match alts with
    | [] => None                                         (* "Expected at least one answer in answers" *)
    | _ :: _ =>
        match all_some (map (fun al => perform_check c al xs) alts) with
        | None => None
        | Some rs =>
            match get_best rs with
            | None => None
            | Some b => Some (apply_partial (lg_partial c) b)
            end
        end
    end.
End Level.

(* ---------- the assignment solver: munkres.py's integer instance (Model/Munkres.v, computeZ) on the costs
   scaled by a common denominator D of the matrix:  D * (1 - grade)  as integers.  In exact arithmetic the
   real code's matrix is this one divided by D, and every decision of the solver (comparisons with zero,
   minima, additions/subtractions of minima) is invariant under a positive scaling. ---------- *)
Definition common_den (M : list (list Q)) : Z :=
  fold_right (fun q acc => Z.lcm (Zpos (Qden (Qred q))) acc) 1%Z (concat M).
Definition scale_cost (D : Z) (q : Q) : Z := (Qnum (Qred q) * (D / Zpos (Qden (Qred q))))%Z.
Definition scaled_matrix (M : list (list Q)) : list (list Z) := map (map (scale_cost (common_den M))) M.
Definition solveZ (M : list (list Q)) : option (list (nat * nat)) := computeZ (scaled_matrix M).

(* ---------- nesting: grader trees, answer trees, recursive instantiation ---------- *)
Inductive gtree := TItem (id : nat) | TList (id : nat) (c : lgcfg) (subs : list gtree).
Inductive atree := AItem (id : nat) | AAlts (alts : list (list atree)).
Definition tid (g : gtree) : nat := match g with TItem id => id | TList id _ _ => id end.

Definition item_oracle := nat -> nat -> ginput Z -> option (list (nat * ginput Z)) -> option entry.

Section Run.
  Variable item : item_oracle.
  Variable solve : list (list Q) -> option (list (nat * nat)).

  (* siblings are handed down as (index among the subgraders, input); an item grader sees them as
     (node id of that sibling grader, input) *)
  Definition sub_closure (rec : gtree -> atree -> ginput Z -> option (list (nat * ginput Z)) -> option result)
             (subs : list gtree) (k : nat) (a' : atree) (x' : ginput Z) (s' : option (list (nat * ginput Z)))
    : option result :=
    rec (nth k subs (TItem 0)) a' x'
        (option_map (map (fun t => (tid (nth (fst t) subs (TItem 0)), snd t))) s').

  Fixpoint run (fuel : nat) (g : gtree) (a : atree) (x : ginput Z) (sibs : option (list (nat * ginput Z)))
    : option result :=
    match fuel with
    | O => None
    | S f =>
        match g, a, x with
        | TItem id, AItem aid, _ =>
            match item id aid x sibs with Some e => Some (Short e) | None => None end
        | TList _ c subs, AAlts alts, GMany xs =>
            match check_level Z atree 0%Z (sub_closure (run f) subs) solve c alts xs with
            | Some es => Some (Long es)
            | None => None
            end
        | _, _, _ => None
        end
    end.

  (* AbstractGrader.format_messages on each entry: "\n" -> "<br/>\n" *)
  Definition fmt_msg (s : str) : str :=
    flat_map (fun ch => if Z.eqb ch 10 then [60; 98; 114; 47; 62; 10]%Z else [ch]) s.
  Definition fmt_entry (e : entry) : entry := mkEntry (e_ok e) (e_grade e) (fmt_msg (e_msg e)).

  (* grader(None, xs)['input_list'] *)
  Definition lg_call (fuel : nat) (g : gtree) (a : atree) (xs : list Z) : option (list entry) :=
    match run fuel g a (GMany xs) None with
    | Some (GMany es) => Some (map fmt_entry es)
    | _ => None
    end.
End Run.
