(* Eval.v -- model of MathExpression.eval and of the evaluator() front door
   (mitxgraders/helpers/calc/expressions.py:598-1266, robust_pow.py).  No proofs here.

   EXPORTS (for C03, C10, C09):
     cplx, val     values: Gaussian rationals (VS) and nested arrays of them (VA); a real number has im == 0.
                   Arrays can be built (eval_array incl. the shape check) and passed to function oracles,
                   arithmetic on them is outside this model (EUnsupported; that is C14's subject).
     everr         evaluation error classes;  res A = Ok a | Err e
     env           venv / fenv / senv : the supplied variables, functions (oracles: any function from
                   argument lists to results) and suffixes
     numeral_value : str -> option Q        float(text), exactly (decimal / scientific notation)
     check_scope   MathExpression.check_scope (variables, then functions, then suffixes)
     eval          MathExpression.eval on a tree: children left to right, then the node action
                   eval_power (right to left, '-' negates the exponent accumulated so far), eval_negation,
                   eval_parallel (0 if an operand is 0), eval_product, eval_sum (fold left), eval_number
     evaluator     the front door: None / blank -> ONan, parse errors, scope errors, evaluation,
                   max_array_dim check after evaluation
   Scalar domain: exact rationals.  Division by zero, 0 to a negative power -> EDivZero; an exponent that is
   not a real integer -> EDomain (outside the model; excluded from value comparison by the harness);
   a component of magnitude >= 2^1024 -> EOverflow.  Size guards (pow_in_model, decimal exponents <= 5000)
   keep every computation small; beyond them the model answers EDomain / EBadNumeral (outside its domain). *)
From Coq Require Import ZArith QArith Qabs List Bool.
From Verif.Model Require Import Result Lexer Parser.
Import ListNotations.
Local Open Scope Q_scope.

Record cplx := mkC { re : Q; im : Q }.
Inductive val := VS (c : cplx) | VA (l : list val).

Inductive everr :=
| EUndefVar | EUndefFun | EUndefSuffix      (* check_scope *)
| EDivZero | EOverflow
| EDomain                                    (* exponent outside the model's domain *)
| EFunc (code : Z)                           (* error reported by a function oracle *)
| EShape                                     (* eval_array: ragged array *)
| EUnsupported                               (* arithmetic on arrays *)
| EBadNumeral.

Inductive res (A : Type) := Ok (a : A) | Err (e : everr).
Arguments Ok {A} a.
Arguments Err {A} e.

Definition bind {A B} (r : res A) (f : A -> res B) : res B :=
  match r with Ok a => f a | Err e => Err e end.

Definition mapM {A B} (f : A -> res B) : list A -> res (list B) :=
  fix go (l : list A) : res (list B) :=
    match l with
    | [] => Ok []
    | x :: r => bind (f x) (fun y => bind (go r) (fun ys => Ok (y :: ys)))
    end.

(* ---------- Gaussian rationals ---------- *)
Definition cnorm (c : cplx) : cplx := mkC (Qred (re c)) (Qred (im c)).
Definition creal (q : Q) : cplx := mkC q 0.
Definition czero : cplx := mkC 0 0.
Definition cone : cplx := mkC 1 0.
Definition is_czero (c : cplx) : bool := Qeq_bool (re c) 0 && Qeq_bool (im c) 0.
Definition cadd (a b : cplx) : cplx := cnorm (mkC (re a + re b) (im a + im b)).
Definition csub (a b : cplx) : cplx := cnorm (mkC (re a - re b) (im a - im b)).
Definition cneg (a : cplx) : cplx := cnorm (mkC (- re a) (- im a)).
Definition cmul (a b : cplx) : cplx := cnorm (mkC (re a * re b - im a * im b) (re a * im b + im a * re b)).
Definition cnorm2 (a : cplx) : Q := re a * re a + im a * im a.
Definition cinv (a : cplx) : cplx := cnorm (mkC (re a / cnorm2 a) (- im a / cnorm2 a)).
Definition cdiv (a b : cplx) : cplx := cmul a (cinv b).
Definition cpow_pos (a : cplx) (p : positive) : cplx := Pos.iter_op cmul p a.
Definition cpow_int (a : cplx) (n : Z) : cplx :=
  match n with
  | Z0 => cone
  | Zpos p => cpow_pos a p
  | Zneg p => cinv (cpow_pos a p)
  end.
Definition ceqb (a b : cplx) : bool := Qeq_bool (re a) (re b) && Qeq_bool (im a) (im b).

Definition huge : Q := inject_Z (2 ^ 1024).
Definition cfinite (c : cplx) : bool := negb (Qle_bool huge (Qabs (re c))) && negb (Qle_bool huge (Qabs (im c))).
Definition chk (c : cplx) : res val := if cfinite c then Ok (VS c) else Err EOverflow.

(* size guard: the model only raises to powers whose result has at most ~4096 bits *)
Definition qbits (q : Q) : Z := (Z.max (Z.log2 (Z.abs (Qnum q))) (Z.log2 (Zpos (Qden q))) + 1)%Z.
Definition cbits (c : cplx) : Z := Z.max (qbits (re c)) (qbits (im c)).
Definition pow_in_model (x : cplx) (n : Z) : bool := (Z.abs n * cbits x <=? 4096)%Z.

(* an integer-valued real exponent *)
Definition as_int (c : cplx) : option Z :=
  if Qeq_bool (im c) 0 then
    let q := Qred (re c) in
    match Qden q with xH => Some (Qnum q) | _ => None end
  else None.

(* ---------- operations on values (scalars; arrays are outside the model) ---------- *)
Definition lift2 (f : cplx -> cplx -> res val) (a b : val) : res val :=
  match a, b with VS x, VS y => f x y | _, _ => Err EUnsupported end.

Definition vadd : val -> val -> res val := lift2 (fun x y => chk (cadd x y)).
Definition vsub : val -> val -> res val := lift2 (fun x y => chk (csub x y)).
Definition vmul : val -> val -> res val := lift2 (fun x y => chk (cmul x y)).
Definition vdiv : val -> val -> res val :=
  lift2 (fun x y => if is_czero y then Err EDivZero else chk (cdiv x y)).
Definition vneg (a : val) : res val :=
  match a with VS x => Ok (VS (cneg x)) | VA _ => Err EUnsupported end.
(* robust_pow(base, exponent) = base ** exponent *)
Definition vpow : val -> val -> res val :=
  lift2 (fun x e => match as_int e with
                    | None => Err EDomain
                    | Some n => if (n <? 0)%Z && is_czero x then Err EDivZero
                                else if pow_in_model x n then chk (cpow_int x n) else Err EDomain
                    end).

Definition is_vzero (v : val) : bool := match v with VS c => is_czero c | VA _ => false end.

Fixpoint sum_recips (l : list val) : res cplx :=
  match l with
  | [] => Ok czero
  | VS c :: r => bind (sum_recips r) (fun s => Ok (cadd (cinv c) s))
  | VA _ :: _ => Err EUnsupported
  end.

(* eval_parallel: 0 if there is a zero among the inputs, else 1 / sum of reciprocals *)
Definition vpar (l : list val) : res val :=
  if existsb is_vzero l then Ok (VS czero)
  else bind (sum_recips l) (fun s => if is_czero s then Err EDivZero else chk (cinv s)).

(* eval_power: right to left, a '-' negates the exponent accumulated so far *)
Fixpoint pow_tower (b : val) (rest : list (bool * val)) : res val :=
  match rest with
  | [] => Ok b
  | (sg, v) :: rest' =>
      bind (pow_tower v rest') (fun e =>
      bind (if sg then vneg e else Ok e) (fun e' => vpow b e'))
  end.

(* eval_product / eval_sum: fold left *)
Fixpoint prod_fold (acc : val) (rest : list (mulop * val)) : res val :=
  match rest with
  | [] => Ok acc
  | (OpMul, v) :: r => bind (vmul acc v) (fun a => prod_fold a r)
  | (OpDiv, v) :: r => bind (vdiv acc v) (fun a => prod_fold a r)
  end.

Fixpoint sum_fold (acc : val) (rest : list (addop * val)) : res val :=
  match rest with
  | [] => Ok acc
  | (OpAdd, v) :: r => bind (vadd acc v) (fun a => sum_fold a r)
  | (OpSub, v) :: r => bind (vsub acc v) (fun a => sum_fold a r)
  end.

(* eval_array: MathArray(list) must be rectangular *)
Fixpoint shape_eqb (a b : list nat) : bool :=
  match a, b with
  | [], [] => true
  | x :: a', y :: b' => Nat.eqb x y && shape_eqb a' b'
  | _, _ => false
  end.

Fixpoint shape_of (v : val) : option (list nat) :=
  match v with
  | VS _ => Some []
  | VA l =>
      match l with
      | [] => Some [0%nat]
      | x :: r =>
          match shape_of x with
          | None => None
          | Some s =>
              if (fix all_same (r : list val) : bool :=
                    match r with
                    | [] => true
                    | y :: r' => match shape_of y with
                                 | Some s' => shape_eqb s s' && all_same r'
                                 | None => false
                                 end
                    end) r
              then Some (length l :: s) else None
          end
      end
  end.

Definition ndim (v : val) : nat := match shape_of v with Some s => length s | None => 0 end.
Definition mk_array (vs : list val) : res val :=
  match shape_of (VA vs) with Some _ => Ok (VA vs) | None => Err EShape end.

(* ---------- float(text) ---------- *)
Fixpoint digits_val (acc : Z) (s : str) : Z :=
  match s with c :: r => digits_val (acc * 10 + (c - 48)) r | [] => acc end.

Definition numeral_value (x : str) : option Q :=
  let (ip, r1) := span is_digit x in
  let '(fp, r2) := match r1 with
                   | c :: r => if (c =? ch_dot)%Z then span is_digit r else ([], r1)
                   | [] => ([], r1)
                   end in
  match ip ++ fp with
  | [] => None
  | ds =>
      let mant : Q := inject_Z (digits_val 0 ds) / inject_Z (10 ^ Z.of_nat (length fp)) in
      match r2 with
      | [] => Some mant
      | c :: r3 =>
          if (c =? ch_E)%Z || (c =? ch_e)%Z then
            let '(neg, es) := match r3 with
                              | d :: r4 => if (d =? ch_minus)%Z then (true, r4)
                                           else if (d =? ch_plus)%Z then (false, r4) else (false, r3)
                              | [] => (false, r3)
                              end in
            match es with
            | [] => None
            | _ => if forallb is_digit es && (digits_val 0 es <=? 5000)%Z then
                     let p := inject_Z (10 ^ digits_val 0 es) in
                     Some (if neg then mant / p else mant * p)
                   else None
            end
          else None
      end
  end.

(* ---------- scope ---------- *)
Record env := mkEnv {
  venv : str -> option val;
  fenv : str -> option (list val -> res val);
  senv : str -> option Q
}.

Definition defined {A} (f : str -> option A) (n : str) : bool :=
  match f n with Some _ => true | None => false end.

Definition check_scope (E : env) (t : tree) : option everr :=
  if negb (forallb (defined (venv E)) (vars_of t)) then Some EUndefVar
  else if negb (forallb (defined (fenv E)) (funcs_of t)) then Some EUndefFun
  else if negb (forallb (defined (senv E)) (suffixes_of t)) then Some EUndefSuffix
  else None.

(* ---------- MathExpression.eval ---------- *)
Section Eval.
  Variable E : env.

  (* eval_number: float(text) * suffixes[suffix] *)
  Definition eval_number (x : str) (s : option str) : res val :=
    match numeral_value x with
    | None => Err EBadNumeral
    | Some q =>
        match s with
        | None => chk (creal (Qred q))
        | Some u => match senv E u with
                    | Some m => chk (creal (Qred (q * m)))
                    | None => Err EUndefSuffix
                    end
        end
    end.

  Fixpoint eval (t : tree) : res val :=
    match t with
    | Num x s => eval_number x s
    | Var n => match venv E n with Some v => Ok v | None => Err EUndefVar end
    | Fun n args =>
        bind (mapM eval args) (fun vs =>
        match fenv E n with Some f => f vs | None => Err EUndefFun end)
    | Paren t => eval t
    | Arr items => bind (mapM eval items) mk_array
    | Pow b rest =>
        bind (eval b) (fun vb =>
        bind (mapM (fun p : bool * tree => bind (eval (snd p)) (fun v => Ok (fst p, v))) rest) (fun vr =>
        pow_tower vb vr))
    | Neg t => bind (eval t) vneg
    | Par f rest =>
        bind (eval f) (fun vf => bind (mapM eval rest) (fun vr => vpar (vf :: vr)))
    | Prod f rest =>
        bind (eval f) (fun vf =>
        bind (mapM (fun p : mulop * tree => bind (eval (snd p)) (fun v => Ok (fst p, v))) rest) (fun vr =>
        prod_fold vf vr))
    | Sum _ f rest =>
        bind (eval f) (fun vf =>
        bind (mapM (fun p : addop * tree => bind (eval (snd p)) (fun v => Ok (fst p, v))) rest) (fun vr =>
        sum_fold vf vr))
    end.

  (* metadata_dict['max_array_dim_used']: the largest ndim of an evaluated array literal *)
  Fixpoint max_dim_used (t : tree) : nat :=
    match t with
    | Num _ _ | Var _ => 0%nat
    | Fun _ args => list_max (map max_dim_used args)
    | Paren t => max_dim_used t
    | Arr items =>
        Nat.max (match eval (Arr items) with Ok v => ndim v | Err _ => 0%nat end)
                (list_max (map max_dim_used items))
    | Pow b rest => Nat.max (max_dim_used b) (list_max (map (fun p : bool * tree => max_dim_used (snd p)) rest))
    | Neg t => max_dim_used t
    | Par f rest => Nat.max (max_dim_used f) (list_max (map max_dim_used rest))
    | Prod f rest => Nat.max (max_dim_used f) (list_max (map (fun p : mulop * tree => max_dim_used (snd p)) rest))
    | Sum _ f rest => Nat.max (max_dim_used f) (list_max (map (fun p : addop * tree => max_dim_used (snd p)) rest))
    end.
End Eval.

(* ---------- evaluator(): the front door ---------- *)
(* str.strip(): the code points c with chr(c).isspace() (checked exhaustively against Python by the harness) *)
Definition is_pyspace (c : Z) : bool :=
  ((9 <=? c) && (c <=? 13) || (28 <=? c) && (c <=? 32) || (c =? 133) || (c =? 160) || (c =? 5760)
   || (8192 <=? c) && (c <=? 8202) || (c =? 8232) || (c =? 8233) || (c =? 8239) || (c =? 8287) || (c =? 12288))%Z.

Fixpoint lstrip (s : str) : str :=
  match s with c :: r => if is_pyspace c then lstrip r else s | [] => [] end.
Definition py_strip (s : str) : str := rev (lstrip (rev (lstrip s))).

Inductive parse_error := PEUnbalanced (e : bracket_error) | PEUnparsable | PETooManyDims.

Inductive outcome :=
| ONan                              (* float('nan') with empty usage *)
| OVal (v : val)
| OParseError (e : parse_error)     (* UnbalancedBrackets / UnableToParse *)
| OError (e : everr).

Definition evaluator (E : env) (max_array_dim : option nat) (formula : option str) : outcome :=
  match formula with
  | None => ONan
  | Some s =>
      match py_strip s with
      | [] => ONan
      | s' =>
          match parse_formula s' with
          | PUnbalanced e => OParseError (PEUnbalanced e)
          | PUnparsable => OParseError PEUnparsable
          | PTree t =>
              match check_scope E t with
              | Some e => OError e
              | None =>
                  match eval E t with
                  | Err e => OError e
                  | Ok v =>
                      match max_array_dim with
                      | Some d => if (d <? max_dim_used E t)%nat then OParseError PETooManyDims else OVal v
                      | None => OVal v
                      end
                  end
              end
          end
      end
  end.

(* ---------- environments from tables (what the correspondence cases supply) ---------- *)
Fixpoint assoc {A} (l : list (str * A)) (n : str) : option A :=
  match l with
  | [] => None
  | (k, v) :: r => if str_eqb k n then Some v else assoc r n
  end.

(* relative closeness of values: |a - b|^2 <= eps^2 * max(|a|^2, |b|^2), componentwise on arrays *)
Definition cclose (eps : Q) (a b : cplx) : bool :=
  let d := mkC (re a - re b) (im a - im b) in
  let na := cnorm2 a in let nb := cnorm2 b in
  Qle_bool (cnorm2 d) (eps * eps * (if Qle_bool na nb then nb else na)).

Fixpoint val_close (eps : Q) (a b : val) : bool :=
  match a, b with
  | VS x, VS y => cclose eps x y
  | VA k, VA l =>
      (fix go (k l : list val) : bool :=
         match k, l with
         | [], [] => true
         | x :: k', y :: l' => val_close eps x y && go k' l'
         | _, _ => false
         end) k l
  | _, _ => false
  end.

Fixpoint vals_close (eps : Q) (k l : list val) : bool :=
  match k, l with
  | [], [] => true
  | x :: k', y :: l' => val_close eps x y && vals_close eps k' l'
  | _, _ => false
  end.

(* a function oracle given by its recorded graph (arguments matched up to relative eps, because the
   implementation's arguments are rounded); an unrecorded call is EFunc (-1) *)
Fixpoint graph_fn (eps : Q) (g : list (list val * res val)) (args : list val) : res val :=
  match g with
  | [] => Err (EFunc (-1))
  | (a, r) :: g' => if vals_close eps a args then r else graph_fn eps g' args
  end.

(* names: all defined function names; graph: the recorded calls of those that were called *)
Definition env_of_tables (eps : Q) (vars : list (str * val)) (names : list str)
           (graph : list (str * list (list val * res val))) (sufs : list (str * Q)) : env :=
  mkEnv (assoc vars)
        (fun n => if existsb (str_eqb n) names
                  then Some (graph_fn eps (match assoc graph n with Some g => g | None => [] end))
                  else None)
        (assoc sufs).
