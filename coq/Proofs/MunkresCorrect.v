(* Proofs/MunkresCorrect.v -- partial correctness of the Munkres model:
   whenever computeZ returns, the result is a complete minimum-cost matching of the r x c input,
   listed in strictly increasing row order. *)
From Coq Require Import ZArith List Bool Arith Lia Permutation Sorted.
From Verif.Model Require Import Munkres.
From Verif.Proofs Require Import MunkresDuality MunkresSpec MunkresInvLib MunkresInvDefs
  MunkresStep123 MunkresStep46 MunkresStep5 MunkresInvFinal.
Import ListNotations.
Local Open Scope nat_scope.

(* ---------- the driver keeps the phase invariant and can only stop in phase 7 ---------- *)
Lemma drive_P : forall n M0 fuel s step tr s' tr', phase n M0 step s ->
  zdrive fuel n s step tr = Some (s', tr') -> P7 n M0 s'.
Proof.
  induction fuel as [|f IH]; intros s step tr s' tr' P H; simpl in H; [discriminate|].
  destruct step as [|[|[|[|[|[|[|k]]]]]]]; simpl in P.
  - inversion H; subst. exact P.
  - eapply IH; [|exact H]. simpl. apply step1_P. exact P.
  - eapply IH; [|exact H]. simpl. apply step2_P. exact P.
  - eapply IH; [|exact H].
    change (phase n M0 (snd (zstep3 n s)) (fst (zstep3 n s))).
    destruct (step3_next n s) as [N|N]; rewrite N.
    + change (P4 n M0 (fst (zstep3 n s))). apply step3_P4. exact P.
    + change (P7 n M0 (fst (zstep3 n s))). apply step3_P7; assumption.
  - destruct (step4 Z 0%Z Z.eqb n s) as [[s1 nx]|] eqn:E; [|discriminate].
    eapply IH; [|exact H].
    destruct (step4_P n M0 s s1 nx P E) as [[-> P']|[-> P']]; exact P'.
  - destruct (step5 Z n s) as [s1|] eqn:E; [|discriminate].
    eapply IH; [|exact H]. simpl. apply (step5_P n M0 s s1 P E).
  - destruct (step6 Z Z.add Z.sub Z.ltb zmaxsize s) as [s1|] eqn:E; [|discriminate].
    eapply IH; [|exact H]. simpl. apply (step6_P n M0 s s1 P E).
  - inversion H; subst. exact P.
Qed.

(* ---------- initial state ---------- *)
Lemma init_P1 : forall r c (M : list (list Z)), 1 <= r -> rect r c M ->
  sC (zinit M) = pad Z 0%Z M /\ length (sC (zinit M)) = Nat.max c r /\ P1 (Nat.max c r) (gz M) (zinit M).
Proof.
  intros r c M Hr R. pose proof (pad_sq r c M Hr R) as SP. pose proof SP as [L _].
  unfold zinit, init. simpl. rewrite L. split; [reflexivity|]. split; [reflexivity|].
  split; [|split; [|split]].
  - repeat split; simpl; try apply SP; try apply repeat_length; apply sq_repeat.
  - intros i j _ _. unfold gC; simpl. apply (pad_get r c); exact R.
  - intros i j. unfold gM; simpl. apply get2_repeat.
  - split; intro k; unfold rcov, ccov; simpl; apply nth_repeat.
Qed.

(* ---------- from the final marks to the statement ---------- *)
Section Final.
  Variables (r c n : nat) (M : list (list Z)) (mk : marks) (C : nat -> nat -> Z) (u v : nat -> Z).
  Hypothesis Hr : 1 <= r.
  Hypothesis Hc : 1 <= c.
  Hypothesis HR : rect r c M.
  Hypothesis Hn : n = Nat.max c r.
  Hypothesis SM : sq n mk.
  Hypothesis Hrow : forall i j j', get2 0 mk i j = 1 -> get2 0 mk i j' = 1 -> j = j'.
  Hypothesis Hcol : forall i i' j, get2 0 mk i j = 1 -> get2 0 mk i' j = 1 -> i = i'.
  Hypothesis Hall : forall j, j < n -> exists i, get2 0 mk i j = 1.
  Hypothesis HM : forall i j, i < n -> j < n -> gz M i j = (C i j + u i + v j)%Z.
  Hypothesis HC : forall i j, i < n -> j < n -> (0 <= C i j)%Z.
  Hypothesis HZ : forall i j, get2 0 mk i j = 1 -> C i j = 0%Z.

  Let S := read_result n n mk.
  Let res := read_result r c mk.

  Lemma star_range : forall i j, get2 0 mk i j = 1 -> i < n /\ j < n.
  Proof. intros i j H. apply (get2_range n mk i j 0 SM). rewrite H. discriminate. Qed.

  Lemma S_snd : Permutation (map snd S) (seq 0 n).
  Proof.
    apply NoDup_Permutation; [apply (rr_nodup_snd mk Hrow Hcol) | apply seq_NoDup|].
    intro j. rewrite in_seq. split.
    - intro H. apply in_map_iff in H. destruct H as [[i j'] [E H]]. simpl in E. subst j'.
      apply in_read_result in H. lia.
    - intros [_ H]. destruct (Hall j H) as [i Hi]. apply in_map_iff. exists (i, j). split; [reflexivity|].
      apply in_read_result. destruct (star_range i j Hi). auto.
  Qed.

  Lemma S_length : length S = n.
  Proof. rewrite <- (map_length snd). rewrite (Permutation_length S_snd). apply seq_length. Qed.

  Lemma S_fst : Permutation (map fst S) (seq 0 n).
  Proof.
    apply NoDup_Permutation_bis; [apply (rr_nodup_fst mk Hrow) | rewrite map_length, S_length, seq_length; lia|].
    intros i H. apply in_map_iff in H. destruct H as [[i' j] [E H]]. simpl in E. subst i'.
    apply in_read_result in H. apply in_seq. lia.
  Qed.

  Lemma row_has_star : forall i, i < n -> exists j, j < n /\ get2 0 mk i j = 1.
  Proof.
    intros i Hi. assert (H : In i (map fst S)).
    { eapply Permutation_in; [apply Permutation_sym; exact S_fst | apply in_seq; lia]. }
    apply in_map_iff in H. destruct H as [[i' j] [E H]]. simpl in E. subst i'.
    apply in_read_result in H. exists j. tauto.
  Qed.

  Lemma res_length : length res = Nat.min r c.
  Proof.
    destruct (Nat.le_gt_cases r c) as [L|L].
    - assert (P : Permutation (map fst res) (seq 0 r)).
      { apply NoDup_Permutation; [apply (rr_nodup_fst mk Hrow) | apply seq_NoDup|].
        intro i. rewrite in_seq. split.
        - intro H. apply in_map_iff in H. destruct H as [[i' j] [E H]]. simpl in E. subst i'.
          apply in_read_result in H. lia.
        - intros [_ H]. destruct (row_has_star i ltac:(lia)) as [j [Hj G]].
          apply in_map_iff. exists (i, j). split; [reflexivity|]. apply in_read_result. repeat split; auto; lia. }
      rewrite <- (map_length fst). rewrite (Permutation_length P), seq_length. lia.
    - assert (P : Permutation (map snd res) (seq 0 c)).
      { apply NoDup_Permutation; [apply (rr_nodup_snd mk Hrow Hcol) | apply seq_NoDup|].
        intro j. rewrite in_seq. split.
        - intro H. apply in_map_iff in H. destruct H as [[i j'] [E H]]. simpl in E. subst j'.
          apply in_read_result in H. lia.
        - intros [_ H]. destruct (Hall j ltac:(lia)) as [i G]. destruct (star_range i j G).
          apply in_map_iff. exists (i, j). split; [reflexivity|]. apply in_read_result. repeat split; auto; lia. }
      rewrite <- (map_length snd). rewrite (Permutation_length P), seq_length. lia.
  Qed.

  Lemma cost_res : cost M res = pcost (gz M) S.
  Proof.
    unfold cost. fold (pcost (gz M) res). unfold pcost at 2.
    rewrite (lsum_filter_split _ (fun q => Nat.ltb (fst q) r && Nat.ltb (snd q) c)%bool S).
    rewrite (lsum_zero _ (filter (fun x => negb (Nat.ltb (fst x) r && Nat.ltb (snd x) c)%bool) S)).
    - rewrite Z.add_0_r. unfold pcost. apply lsum_perm. apply Permutation_map.
      apply NoDup_Permutation.
      + apply (NoDup_map_inv fst). apply (rr_nodup_fst mk Hrow).
      + apply NoDup_filter. apply (NoDup_map_inv fst). apply (rr_nodup_fst mk Hrow).
      + intros [i j]. rewrite filter_In. unfold res, S. rewrite !in_read_result. simpl.
        rewrite andb_true_iff, !Nat.ltb_lt. split; [intros [A [B G]] | intros [[A [B G]] [A' B']]]; repeat split; auto; lia.
    - intros [i j] H. apply filter_In in H. destruct H as [_ H]. simpl in H.
      apply negb_true_iff, andb_false_iff in H. apply (gz_outside r c); [exact HR|]. simpl.
      destruct H as [H|H]; apply Nat.ltb_ge in H; auto.
  Qed.

  Lemma extend : forall m, is_matching r c m -> length m = Nat.min r c ->
    exists tau, Permutation (map fst tau) (seq 0 n) /\ Permutation (map snd tau) (seq 0 n)
                /\ pcost (gz M) tau = cost M m.
  Proof.
    intros m [N1 [N2 F]] Lm. rewrite Forall_forall in F.
    assert (R1 : forall x, In x (map fst m) -> x < r).
    { intros x H. apply in_map_iff in H. destruct H as [p [<- H]]. apply F; exact H. }
    assert (R2 : forall x, In x (map snd m) -> x < c).
    { intros x H. apply in_map_iff in H. destruct H as [p [<- H]]. apply F; exact H. }
    assert (R1n : forall x, In x (map fst m) -> x < n) by (intros x H; specialize (R1 x H); lia).
    assert (R2n : forall x, In x (map snd m) -> x < n) by (intros x H; specialize (R2 x H); lia).
    set (R' := compl n (map fst m)). set (C' := compl n (map snd m)).
    assert (LL : length R' = length C').
    { unfold R', C'. rewrite !compl_length by assumption. rewrite !map_length. reflexivity. }
    exists (m ++ combine R' C'). split; [|split].
    - rewrite map_app, (map_fst_combine _ _ LL). apply compl_perm; assumption.
    - rewrite map_app, (map_snd_combine _ _ LL). apply compl_perm; assumption.
    - unfold pcost. rewrite map_app, lsum_app. rewrite (lsum_zero _ (combine R' C')); [unfold cost; lia|].
      intros [i j] H. simpl. apply (gz_outside r c); [exact HR|].
      pose proof (in_combine_l _ _ _ _ H) as Hi. pose proof (in_combine_r _ _ _ _ H) as Hj.
      apply in_compl in Hi, Hj.
      destruct (Nat.le_gt_cases r c) as [L|L].
      + left. destruct (Nat.lt_ge_cases i r) as [Lt|]; [|assumption]. exfalso. apply (proj2 Hi).
        apply (NoDup_length_incl N1 (l' := seq 0 r)).
        * rewrite seq_length, map_length. lia.
        * intros x Hx. apply in_seq. specialize (R1 x Hx). lia.
        * apply in_seq. lia.
      + right. destruct (Nat.lt_ge_cases j c) as [Lt|]; [|assumption]. exfalso. apply (proj2 Hj).
        apply (NoDup_length_incl N2 (l' := seq 0 c)).
        * rewrite seq_length, map_length. lia.
        * intros x Hx. apply in_seq. specialize (R2 x Hx). lia.
        * apply in_seq. lia.
  Qed.

  Theorem final_matching :
    is_matching r c res /\ length res = Nat.min r c
    /\ (forall m, is_matching r c m -> length m = Nat.min r c -> (cost M res <= cost M m)%Z)
    /\ StronglySorted lt (map fst res).
  Proof.
    split; [apply (rr_matching mk Hrow Hcol)|]. split; [exact res_length|]. split; [|apply (rr_sorted mk Hrow)].
    intros m Hm Lm. destruct (extend m Hm Lm) as [tau [T1 [T2 <-]]]. rewrite cost_res.
    apply (weak_duality_pairs n (gz M) C u v S tau HM HC S_fst S_snd T1 T2).
    intros [i j] H. apply in_read_result in H. simpl. apply HZ. tauto.
  Qed.

  (* square input: the rows of the result are exactly 0 .. n-1 in order *)
  Lemma final_square : r = c -> map fst res = seq 0 r.
  Proof.
    intro E. unfold res. rewrite read_result_eq. apply map_fst_flat_single.
    intros i Hi. apply in_seq in Hi.
    destruct (row_has_star i ltac:(lia)) as [j [Hj G]].
    assert (HI : In (i, j) (rr_inner c mk i)) by (apply in_rr_inner; simpl; repeat split; auto; lia).
    pose proof (rr_inner_le1 mk Hrow c i) as L.
    destruct (rr_inner c mk i) as [|p [|q t]]; simpl in L; [destruct HI | | lia].
    exists p. split; [reflexivity|]. destruct HI as [->|[]]. reflexivity.
  Qed.
End Final.

(* ---------- the main theorem ---------- *)
Lemma computeZ_inv : forall r c (M : list (list Z)) res, 1 <= r -> 1 <= c -> rect r c M ->
  computeZ M = Some res ->
  exists s, P7 (Nat.max c r) (gz M) s /\ res = read_result r c (sM s).
Proof.
  intros r c M res Hr Hc HR H.
  unfold computeZ, compute, compute_full in H.
  destruct (init_P1 r c M Hr HR) as [_ [L P]].
  change (init Z 0%Z M) with (zinit M) in H. rewrite L in H.
  destruct (drive Z 0%Z Z.add Z.sub Z.ltb Z.eqb zmaxsize (fuel_for (Nat.max c r)) (Nat.max c r) (zinit M) 1 [])
    as [[s tr]|] eqn:D; [|discriminate].
  inversion H; subst res. exists s. split.
  - apply (drive_P (Nat.max c r) (gz M) _ _ 1 [] s tr P D).
  - destruct HR as [LM F]. rewrite LM. destruct M as [|row M]; [simpl in LM; lia|].
    inversion F; subst. simpl. reflexivity.
Qed.

Theorem munkres_result_props : forall r c (M : list (list Z)) res, 1 <= r -> 1 <= c -> rect r c M ->
  computeZ M = Some res ->
  is_matching r c res /\ length res = Nat.min r c
  /\ (forall m, is_matching r c m -> length m = Nat.min r c -> (cost M res <= cost M m)%Z)
  /\ StronglySorted lt (map fst res)
  /\ (r = c -> map fst res = seq 0 r).
Proof.
  intros r c M res Hr Hc HR H.
  destruct (computeZ_inv r c M res Hr Hc HR H) as [s [[B Hall] ->]].
  pose proof (b_wf _ _ _ B) as [_ [SM _]].
  destruct (b_shift _ _ _ B) as [u [v Huv]].
  pose proof (final_matching r c (Nat.max c r) M (sM s) (gC s) u v Hr Hc HR eq_refl SM
                (b_row _ _ _ B) (b_col _ _ _ B) Hall Huv (b_nonneg _ _ _ B) (b_star0 _ _ _ B)) as [A1 [A2 [A3 A4]]].
  repeat split; try assumption; try apply A1.
  apply (final_square r c (Nat.max c r) (sM s) Hr Hc eq_refl SM (b_row _ _ _ B) (b_col _ _ _ B) Hall).
Qed.

Theorem munkres_partial_correct : munkres_partial_correct_statement.
Proof.
  intros r c M res Hr Hc HR H.
  destruct (munkres_result_props r c M res Hr Hc HR H) as [A1 [A2 [A3 _]]]. auto.
Qed.

(* secondary facts used by C05/C07 *)
Theorem munkres_rows_sorted : forall r c (M : list (list Z)) res, 1 <= r -> 1 <= c -> rect r c M ->
  computeZ M = Some res -> StronglySorted lt (map fst res).
Proof. intros r c M res Hr Hc HR H. apply (munkres_result_props r c M res Hr Hc HR H). Qed.

Theorem munkres_rows_in_order : forall n (M : list (list Z)) res, 1 <= n -> rect n n M ->
  computeZ M = Some res -> map fst res = seq 0 n.
Proof.
  intros n M res Hn HR H.
  destruct (munkres_result_props n n M res Hn Hn HR H) as [_ [_ [_ [_ A]]]]. apply A. reflexivity.
Qed.
