(* Proofs/SingleListMatch.v -- one-to-one assignments of submitted items to expected items (C07):
   sums over Q, matchings, extension of a partial matching to a complete one, "maximum total credit",
   its invariance under reindexing the rows by an injection, and the link from the INTEGER solver statement
   of C06 (Proofs/MunkresSpec.v) to rational cost matrices by scaling with a common denominator. *)
From Coq Require Import ZArith QArith Qabs List Bool Arith Lia Lqa Permutation FinFun.
From Verif.Lib Require Import QRound.
From Verif.Model Require Import Result Munkres SingleList.
From Verif.Proofs Require Import MunkresDuality MunkresSpec MunkresCorrect MunkresTerm.
Import ListNotations.
Open Scope Q_scope.

(* ---------- qsum ---------- *)
Lemma qsum_app : forall a b, qsum (a ++ b) == qsum a + qsum b.
Proof. induction a as [|x a IH]; intro b; simpl; [ring | rewrite IH; ring]. Qed.

Lemma qsum_map_ext : forall {T} (f g : T -> Q) l, (forall x, In x l -> f x == g x) -> qsum (map f l) == qsum (map g l).
Proof.
  induction l as [|x l IH]; intro H; simpl; [reflexivity|].
  rewrite (H x (or_introl eq_refl)). rewrite IH; [reflexivity | intros; apply H; right; assumption].
Qed.

Lemma qsum_map_le : forall {T} (f g : T -> Q) l, (forall x, In x l -> f x <= g x) -> qsum (map f l) <= qsum (map g l).
Proof.
  induction l as [|x l IH]; intro H; simpl; [lra|].
  pose proof (H x (or_introl eq_refl)).
  assert (qsum (map f l) <= qsum (map g l)) by (apply IH; intros; apply H; right; assumption). lra.
Qed.

Lemma qsum_nonneg : forall l, Forall (fun x => 0 <= x) l -> 0 <= qsum l.
Proof. induction 1; simpl; lra. Qed.

Lemma qsum_map_nonneg : forall {T} (f : T -> Q) l, (forall x, In x l -> 0 <= f x) -> 0 <= qsum (map f l).
Proof.
  intros T f l H. apply qsum_nonneg. apply Forall_forall. intros y Hy.
  apply in_map_iff in Hy. destruct Hy as (x & <- & Hx). apply H. exact Hx.
Qed.

Lemma qsum_repeat : forall q n, qsum (repeat q n) == inject_Z (Z.of_nat n) * q.
Proof.
  intros q n. induction n as [|n IH].
  - simpl. ring.
  - rewrite Nat2Z.inj_succ. unfold Z.succ. rewrite inject_Z_plus. simpl repeat. simpl qsum. rewrite IH. ring.
Qed.

Lemma qsum_map_const_minus : forall {T} (f : T -> Q) l,
  qsum (map (fun x => 1 - f x) l) == inject_Z (Z.of_nat (length l)) - qsum (map f l).
Proof.
  induction l as [|x l IH].
  - simpl. ring.
  - simpl length. rewrite Nat2Z.inj_succ. unfold Z.succ. rewrite inject_Z_plus. simpl. rewrite IH. ring.
Qed.

Lemma qsum_upper : forall l, Forall (fun x => x <= 1) l -> qsum l <= inject_Z (Z.of_nat (length l)).
Proof.
  induction 1 as [|x l Hx Hl IH].
  - apply Qle_refl.
  - simpl length. rewrite Nat2Z.inj_succ. unfold Z.succ. rewrite inject_Z_plus. change (inject_Z 1) with 1.
    change (qsum (x :: l)) with (x + qsum l). lra.
Qed.

Lemma inject_Z_lsum : forall l, inject_Z (lsum l) == qsum (map inject_Z l).
Proof. induction l as [|x l IH]; simpl; [reflexivity | rewrite inject_Z_plus, IH; reflexivity]. Qed.

(* ---------- matchings (vocabulary of Proofs/MunkresSpec.v: is_matching) ---------- *)
Definition total (G : nat -> nat -> Q) (m : list (nat * nat)) : Q := qsum (map (fun p => G (fst p) (snd p)) m).

(* best is the largest total credit of a one-to-one assignment of rows (items) < r to columns (answers) < c *)
Definition max_total (G : nat -> nat -> Q) (r c : nat) (best : Q) : Prop :=
  (exists m, is_matching r c m /\ total G m == best) /\ (forall m, is_matching r c m -> total G m <= best).

Lemma max_total_unique : forall G r c b1 b2, max_total G r c b1 -> max_total G r c b2 -> b1 == b2.
Proof.
  intros G r c b1 b2 [(m1 & M1 & E1) U1] [(m2 & M2 & E2) U2].
  pose proof (U2 m1 M1). pose proof (U1 m2 M2). lra.
Qed.

Lemma max_total_comp : forall G r c b1 b2, b1 == b2 -> max_total G r c b1 -> max_total G r c b2.
Proof.
  intros G r c b1 b2 E [(m & M & Em) U]. split.
  - exists m. split; [exact M | lra].
  - intros m' M'. pose proof (U m' M'). lra.
Qed.

Lemma total_app : forall G a b, total G (a ++ b) == total G a + total G b.
Proof. intros. unfold total. rewrite map_app. apply qsum_app. Qed.

Lemma bounded_NoDup_length : forall n l, NoDup l -> (forall x, In x l -> (x < n)%nat) -> (length l <= n)%nat.
Proof.
  intros n l ND B. rewrite <- (seq_length n 0). apply NoDup_incl_length; [exact ND|].
  intros x Hx. apply in_seq. pose proof (B x Hx). lia.
Qed.

Lemma free_index : forall n l, NoDup l -> (forall x, In x l -> (x < n)%nat) -> (length l < n)%nat ->
  exists i, (i < n)%nat /\ ~ In i l.
Proof.
  intros n l ND B L.
  destruct (find (fun i => negb (existsb (Nat.eqb i) l)) (seq 0 n)) as [i|] eqn:F.
  - apply find_some in F. destruct F as [Hi Hn]. apply in_seq in Hi. exists i. split; [lia|].
    intro K. apply negb_true_iff in Hn.
    assert (existsb (Nat.eqb i) l = true) by (apply existsb_exists; exists i; split; [exact K | apply Nat.eqb_refl]).
    congruence.
  - exfalso.
    assert (incl (seq 0 n) l).
    { intros x Hx. pose proof (find_none _ _ F x Hx) as Hn. apply negb_false_iff in Hn.
      apply existsb_exists in Hn. destruct Hn as (y & Hy & E). apply Nat.eqb_eq in E. subst y. exact Hy. }
    pose proof (NoDup_incl_length (seq_NoDup n 0) H) as K. rewrite seq_length in K. lia.
Qed.

Lemma NoDup_app_single : forall {T} (l : list T) x, NoDup l -> ~ In x l -> NoDup (l ++ [x]).
Proof.
  intros T l x ND NI. induction ND as [|y l Hy ND IH]; simpl.
  - constructor; [intros [] | constructor].
  - constructor.
    + intro K. apply in_app_or in K. destruct K as [K | [K | []]]; [contradiction | subst; apply NI; left; reflexivity].
    + apply IH. intro K. apply NI. right. exact K.
Qed.

Lemma matching_fst_bound : forall r c m x, is_matching r c m -> In x (map fst m) -> (x < r)%nat.
Proof.
  intros r c m x (_ & _ & B) H. apply in_map_iff in H. destruct H as (p & <- & Hp).
  rewrite Forall_forall in B. apply (B p Hp).
Qed.
Lemma matching_snd_bound : forall r c m x, is_matching r c m -> In x (map snd m) -> (x < c)%nat.
Proof.
  intros r c m x (_ & _ & B) H. apply in_map_iff in H. destruct H as (p & <- & Hp).
  rewrite Forall_forall in B. apply (B p Hp).
Qed.

Lemma matching_length : forall r c m, is_matching r c m -> (length m <= r)%nat /\ (length m <= c)%nat.
Proof.
  intros r c m M. pose proof M as (N1 & N2 & _). split.
  - rewrite <- (map_length fst). apply bounded_NoDup_length; [exact N1 | intros x; apply (matching_fst_bound r c m x M)].
  - rewrite <- (map_length snd). apply bounded_NoDup_length; [exact N2 | intros x; apply (matching_snd_bound r c m x M)].
Qed.

Lemma matching_weaken : forall r c r' c' m, (r <= r')%nat -> (c <= c')%nat -> is_matching r c m -> is_matching r' c' m.
Proof.
  intros r c r' c' m Hr Hc (N1 & N2 & B). repeat split; [exact N1 | exact N2|].
  eapply Forall_impl; [|exact B]. intros p [H1 H2]. simpl in *. lia.
Qed.

(* a partial matching of an n x n grid extends to a complete one *)
Lemma matching_extend : forall n k m, is_matching n n m -> (n - length m = k)%nat ->
  exists e, is_matching n n (m ++ e) /\ length (m ++ e) = n.
Proof.
  intros n k. induction k as [|k IH]; intros m M K.
  - exists []. rewrite app_nil_r. split; [exact M|]. pose proof (matching_length n n m M). lia.
  - pose proof M as (N1 & N2 & B).
    destruct (free_index n (map fst m) N1) as (i & Hi & Fi);
      [intros x; apply (matching_fst_bound n n m x M) | rewrite map_length; lia |].
    destruct (free_index n (map snd m) N2) as (j & Hj & Fj);
      [intros x; apply (matching_snd_bound n n m x M) | rewrite map_length; lia |].
    assert (M' : is_matching n n (m ++ [(i, j)])).
    { repeat split.
      - rewrite map_app. simpl. apply NoDup_app_single; assumption.
      - rewrite map_app. simpl. apply NoDup_app_single; assumption.
      - apply Forall_app. split; [exact B | constructor; [simpl; lia | constructor]]. }
    destruct (IH (m ++ [(i, j)]) M') as (e & Me & Le); [rewrite app_length; simpl; lia|].
    exists ((i, j) :: e). rewrite <- app_assoc in Me, Le. simpl in Me, Le. split; assumption.
Qed.

(* ---------- credit functions that vanish outside the real r x c block (padding earns nothing) ---------- *)
Definition real (r c : nat) (p : nat * nat) : bool := (fst p <? r)%nat && (snd p <? c)%nat.
Definition vanishes_outside (G : nat -> nat -> Q) (r c : nat) : Prop :=
  forall i j, ~ ((i < r)%nat /\ (j < c)%nat) -> G i j == 0.

Lemma total_filter_real : forall G r c m, vanishes_outside G r c -> total G m == total G (filter (real r c) m).
Proof.
  intros G r c m V. unfold total. induction m as [|p m IH]; simpl; [reflexivity|].
  destruct (real r c p) eqn:R; simpl; rewrite IH; [reflexivity|].
  rewrite (V (fst p) (snd p)); [ring|].
  intros [H1 H2]. unfold real in R. apply andb_false_iff in R. destruct R as [R|R]; apply Nat.ltb_ge in R; lia.
Qed.

Lemma NoDup_map_filter : forall {T U} (f : T -> U) (p : T -> bool) l, NoDup (map f l) -> NoDup (map f (filter p l)).
Proof.
  intros T U f p l. induction l as [|x l IH]; simpl; intro H; [constructor|].
  inversion H as [|? ? Hx Hl]; subst. destruct (p x); simpl; [|apply IH; exact Hl].
  constructor; [|apply IH; exact Hl].
  intro K. apply Hx. apply in_map_iff in K. destruct K as (y & E & Hy). apply filter_In in Hy.
  apply in_map_iff. exists y. tauto.
Qed.

Lemma matching_filter_real : forall n r c m, is_matching n n m -> is_matching r c (filter (real r c) m).
Proof.
  intros n r c m (N1 & N2 & _). repeat split.
  - apply NoDup_map_filter. exact N1.
  - apply NoDup_map_filter. exact N2.
  - apply Forall_forall. intros p Hp. apply filter_In in Hp. destruct Hp as [_ R].
    unfold real in R. apply andb_true_iff in R. destruct R as [R1 R2]. apply Nat.ltb_lt in R1, R2. split; assumption.
Qed.

Lemma total_nonneg : forall G m, (forall i j, 0 <= G i j) -> 0 <= total G m.
Proof. intros G m H. unfold total. apply qsum_map_nonneg. intros. apply H. Qed.

(* a complete matching of the padded n x n grid with maximal total among complete matchings
   yields the maximum over ALL one-to-one assignments inside the real r x c block *)
Lemma max_total_from_complete : forall G r c n res,
  (r <= n)%nat -> (c <= n)%nat -> vanishes_outside G r c -> (forall i j, 0 <= G i j) ->
  is_matching n n res -> length res = n ->
  (forall m, is_matching n n m -> length m = n -> total G m <= total G res) ->
  max_total G r c (total G res).
Proof.
  intros G r c n res Hr Hc V NN M L Opt. split.
  - exists (filter (real r c) res). split; [eapply matching_filter_real; exact M|].
    symmetry. apply total_filter_real. exact V.
  - intros m Mm.
    pose proof (matching_weaken r c n n m Hr Hc Mm) as Mn.
    destruct (matching_extend n (n - length m) m Mn eq_refl) as (e & Me & Le).
    pose proof (Opt (m ++ e) Me Le) as O. rewrite total_app in O.
    pose proof (total_nonneg G e NN). lra.
Qed.

(* rows renamed by an injection: a matching for G' becomes a matching for G of the same total *)
Definition rename_rows (f : nat -> nat) (m : list (nat * nat)) : list (nat * nat) := map (fun p => (f (fst p), snd p)) m.

Lemma rename_rows_matching : forall r c (f : nat -> nat) m,
  Injective f -> (forall i, (i < r)%nat -> (f i < r)%nat) -> is_matching r c m -> is_matching r c (rename_rows f m).
Proof.
  intros r c f m Inj Bf (N1 & N2 & B). unfold rename_rows. repeat split.
  - rewrite map_map. simpl. rewrite <- (map_map fst f). apply Injective_map_NoDup; assumption.
  - rewrite map_map. simpl. exact N2.
  - apply Forall_forall. intros p Hp. apply in_map_iff in Hp. destruct Hp as (q & <- & Hq).
    rewrite Forall_forall in B. destruct (B q Hq) as [B1 B2]. simpl. split; [apply Bf; exact B1 | exact B2].
Qed.

Lemma rename_rows_total : forall G G' r c (f : nat -> nat) m,
  (forall i j, (i < r)%nat -> G' i j == G (f i) j) -> is_matching r c m -> total G' m == total G (rename_rows f m).
Proof.
  intros G G' r c f m E (_ & _ & B). unfold total, rename_rows. rewrite map_map. simpl. apply qsum_map_ext. intros p Hp.
  rewrite Forall_forall in B. destruct (B p Hp) as [B1 _]. apply E. exact B1.
Qed.

(* G' is G with rows renamed by f, and G is G' with rows renamed by f': the maximum is the same *)
Lemma max_total_reindex : forall G G' r c (f f' : nat -> nat) best,
  Injective f -> (forall i, (i < r)%nat -> (f i < r)%nat) -> (forall i j, (i < r)%nat -> G' i j == G (f i) j) ->
  Injective f' -> (forall i, (i < r)%nat -> (f' i < r)%nat) -> (forall i j, (i < r)%nat -> G i j == G' (f' i) j) ->
  max_total G r c best -> max_total G' r c best.
Proof.
  intros G G' r c f f' best If Bf Ef If' Bf' Ef' [(m & Mm & Em) U]. split.
  - exists (rename_rows f' m). split; [apply rename_rows_matching; assumption|].
    rewrite <- (rename_rows_total G' G r c f' m Ef' Mm). exact Em.
  - intros m' Mm'. rewrite (rename_rows_total G G' r c f m' Ef Mm'). apply U. apply rename_rows_matching; assumption.
Qed.

(* ---------- the solver on rational cost matrices ---------- *)
Definition qget (M : list (list Q)) (i j : nat) : Q := nth j (nth i M []) 0.
Definition qcost (M : list (list Q)) (m : list (nat * nat)) : Q := qsum (map (fun p => qget M (fst p) (snd p)) m).

(* what the list grader needs of the solver it calls: on a square matrix, IF it returns, the result is a complete
   one-to-one assignment of minimum total cost *)
Definition solver_optimal (solve : list (list Q) -> option (list (nat * nat))) : Prop :=
  forall n M res, (1 <= n)%nat -> length M = n -> Forall (fun row => length row = n) M -> solve M = Some res ->
    is_matching n n res /\ length res = n /\
    forall m, is_matching n n m -> length m = n -> qcost M res <= qcost M m.

Lemma row_den_fold_pos : forall row acc, (0 < acc)%Z -> (0 < fold_right (fun q a => Z.lcm (Zpos (Qden q)) a) acc row)%Z.
Proof.
  induction row as [|q row IH]; intros acc H; simpl; [exact H|].
  pose proof (IH acc H) as P. pose proof (Z.lcm_nonneg (Zpos (Qden q)) (fold_right (fun q a => Z.lcm (Zpos (Qden q)) a) acc row)) as N.
  destruct (Z.eq_dec (Z.lcm (Zpos (Qden q)) (fold_right (fun q a => Z.lcm (Zpos (Qden q)) a) acc row)) 0) as [E|NE]; [|lia].
  apply Z.lcm_eq_0 in E. destruct E as [E|E]; [discriminate | lia].
Qed.

Lemma common_den_pos : forall M, (0 < common_den M)%Z.
Proof.
  induction M as [|row M IH]; simpl; [lia|]. apply row_den_fold_pos. exact IH.
Qed.

Lemma row_den_fold_div_acc : forall row acc, (acc | fold_right (fun q a => Z.lcm (Zpos (Qden q)) a) acc row)%Z.
Proof.
  induction row as [|q row IH]; intro acc; simpl; [apply Z.divide_refl|].
  eapply Z.divide_trans; [apply IH | apply Z.divide_lcm_r].
Qed.

Lemma row_den_fold_div : forall row acc q, In q row -> (Zpos (Qden q) | fold_right (fun q a => Z.lcm (Zpos (Qden q)) a) acc row)%Z.
Proof.
  induction row as [|x row IH]; intros acc q H; simpl; [destruct H|].
  destruct H as [<- | H]; [apply Z.divide_lcm_l|].
  eapply Z.divide_trans; [apply IH; exact H | apply Z.divide_lcm_r].
Qed.

Lemma common_den_div : forall M row q, In row M -> In q row -> (Zpos (Qden q) | common_den M)%Z.
Proof.
  induction M as [|r M IH]; intros row q HR HQ; simpl; [destruct HR|].
  destruct HR as [<- | HR]; [apply row_den_fold_div; exact HQ|].
  eapply Z.divide_trans; [apply (IH row q HR HQ) | apply row_den_fold_div_acc].
Qed.

Lemma qget_den_div : forall M i j, (Zpos (Qden (qget M i j)) | common_den M)%Z.
Proof.
  intros M i j. unfold qget.
  destruct (nth_in_or_default i M []) as [HR | HR].
  - destruct (nth_in_or_default j (nth i M []) 0) as [HQ | HQ].
    + eapply common_den_div; eassumption.
    + rewrite HQ. simpl. apply Z.divide_1_l.
  - rewrite HR. destruct j; simpl; apply Z.divide_1_l.
Qed.

Lemma scale_q_spec : forall D q, (0 < D)%Z -> (Zpos (Qden q) | D)%Z -> inject_Z (scale_q D q) == inject_Z D * q.
Proof.
  intros D [a b] HD [k Hk]. unfold scale_q. simpl in *. subst D.
  rewrite Z.div_mul by discriminate. unfold Qeq, inject_Z, Qmult. simpl. ring.
Qed.

Lemma scale_q_zero : forall D, scale_q D 0 = 0%Z.
Proof. intro D. unfold scale_q. simpl. reflexivity. Qed.

Lemma gz_scale : forall M i j, gz (scale_matrix M) i j = scale_q (common_den M) (qget M i j).
Proof.
  intros M i j. unfold gz, get2, scale_matrix, qget.
  change (@nil Z) with (map (scale_q (common_den M)) []).
  rewrite map_nth. rewrite <- (scale_q_zero (common_den M)). rewrite map_nth. reflexivity.
Qed.

Lemma cost_scale : forall M m, inject_Z (cost (scale_matrix M) m) == inject_Z (common_den M) * qcost M m.
Proof.
  intros M m. unfold cost, qcost. rewrite inject_Z_lsum. rewrite map_map.
  induction m as [|p m IH]; simpl; [ring|].
  rewrite IH. rewrite gz_scale. rewrite scale_q_spec; [ring | apply common_den_pos | apply qget_den_div].
Qed.

Lemma rect_scale : forall n M, length M = n -> Forall (fun row => length row = n) M -> rect n n (scale_matrix M).
Proof.
  intros n M L F. unfold rect, scale_matrix. split; [rewrite map_length; exact L|].
  apply Forall_forall. intros row Hrow. apply in_map_iff in Hrow. destruct Hrow as (r0 & <- & H0).
  rewrite map_length. rewrite Forall_forall in F. apply F. exact H0.
Qed.

(* C06's statement for integer costs gives the rational statement for the scaled solver: nothing is assumed
   about rationals *)
Theorem solveZ_optimal : munkres_partial_correct_statement -> solver_optimal solveZ.
Proof.
  intros HZ n M res Hn L F S. unfold solveZ in S.
  destruct (HZ n n (scale_matrix M) res Hn Hn (rect_scale n M L F) S) as (Mres & Lres & Opt).
  rewrite Nat.min_id in Lres. split; [exact Mres | split; [exact Lres|]].
  intros m Mm Lm. assert (Lm' : length m = Nat.min n n) by (rewrite Nat.min_id; exact Lm).
  pose proof (Opt m Mm Lm') as O. rewrite Zle_Qle in O. rewrite !cost_scale in O.
  pose proof (common_den_pos M) as P. assert (P' : 0 < inject_Z (common_den M)) by (rewrite <- (Zlt_Qlt 0); exact P).
  nra.
Qed.

(* the hypothesis is C06's theorem: the executable solver of the model is optimal, outright *)
Theorem solveZ_solver_optimal : solver_optimal solveZ.
Proof. exact (solveZ_optimal munkres_partial_correct). Qed.

(* ---------- termination: the scaled solver always returns (C06: munkres_terminates, no bound on the costs) ---------- *)
Theorem solveZ_returns : forall n M, (1 <= n)%nat -> length M = n -> Forall (fun row => length row = n) M -> solveZ M <> None.
Proof.
  intros n M Hn L F. unfold solveZ. apply (munkres_terminates n n (scale_matrix M) Hn Hn (rect_scale n M L F)).
Qed.
